#!/bin/sh
# usage: confirm_b4.sh <k> <Cxx> <newk>: confirm the batch-3 change for property Cxx made by sub-agent k in its own scratch
# worktree at /repo HEAD; on success store it as /verif/seeded/<Cxx>-<newk>
K=$1; P=$2; NK=$3; SRC=/tmp/wt/b4_$K/out; WT=/tmp/wt/cf4_${P}; OUT=/tmp/wt/confirm_b4_${P}.txt
git -C /repo worktree remove --force $WT 2>/dev/null
git -C /repo worktree add -q --detach $WT HEAD || exit 9
{
echo "change b4 $P (agent $K) head=$(git -C /repo rev-parse --short HEAD)"
cd $WT
PYTHONPATH=$WT timeout 600 /venv/bin/python $SRC/demo_$P.py > /dev/null 2>&1; echo "demo_without=$?"
if git apply -C1 $SRC/mut_$P.diff; then
  PYTHONPATH=$WT timeout 600 /venv/bin/python $SRC/demo_$P.py > /tmp/wt/demo_b4_${P}.out 2>&1; echo "demo_with=$?"
  /venv/bin/python -m pytest -q -p no:cacheprovider --timeout=900 nixio/test 2>&1 | grep -E "^(FAILED|ERROR)" | sed 's/ - .*//' | sort > /tmp/wt/failed_b4_${P}.txt
  echo "n_failed=$(wc -l < /tmp/wt/failed_b4_${P}.txt)"
  if diff -q /tmp/wt/failed_HEAD3.txt /tmp/wt/failed_b4_${P}.txt > /dev/null; then echo "tests_same_as_head=yes"; else echo "tests_same_as_head=NO"; fi
else
  echo "APPLY_FAILED"
fi
} > $OUT 2>&1
cd /; git -C /repo worktree remove --force $WT
if grep -q "demo_without=0" $OUT && grep -q "tests_same_as_head=yes" $OUT && ! grep -q "demo_with=0" $OUT && grep -q "demo_with=" $OUT; then
  D=/verif/seeded/$P-$NK; mkdir -p $D; cp $SRC/mut_$P.diff $D/patch.diff; cp $SRC/demo_$P.py $D/demo.py
  /venv/bin/python - <<PY
import json
m = json.load(open("$SRC/meta_$P.json"))
conf = open("$OUT").read()
json.dump({"property": "$P", "breaks": m.get("summary"), "needs": m.get("needs"), "files": m.get("files"),
  "author": "independent sub-agent, batch 4 (saw only the property text and a scratch worktree; told that obvious candidates and per-object caches were taken)",
  "confirmed_by_me": {"what_i_ran": "/tmp/confirm_b4.sh: scratch worktree at /repo HEAD - demo without patch, git apply, demo with patch, full pytest run compared with the unchanged HEAD's failing set", "result": [l for l in conf.splitlines() if "=" in l]},
  "sub_agent_tests_run": m.get("tests_run")}, open("$D/meta.json", "w"), indent=1)
PY
  echo "stored $D"
else
  echo "NOT CONFIRMED $P"; cat $OUT
fi
