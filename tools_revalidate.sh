#!/bin/sh
# re-validates every seeded change against /repo's current HEAD: the patch applies, its demonstration passes without
# the change and fails with it. Writes seeded/REVALIDATION.txt. (The full test-suite comparison was done when the
# change was first confirmed, see each meta.json.)
WT=/tmp/wt/reval; OUT=/verif/seeded/REVALIDATION.txt
git -C /repo worktree remove --force $WT 2>/dev/null; git -C /repo worktree add -q --detach $WT HEAD || exit 9
echo "revalidated against /repo $(git -C /repo rev-parse --short HEAD)" > $OUT
for d in /verif/seeded/C*/; do
  id=$(basename $d)
  git -C $WT checkout -q -- . ; rm -f $WT/*.nix $WT/*.h5
  ( cd $WT && PYTHONPATH=$WT timeout 300 /venv/bin/python $d/demo.py > /dev/null 2>&1 ); a=$?
  if git -C $WT apply -C1 $d/patch.diff 2>/dev/null; then
    ( cd $WT && PYTHONPATH=$WT timeout 300 /venv/bin/python $d/demo.py > /dev/null 2>&1 ); b=$?
    echo "$id demo_without=$a demo_with=$b $([ $a -eq 0 ] && [ $b -ne 0 ] && echo VALID || echo STALE)" >> $OUT
  else
    echo "$id PATCH-DOES-NOT-APPLY" >> $OUT
  fi
done
git -C $WT checkout -q -- . ; git -C /repo worktree remove --force $WT
cat $OUT
