#!/bin/sh
# runs every claimed quick check on /repo and prints everything except per-clause lines; exit status = worst status
cd "$(dirname "$0")"
worst=0
for p in $(python3 -c "import json;print(' '.join(c['property_id'] for c in json.load(open('MANIFEST.json'))['checks']))"); do
  ./check $p --tier quick "$@" > /tmp/.tools_all_$p.out 2>&1; rc=$?
  grep -v "^   " /tmp/.tools_all_$p.out | cut -c1-260; rm -f /tmp/.tools_all_$p.out
  [ $rc -gt $worst ] && worst=$rc
done
echo "worst exit status: $worst"
exit $worst
