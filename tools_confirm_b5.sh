#!/bin/sh
# usage: tools_confirm_b5.sh <Cxx>: confirm the batch-5 (-7) change a sub-agent left in its scratch worktree /tmp/wt_<Cxx>-7
# (diff of nixio/ + demo.py) in a fresh scratch worktree at /repo HEAD: demo without / with the patch, full pytest run compared
# with the failing set of the unchanged HEAD; on success store it as /verif/seeded/<Cxx>-7 and run the registered quick check
# of the property ONCE on the changed tree (first pass, before anything is adapted).
P=$1; SRC=/tmp/wt_$P-7; WT=/tmp/cf5_$P; OUT=/tmp/confirm_b5_$P.txt
git -C $SRC diff -- nixio > /tmp/b5_$P.diff
mkdir -p /tmp/b5_demo_$P; cp $SRC/demo.py /tmp/b5_demo_$P/demo.py; DEMO=/tmp/b5_demo_$P/demo.py   # away from the sub-agent's changed nixio/ (sys.path[0])
git -C /repo worktree remove --force $WT 2>/dev/null
git -C /repo worktree add -q --detach $WT HEAD || exit 9
{
echo "change b5 $P head=$(git -C /repo rev-parse --short HEAD)"
cd $WT
PYTHONPATH=$WT timeout 600 /venv/bin/python $DEMO > /dev/null 2>&1; echo "demo_without=$?"
if git apply /tmp/b5_$P.diff; then
  PYTHONPATH=$WT timeout 600 /venv/bin/python $DEMO > /tmp/demo_b5_$P.out 2>&1; echo "demo_with=$?"
  PYTHONPATH=$WT /venv/bin/python -m pytest -q -p no:cacheprovider --timeout=900 nixio/test 2>&1 | grep -E "^(FAILED|ERROR)" | sed 's/ - .*//' | sort > /tmp/failed_b5_$P.txt
  echo "n_failed=$(wc -l < /tmp/failed_b5_$P.txt)"
  if diff -q /tmp/failed_HEAD5.txt /tmp/failed_b5_$P.txt > /dev/null; then echo "tests_same_as_head=yes"; else echo "tests_same_as_head=NO"; fi
else
  echo "APPLY_FAILED"
fi
} > $OUT 2>&1
if grep -q "demo_without=0" $OUT && grep -q "tests_same_as_head=yes" $OUT && ! grep -q "demo_with=0" $OUT && grep -q "demo_with=" $OUT; then
  D=/verif/seeded/$P-7; mkdir -p $D; cp /tmp/b5_$P.diff $D/patch.diff; cp $SRC/demo.py $D/demo.py
  cd /verif && ./check $P --tier quick --repo $WT > /tmp/first_b5_$P.out 2>&1; echo "first_pass_rc=$?" >> $OUT
  grep -m3 "^VIOLATION" /tmp/first_b5_$P.out >> $OUT
  echo "stored $D"
else
  echo "NOT CONFIRMED $P"
fi
cat $OUT
cd /; git -C /repo worktree remove --force $WT
