#!/bin/sh
# (re)records baseline/<prop>.json (unit fingerprints + discharged clauses) for the given or all claimed properties.
# Run on the unchanged tree after contract changes; a baseline is only written by a fully green run.
cd "$(dirname "$0")"
PROPS="$@"
[ -n "$PROPS" ] || PROPS=$(python3 -c "import json;print(' '.join(c['property_id'] for c in json.load(open('MANIFEST.json'))['checks']))")
for p in $PROPS; do ./check $p --tier quick --write-baseline | grep -v "^   " | cut -c1-300; done
