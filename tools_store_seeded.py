#!/usr/bin/env python3
"""Copy a confirmed sub-agent mutant into /verif/seeded/<prop>-<k>/ (patch.diff, demo.py, meta.json)."""
import json, os, shutil, sys
prop, k = sys.argv[1], sys.argv[2]
src = "/tmp/wt/%s/out" % prop
conf = open("/tmp/wt/confirm_%s_%s.txt" % (prop, k)).read()
ok = "demo_without=0" in conf and "demo_with=1" in conf and "tests_same_as_head=yes" in conf
if not ok:
    print("NOT CONFIRMED", prop, k); sys.exit(1)
dst = "/verif/seeded/%s-%s" % (prop, k)
os.makedirs(dst, exist_ok=True)
diff = src + "/mut%s_rebased.diff" % k
if not os.path.exists(diff):
    diff = src + "/mut%s.diff" % k
shutil.copy(diff, dst + "/patch.diff")
shutil.copy(src + "/demo%s.py" % k, dst + "/demo.py")
meta = json.load(open(src + "/meta%s.json" % k))
meta = {"property": prop, "breaks": meta.get("summary"), "needs": meta.get("needs"), "files": meta.get("files"),
        "author": "independent sub-agent (saw only the property text and a scratch worktree)",
        "confirmed_by_me": {"what_i_ran": "tools_confirm_mutant.sh %s %s: in a scratch worktree at /repo HEAD - demo without patch, "
                                          "git apply patch, demo with patch, full pytest run compared with the unchanged HEAD" % (prop, k),
                            "result": [l for l in conf.splitlines() if "=" in l]},
        "sub_agent_tests_run": meta.get("tests_run")}
json.dump(meta, open(dst + "/meta.json", "w"), indent=1)
print("stored", dst)
