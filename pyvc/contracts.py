"""Contract registry, sidecar loader and spec-expression evaluation."""
import ast
import glob
import importlib.util
import os
import z3

from .vals import *      # noqa: F401,F403
from . import vals as V
from .symexec import Frame, Path, Unsupported


class Contract:
    def __init__(self, qualname, **kw):
        self.qualname = qualname
        self.params = kw.pop("params", {})           # ordered name -> Sort
        self.defaults = kw.pop("defaults", {})       # for assumed library functions
        self.result = kw.pop("result", None)         # Sort of the result (None: returns None)
        self.result_expr = kw.pop("result_expr", None)
        self.lets = kw.pop("let", "")
        self.requires = _idlist(kw.pop("requires", []), "pre")
        ens = kw.pop("ensures", [])
        self.ensures = []
        for k, e in enumerate(ens if isinstance(ens, (list, tuple)) else [ens]):
            if isinstance(e, tuple):
                self.ensures.append((e[0], e[1], e[2] if len(e) > 2 else "helper"))
            else:
                self.ensures.append(("post%d" % k, e, "helper"))
        self.raises = {}
        for k, v in kw.pop("raises", {}).items():
            self.raises[k] = v if isinstance(v, tuple) else (v, "helper")
        self.on_raise = _idlist(kw.pop("on_raise", []), "onraise")   # ensures on exceptional exits
        self.modifies = kw.pop("modifies", [])
        self.raise_dirty = kw.pop("raise_dirty", False)
        self.mutates = kw.pop("mutates", [])         # parameters (library arrays) updated in place: `<name>__final` in ensures
        self.loops = kw.pop("loops", {})
        self.assumed = kw.pop("assumed", False)      # trusted: never verified, always listed
        self.inline = kw.pop("inline", False)
        self.at_cut = _idlist(kw.pop("at_cut", []), "cut")   # prefix mode: clauses that must hold where the path is cut
        self.prefix = kw.pop("prefix", False)        # verify only the refusal prefix (up to the first unmodelled statement)
        self.wip = kw.pop("wip", False)              # work in progress: not verified, not claimed, listed as such
        self.props = kw.pop("props", [])             # property ids this unit serves
        self.prop_clauses = set(kw.pop("prop_clauses", []))   # clause ids written from the property statement
        self.ghost = kw.pop("ghost", {})             # extra symbolic ghost values name -> Sort
        self.note = kw.pop("note", "")
        self.self_cls = kw.pop("self_cls", None)
        self.fields = kw.pop("fields", None)
        self.replay = kw.pop("replay", None)
        self.instances = kw.pop("instances", None)   # list of dicts: concrete values for ghost names
        self.unexpected_ok = kw.pop("unexpected_ok", [])  # exception classes that may escape unspecified
        if kw:
            raise TypeError("unknown contract keys %r for %s" % (list(kw), qualname))


def _idlist(xs, prefix):
    out = []
    if isinstance(xs, str):
        xs = [xs]
    for k, x in enumerate(xs):
        if isinstance(x, tuple):
            out.append((x[0], x[1]))
        else:
            out.append(("%s%d" % (prefix, k), x))
    return out


class Registry:
    def __init__(self):
        self.contracts = {}
        self.lemmas = []          # (name, props, fn(ctx) -> list of (sub, hyps, goal))
        self.classes = {}         # class name -> dict(field -> Sort)
        self.inline_ok = set()    # qualnames or prefixes that may be inlined without contract
        self.specfuncs = {}       # name -> python callable(ex, p, *args)
        self.bounded = []         # bounded stand-ins (name, props, fn)
        self.invariants = {}      # class name -> list of spec strings over `self`
        self.files = []

    def get(self, qn):
        return self.contracts.get(qn)

    def may_inline(self, qn):
        if qn in self.inline_ok:
            return True
        return any(qn.startswith(pfx) for pfx in self.inline_ok if pfx.endswith("."))

    # -------- decorators used by sidecar files --------
    def contract(self, qualname, **kw):
        c = Contract(qualname, **kw)
        if qualname in self.contracts:
            raise ValueError("duplicate contract %s" % qualname)
        self.contracts[qualname] = c
        return c

    def fields(self, cls, **flds):
        self.classes.setdefault(cls, {}).update(flds)

    def inline(self, *qns):
        self.inline_ok.update(qns)

    def specfunc(self, name=None):
        def deco(fn):
            self.specfuncs[name or fn.__name__] = fn
            return fn
        return deco

    def lemma(self, name, props):
        def deco(fn):
            self.lemmas.append((name, props, fn))
            return fn
        return deco

    def bounded_check(self, name, props):
        def deco(fn):
            self.bounded.append((name, props, fn))
            return fn
        return deco


def load_sidecars(reg, directory):
    import sys
    for path in sorted(glob.glob(os.path.join(directory, "*.py"))):
        name = "sidecar_" + os.path.basename(path)[:-3]
        spec = importlib.util.spec_from_file_location(name, path)
        mod = importlib.util.module_from_spec(spec)
        mod.REG = reg
        sys.modules[name] = mod
        spec.loader.exec_module(mod)
        reg.files.append(path)


# --------------------------------------------------------------------------
# spec evaluation
# --------------------------------------------------------------------------
_parse_cache = {}


def _split_top(seg, sep):
    parts, depth, cur, k, q = [], 0, [], 0, None
    while k < len(seg):
        ch = seg[k]
        if q:
            cur.append(ch)
            if ch == q:
                q = None
            k += 1
            continue
        if ch in "'\"":
            q = ch
        elif ch in "([{":
            depth += 1
        elif ch in ")]}":
            depth -= 1
        if depth == 0 and seg.startswith(sep, k):
            parts.append("".join(cur))
            cur = []
            k += len(sep)
            continue
        cur.append(ch)
        k += 1
    parts.append("".join(cur))
    return parts


def _desugar_seg(seg):
    """`a implies b` (lowest precedence, right associative) -> implies((a), (b)) within one bracket level."""
    out = []
    for part in _split_top(seg, ","):
        fs = _split_top(part, " for ")
        head = fs[0]
        imps = _split_top(head, " implies ")
        if len(imps) > 1:
            acc = imps[-1]
            for a in reversed(imps[:-1]):
                acc = "implies((%s), (%s))" % (a.strip(), acc.strip())
            head = " " + acc
        out.append(" for ".join([head] + fs[1:]))
    return ",".join(out)


def desugar(txt):
    if " implies " not in txt:
        return txt
    # innermost brackets first
    stack, cur, q = [], [], None
    for ch in txt:
        if q:
            cur.append(ch)
            if ch == q:
                q = None
            continue
        if ch in "'\"":
            q = ch
            cur.append(ch)
        elif ch in "([{":
            stack.append(cur)
            cur = [ch]
        elif ch in ")]}":
            inner = _desugar_seg("".join(cur[1:]))
            grp = cur[0] + inner + ch
            cur = stack.pop()
            cur.append(grp)
        else:
            cur.append(ch)
    return _desugar_seg("".join(cur))


def parse_expr(txt):
    if txt not in _parse_cache:
        _parse_cache[txt] = ast.parse(desugar(" ".join(txt.split())).strip(), mode="eval").body
    return _parse_cache[txt]


class SpecFI:
    """Pseudo function info for the frame in which contract expressions are evaluated."""
    node = None
    cls = None
    parent = None

    def __init__(self, module, qualname):
        self.module, self.qualname = module, qualname


class SpecEnv:
    """Evaluates contract expression strings in spec mode against a path (state) and an env."""

    def __init__(self, ex, p, env, old=None, contract=None):
        self.ex, self.p, self.env, self.old, self.c = ex, p, env, old, contract
        self.proving = False
        mod = "nixio"
        if contract is not None:
            parts = contract.qualname.split(".")
            for k in range(len(parts), 0, -1):
                if ".".join(parts[:k]) in ex.repo.modules:
                    mod = ".".join(parts[:k])
                    break
        self.fi = SpecFI(mod, "<spec:%s>" % (contract.qualname if contract else "?"))

    def run_lets(self):
        if self.c is None or not self.c.lets:
            return
        for stmt in ast.parse(_dedent(self.c.lets)).body:
            if not isinstance(stmt, ast.Assign):
                raise Unsupported("let must be assignments")
            v = self._eval(stmt.value, self.p)
            tgt = stmt.targets[0]
            if isinstance(tgt, ast.Name):
                self.env[tgt.id] = v
            else:
                v = self.ex.deref(self.p, v)
                for t, x in zip(tgt.elts, v.items):
                    self.env[t.id] = x

    def _eval(self, node, p, frame_vars=None):
        ex = self.ex
        q = Path()
        q.pc = p.pc
        q.heap, q.sigma, q.cells = p.heap, p.sigma, dict(p.cells)
        q.events = p.events
        fr = Frame(self.fi, None, dict(self.env))
        if frame_vars:
            fr.vars.update(frame_vars)        # names bound by an enclosing comprehension stay visible inside old(...)
        fr.vars["__specenv__"] = self
        q.frames = [fr]
        saved = ex.spec
        ex.spec = 1
        try:
            return ex.ev1(q, node)
        finally:
            ex.spec = saved

    def value(self, txt, old=False):
        p = self.old if (old and self.old is not None) else self.p
        return self._eval(parse_expr(txt), p)

    def bool(self, txt, proving=False):
        """proving=True: the formula is a goal (seq_eq expands pointwise); else it is assumed."""
        saved = self.proving
        self.proving = proving
        try:
            v = self.value(txt)
        finally:
            self.proving = saved
        return self.ex.truth(self.p, v)


def _dedent(s):
    import textwrap
    return "\n".join(x.strip() for x in s.replace(";", "\n").split("\n") if x.strip())
