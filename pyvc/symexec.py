"""Forward symbolic executor over the real Python ASTs of /repo (path splitting).

exec mode : executes repository code; forks on branches, exceptions are outcomes.
spec mode : evaluates contract expressions; total, never forks, never raises.
"""
import ast
import z3

from .vals import *          # noqa: F401,F403
from . import vals as V


_quant_cache = {}


def _has_quant(t):
    k = t.get_id()
    if k in _quant_cache:
        return _quant_cache[k]
    r = False
    todo, seen = [t], set()
    while todo:
        x = todo.pop()
        i = x.get_id()
        if i in seen:
            continue
        seen.add(i)
        if z3.is_quantifier(x):
            r = True
            break
        todo.extend(x.children())
    _quant_cache[k] = r
    return r


_EVENT_CLAUSE = __import__('re').compile(r'\b(arg_of|result_of|n_calls|was_called)\s*\(')


class Unsupported(Exception):
    pass


class Frame:
    __slots__ = ("vars", "fi", "parent", "self_cls", "consts")

    def __init__(self, fi, parent=None, vars=None, self_cls=None):
        self.vars = vars if vars is not None else {}
        self.fi = fi
        self.parent = parent        # index of lexical parent frame in path.frames, or None
        self.self_cls = self_cls

    def copy(self):
        return Frame(self.fi, self.parent, dict(self.vars), self.self_cls)


class Path:
    def __init__(self):
        self.pc = []
        self.frames = []
        self.heap = {}       # field name -> z3 Array(Int -> sort)
        self.sigma = {}      # store component -> z3 term
        self.cells = {}      # cell id -> VTuple / VSeq   (local mutable lists)
        self.events = []     # call events: (name, args...)
        self.alloc = 0
        self.alloc_base = z3.Int("alloc0")   # allocation frontier = alloc_base + alloc
        self.tags = []       # free-form notes (which branch etc.)
        self.branch_ids = set()   # ids of path-condition entries that are branch decisions (the rest are facts)

    def fork(self):
        q = Path()
        q.pc = list(self.pc)
        q.frames = [f.copy() for f in self.frames]
        q.heap = dict(self.heap)
        q.sigma = dict(self.sigma)
        q.cells = dict(self.cells)
        q.events = list(self.events)
        q.alloc = self.alloc
        q.alloc_base = self.alloc_base
        q.tags = list(self.tags)
        q.branch_ids = set(self.branch_ids)
        return q

    @property
    def frame(self):
        return self.frames[-1]

    @property
    def frontier(self):
        return self.alloc_base + self.alloc

    def assume(self, c, branch=False):
        if z3.is_true(c):
            return
        if branch:
            self.branch_ids.add(c.get_id())
        for h in self.pc[-40:]:
            if h.eq(c):
                return
        self.pc.append(c)


class Outcome:
    __slots__ = ("kind", "path", "value")

    def __init__(self, kind, path, value=None):
        self.kind, self.path, self.value = kind, path, value   # next|return|raise|break|continue

    def __repr__(self):
        return "Outcome(%s,%r)" % (self.kind, self.value)


_cell_ctr = [0]


class Exec:
    MAX_DEPTH = 14

    def __init__(self, repo, registry, builtins, timeout_ms=3000):
        self.repo = repo
        self.reg = registry
        self.bi = builtins
        self.spec = 0
        self.depth = 0
        self._raises = []
        self.obligs = []           # emitted side obligations
        self.timeout_ms = timeout_ms
        self.inlined = set()       # qualnames executed inline
        self.undeclared_fields = set()
        self.prefix_mode = False   # contract option prefix=True: verify the refusal prefix of a function only
        self.cuts = []
        self.consts_seen = {}      # qualified module/class constant -> ast dump (part of the unit's fingerprint)
        self.node_kinds = set()
        self.unit = None           # qualname of the unit under verification
        self.solver_calls = 0
        self.bound_vars = []
        self.solver_time = 0.0
        self.solver_unknown = 0
        self.feas_ms = 400
        self.impl_ms = 1500
        self.loop_ordinals = {}
        self.global_axioms = []    # facts added to every query (libspec axioms)
        self.current_contract = None

    # ------------------------------------------------------------------
    # solver helpers
    # ------------------------------------------------------------------
    def _solver(self, ms=None):
        s = z3.Solver()
        s.set("timeout", ms or self.timeout_ms)
        for a in self.global_axioms:
            s.add(a)
        return s

    def _check(self, s, ms):
        """s.check() in a forked child with a hard wall-clock limit. z3's sequence solver sometimes ignores its timeout,
        and interrupting it from a timer thread occasionally crashes libz3; a child that does not answer in time is
        killed and the answer is `unknown` (which every caller treats conservatively)."""
        import os
        import select
        import time as _t
        t0 = _t.time()
        r = z3.unknown
        try:
            rd, wr = os.pipe()
            pid = os.fork()
        except OSError:
            pid = -1
        if pid == 0:
            code = b"k"
            try:
                os.close(rd)
                res = s.check()
                code = b"s" if res == z3.sat else (b"u" if res == z3.unsat else b"k")
            except BaseException:
                code = b"k"
            try:
                os.write(wr, code)
            finally:
                os._exit(0)
        elif pid > 0:
            os.close(wr)
            try:
                ready, _, _ = select.select([rd], [], [], ms / 1000.0 * 1.5 + 0.3)
                if ready:
                    b = os.read(rd, 1)
                    r = z3.sat if b == b"s" else (z3.unsat if b == b"u" else z3.unknown)
            finally:
                os.close(rd)
                try:
                    os.kill(pid, 9)
                except OSError:
                    pass
                try:
                    os.waitpid(pid, 0)
                except OSError:
                    pass
        self.solver_calls += 1
        self.solver_time += _t.time() - t0
        if r == z3.unknown:
            self.solver_unknown += 1
        return r

    @staticmethod
    def _qf(pc):
        return [c for c in pc if not _has_quant(c)]

    def feasible(self, p, extra=None):
        """False only if the path condition (+extra) is proved unsatisfiable."""
        s = self._solver(self.feas_ms)
        qf = self._qf(p.pc)
        s.add(*qf)
        if extra is not None:
            s.add(extra)
        r = self._check(s, self.feas_ms)
        if r == z3.unsat:
            return False
        if len(qf) == len(p.pc):
            return True
        s = self._solver(self.feas_ms)
        s.add(*p.pc)
        if extra is not None:
            s.add(extra)
        return self._check(s, self.feas_ms) != z3.unsat

    def implied(self, p, cond):
        c = z3.simplify(cond)
        if z3.is_true(c):
            return True
        if z3.is_false(c) and not p.pc:
            return False
        qf = self._qf(p.pc)
        s = self._solver(self.impl_ms)
        s.add(*qf)
        s.add(z3.Not(c))
        r = self._check(s, self.impl_ms)
        if r == z3.unsat:
            return True
        if len(qf) == len(p.pc) and r == z3.sat:
            return False
        s = self._solver(self.impl_ms)
        s.add(*p.pc)
        s.add(z3.Not(c))
        return self._check(s, self.impl_ms) == z3.unsat

    def branch(self, p, cond):
        """Fork p on a z3 Bool. Returns [(path, bool)] for the feasible sides."""
        c = z3.simplify(cond)
        if z3.is_true(c):
            return [(p, True)]
        if z3.is_false(c):
            return [(p, False)]
        if self.spec:
            raise Unsupported("branch in spec mode")
        out = []
        t_ok = self.feasible(p, c)
        f_ok = self.feasible(p, z3.Not(c))
        if t_ok and f_ok:
            q = p.fork()
            p.assume(c, True)
            q.assume(z3.Not(c), True)
            return [(p, True), (q, False)]
        if t_ok:
            p.assume(c, True)
            return [(p, True)]
        if f_ok:
            p.assume(z3.Not(c), True)
            return [(p, False)]
        return out

    def emit(self, name, p, goal, kind="callsite", meta=None):
        self.obligs.append(dict(name=name, pc=list(p.pc), goal=goal, kind=kind, meta=meta or {}))

    def raise_(self, p, cls, node=None, args=()):
        site = getattr(node, "lineno", None)
        self._raises.append((p, VExc(cls, args, site)))

    def is_ground(self, *terms):
        """True if no currently bound (quantified) variable occurs in the terms."""
        if not self.bound_vars:
            return True
        ids = {b.get_id() for b in self.bound_vars}
        todo, seen = list(terms), set()
        while todo:
            x = todo.pop()
            i = x.get_id()
            if i in seen:
                continue
            seen.add(i)
            if i in ids:
                return False
            todo.extend(x.children())
        return True

    def unsupported(self, node, msg):
        fi = None
        raise Unsupported("%s at line %s" % (msg, getattr(node, "lineno", "?")))

    # ------------------------------------------------------------------
    # names / modules
    # ------------------------------------------------------------------
    def lookup(self, p, name, node=None):
        fr = p.frame
        idx = len(p.frames) - 1
        while fr is not None:
            if name in fr.vars:
                return fr.vars[name]
            if fr.parent is None:
                break
            fr = p.frames[fr.parent]
        mod = p.frame.fi.module if p.frame.fi is not None else None
        v = self.module_attr(p, mod, name) if mod else None
        if v is not None:
            return v
        v = self.bi.global_name(self, name)
        if v is not None:
            return v
        raise Unsupported("unknown name %r at line %s" % (name, getattr(node, "lineno", "?")))

    def module_attr(self, p, mod, name, _seen=None):
        """Value of `name` in module `mod` of the repository (or a library module)."""
        repo = self.repo
        if mod in repo.modules:
            qn = mod + "." + name
            if qn in repo.funcs and repo.funcs[qn].cls is None and repo.funcs[qn].parent is None:
                return VFunc("def", qn, repo.funcs[qn])
            if name in repo.classes and repo.classes[name].module == mod:
                return VClass([name])
            if name in repo.modconsts[mod]:
                return self.eval_const(p, mod, repo.modconsts[mod][name], mod + "." + name)
            if name in repo.imports[mod]:
                imp = repo.imports[mod][name]
                if imp[0] == "module":
                    return VModule(imp[1])
                src, attr = imp[1], imp[2]
                if src is None:
                    return None
                full = src + "." + attr
                if full in repo.modules:
                    return VModule(full)
                if src in repo.modules:
                    _seen = _seen or set()
                    if (src, attr) in _seen:
                        return None
                    _seen.add((src, attr))
                    return self.module_attr(p, src, attr, _seen)
                return self.bi.library_name(self, src, attr)
            if (mod + "." + name) in repo.modules:
                return VModule(mod + "." + name)
            return None
        return self.bi.library_name(self, mod, name)

    def eval_const(self, p, mod, node, qual):
        """Module-level constant: evaluate its AST in a throwaway frame of that module."""
        try:
            self.consts_seen[qual] = ast.dump(node)
        except Exception:
            pass
        v = self.bi.const_override(self, qual, node)
        if v is not None:
            return v
        fi = type("ModFI", (), {"module": mod, "qualname": mod, "cls": None, "node": None, "parent": None})()
        q = Path()
        q.pc = p.pc
        q.frames = [Frame(fi)]
        q.heap, q.sigma = p.heap, p.sigma
        saved = self.spec
        self.spec = 1          # constants: total evaluation, no forks
        try:
            res = self.ev1(q, node)
        finally:
            self.spec = saved
        return res

    # ------------------------------------------------------------------
    # expression evaluation: generator of (path, value); raises go to self._raises
    # ------------------------------------------------------------------
    def ev1(self, p, node):
        res = list(self.ev(p, node))
        if len(res) != 1:
            raise Unsupported("expected single outcome for %s (got %d)" % (ast.dump(node)[:80], len(res)))
        return res[0][1]

    def ev_list(self, p, nodes):
        """Evaluate nodes left to right: yields (path, [values])."""
        if not nodes:
            yield p, []
            return
        for p1, v in self.ev(p, nodes[0]):
            for p2, rest in self.ev_list(p1, nodes[1:]):
                yield p2, [v] + rest

    def ev(self, p, node):
        self.node_kinds.add(type(node).__name__)
        m = getattr(self, "ev_" + type(node).__name__, None)
        if m is None:
            raise Unsupported("expression %s at line %s" % (type(node).__name__, getattr(node, "lineno", "?")))
        return m(p, node)

    def ev_Constant(self, p, n):
        v = n.value
        if v is None:
            yield p, NONE
        elif v is Ellipsis:
            yield p, ELLIPSIS
        elif isinstance(v, bool):
            yield p, VBool(v)
        elif isinstance(v, int):
            yield p, VInt(v)
        elif isinstance(v, float):
            yield p, VReal(v)
        elif isinstance(v, str):
            yield p, VStr(v)
        elif isinstance(v, bytes):
            yield p, VStr(v.decode("latin-1"), True)
        else:
            raise Unsupported("constant %r" % (v,))

    def ev_Name(self, p, n):
        yield p, self.lookup(p, n.id, n)

    def ev_JoinedStr(self, p, n):
        yield p, VStr(V.fresh("fmt", StrS))       # opaque text (messages only)

    def ev_Tuple(self, p, n):
        if any(isinstance(e, ast.Starred) for e in n.elts):
            raise Unsupported("starred in tuple display")
        for p1, vs in self.ev_list(p, n.elts):
            yield p1, VTuple(vs, "tuple")

    def ev_List(self, p, n):
        for p1, vs in self.ev_list(p, n.elts):
            yield p1, self.new_cell(p1, VTuple(vs, "list"))

    def ev_Dict(self, p, n):
        for p1, ks in self.ev_list(p, n.keys):
            for p2, vs in self.ev_list(p1, n.values):
                yield p2, VDict(list(zip(ks, vs)))

    def new_cell(self, p, content):
        _cell_ctr[0] += 1
        cid = _cell_ctr[0]
        p.cells[cid] = content
        return VCell(cid)

    def deref(self, p, v):
        while isinstance(v, VCell):
            v = p.cells[v.cid]
        return v

    def ev_IfExp(self, p, n):
        if self.spec:
            c = self.truth(p, self.ev1(p, n.test))
            a = self.ev1(p, n.body)
            b = self.ev1(p, n.orelse)
            cs = z3.simplify(c)
            if z3.is_true(cs):
                yield p, a
            elif z3.is_false(cs):
                yield p, b
            else:
                yield p, ite(c, a, b)
            return
        for p1, t in self.ev(p, n.test):
            for p2, tv in self.truth_paths(p1, t):
                yield from self.ev(p2, n.body if tv else n.orelse)

    def ev_BoolOp(self, p, n):
        is_and = isinstance(n.op, ast.And)
        if self.spec:
            vs = [self.ev1(p, e) for e in n.values]
            if all(isinstance(v, VBool) for v in vs):
                ts = [v.t for v in vs]
                yield p, VBool(z3.And(*ts) if is_and else z3.Or(*ts))
            else:
                # Python value semantics: a and b -> b if truth(a) else a
                acc = vs[-1]
                for v in reversed(vs[:-1]):
                    c = self.truth(p, v)
                    acc = ite(c, acc, v) if is_and else ite(c, v, acc)
                yield p, acc
            return
        yield from self._boolop(p, n.values, is_and)

    def _boolop(self, p, values, is_and):
        if len(values) == 1:
            yield from self.ev(p, values[0])
            return
        for p1, v in self.ev(p, values[0]):
            for p2, tv in self.truth_paths(p1, v):
                if tv == is_and:
                    yield from self._boolop(p2, values[1:], is_and)
                else:
                    yield p2, v

    def ev_UnaryOp(self, p, n):
        for p1, v in self.ev(p, n.operand):
            if isinstance(n.op, ast.Not):
                if self.spec:
                    yield p1, VBool(z3.Not(self.truth(p1, v)))
                else:
                    for p2, tv in self.truth_paths(p1, v):
                        yield p2, VBool(not tv)
            elif isinstance(n.op, ast.USub):
                for p2, w in self.narrow(p1, v):
                    if isinstance(w, VInt):
                        yield p2, VInt(-w.t)
                    elif isinstance(w, VReal):
                        yield p2, VReal(-w.t)
                    elif isinstance(w, VBool):
                        yield p2, VInt(-z3.If(w.t, 1, 0))
                    else:
                        self.raise_(p2, "TypeError", n)
            elif isinstance(n.op, ast.UAdd):
                yield p1, v
            else:
                raise Unsupported("unary op")

    def ev_BinOp(self, p, n):
        for p1, vs in self.ev_list(p, [n.left, n.right]):
            yield from self.bi.binop(self, p1, n.op, vs[0], vs[1], n)

    def ev_Compare(self, p, n):
        if len(n.ops) == 1:
            for p1, vs in self.ev_list(p, [n.left, n.comparators[0]]):
                yield from self.bi.compare(self, p1, n.ops[0], vs[0], vs[1], n)
            return
        # chained: a < b <= c  == (a < b) and (b <= c), b evaluated once
        operands = [n.left] + list(n.comparators)
        for p1, vs in self.ev_list(p, operands):
            yield from self._chain(p1, n.ops, vs, n)

    def _chain(self, p, ops, vs, n):
        for p1, r in self.bi.compare(self, p, ops[0], vs[0], vs[1], n):
            if len(ops) == 1:
                yield p1, r
                continue
            if self.spec:
                rest = list(self._chain(p1, ops[1:], vs[1:], n))
                yield p1, VBool(z3.And(self.truth(p1, r), self.truth(p1, rest[0][1])))
            else:
                for p2, tv in self.truth_paths(p1, r):
                    if tv:
                        yield from self._chain(p2, ops[1:], vs[1:], n)
                    else:
                        yield p2, VBool(False)

    def ev_Attribute(self, p, n):
        for p1, v in self.ev(p, n.value):
            yield from self.bi.getattr(self, p1, v, n.attr, n)

    def ev_Subscript(self, p, n):
        for p1, v in self.ev(p, n.value):
            for p2, idx in self.ev(p1, n.slice):
                yield from self.bi.subscript(self, p2, v, idx, n)

    def ev_Slice(self, p, n):
        parts = [x if x is not None else ast.Constant(value=None) for x in (n.lower, n.upper, n.step)]
        for p1, vs in self.ev_list(p, parts):
            yield p1, VSlice.make(*[self._opt_int(p1, x) for x in vs])

    def _opt_int(self, p, x):
        x = self.deref(p, x)
        if isinstance(x, (VNone, VInt, VBool, VDyn)):
            return x
        raise Unsupported("slice component %r" % (x,))

    def ev_Lambda(self, p, n):
        yield p, VFunc("lambda", "<lambda>", n, closure=len(p.frames) - 1)

    def ev_Call(self, p, n):
        if self.spec and isinstance(n.func, ast.Name) and n.func.id == "old":
            se = self.lookup(p, "__specenv__")
            cur = {k: v for k, v in p.frame.vars.items() if k != "__specenv__"}
            if se.old is None:
                yield p, se._eval(n.args[0], se.p, cur)
            else:
                yield p, se._eval(n.args[0], se.old, cur)
            return
        if any(isinstance(a, ast.Starred) for a in n.args) or any(k.arg is None for k in n.keywords):
            yield from self._call_star(p, n)
            return
        for p1, f in self.ev(p, n.func):
            # generator-expression arguments are handled by the callee model (any/all/tuple/...)
            if n.args and isinstance(n.args[0], (ast.GeneratorExp, ast.ListComp)) and isinstance(f, VFunc) \
                    and f.kind == "builtin" and f.name in ("any", "all", "tuple", "list", "sum"):
                yield from self.comprehension(p1, n.args[0], f.name, n)
                continue
            for p2, args in self.ev_list(p1, n.args):
                for p3, kwv in self.ev_list(p2, [k.value for k in n.keywords]):
                    kwargs = {k.arg: v for k, v in zip(n.keywords, kwv)}
                    yield from self.call(p3, f, args, kwargs, n)

    def _call_star(self, p, n):
        for p1, f in self.ev(p, n.func):
            pos_nodes = [a.value if isinstance(a, ast.Starred) else a for a in n.args]
            for p2, vals in self.ev_list(p1, pos_nodes):
                args = []
                for a, v in zip(n.args, vals):
                    if isinstance(a, ast.Starred):
                        v = self.deref(p2, v)
                        if not isinstance(v, VTuple):
                            raise Unsupported("star-arg of symbolic length at line %s" % n.lineno)
                        args.extend(v.items)
                    else:
                        args.append(v)
                if any(k.arg is None for k in n.keywords):
                    kws = []
                    for k in n.keywords:
                        if k.arg is None:
                            for p3, d in self.ev(p2, k.value):
                                d = self.deref(p3, d)
                                if not isinstance(d, VDict) or d.items:
                                    raise Unsupported("**kwargs with non-empty dict")
                        else:
                            kws.append(k)
                else:
                    kws = n.keywords
                for p3, kwv in self.ev_list(p2, [k.value for k in kws]):
                    yield from self.call(p3, f, args, {k.arg: v for k, v in zip(kws, kwv)}, n)

    def ev_ListComp(self, p, n):
        yield from self.comprehension(p, n, "list", n)

    def ev_GeneratorExp(self, p, n):
        yield from self.comprehension(p, n, "tuple", n)

    # ------------------------------------------------------------------
    # truthiness / narrowing of dynamic values
    # ------------------------------------------------------------------
    def truth(self, p, v):
        """z3 Bool for Python truthiness (total; VDyn by cases)."""
        v = self.deref(p, v)
        if isinstance(v, VBool):
            return v.t
        if isinstance(v, VInt):
            return v.t != 0
        if isinstance(v, VReal):
            return v.t != 0
        if isinstance(v, VStr):
            return z3.Length(v.t) > 0
        if isinstance(v, VNone):
            return z3.BoolVal(False)
        if isinstance(v, VSeq):
            return z3.Length(v.t) > 0
        if isinstance(v, VTuple):
            return z3.BoolVal(len(v.items) > 0)
        if isinstance(v, (VSlice, VEllipsis, VFunc, VClass, VEnum, VExc, VModule)):
            return z3.BoolVal(True)
        if isinstance(v, VObj):
            t = self.bi.obj_truth(self, p, v)
            return t
        if isinstance(v, VOpaque):
            return self.bi.opaque_truth(self, p, v)
        if isinstance(v, VDyn):
            t = v.t
            return z3.And(
                z3.Not(Val.is_VNone(t)),
                z3.Implies(Val.is_VInt(t), Val.i(t) != 0),
                z3.Implies(Val.is_VReal(t), Val.r(t) != 0),
                z3.Implies(Val.is_VBool(t), Val.b(t)),
                z3.Implies(Val.is_VStr(t), z3.Length(Val.s(t)) > 0),
                z3.Implies(Val.is_VBytes(t), z3.Length(Val.bs(t)) > 0),
                z3.Implies(Val.is_VIntSeq(t), z3.Length(Val.iseq(t)) > 0),
                z3.Implies(Val.is_VRealSeq(t), z3.Length(Val.rseq(t)) > 0),
                z3.Implies(Val.is_VStrSeq(t), z3.Length(Val.sseq(t)) > 0),
                z3.Implies(Val.is_VValSeq(t), z3.Length(Val.vseq(t)) > 0),
                z3.Implies(Val.is_VSliceSeq(t), z3.Length(Val.slseq(t)) > 0),
                z3.Implies(Val.is_VOpaque(t), self.bi.opaque_truth_term(Val.ok(t))),
            )
        if isinstance(v, VDict):
            return z3.BoolVal(len(v.items) > 0)
        if type(v).__name__ == "VMatch":
            return v.cond
        if type(v).__name__ == "VRegex":
            return z3.BoolVal(True)
        raise Unsupported("truthiness of %r" % (v,))

    def truth_paths(self, p, v):
        """Fork on truthiness: yields (path, python bool)."""
        v = self.deref(p, v)
        if isinstance(v, VObj) and not self.spec:
            # objects with __len__/__bool__ contracts may need a call
            for p1, b in self.bi.obj_truth_paths(self, p, v):
                yield from self.branch(p1, b)
            return
        yield from self.branch(p, self.truth(p, v))

    DYN_CASES = [
        ("VNone", lambda t: NONE),
        ("VInt", lambda t: VInt(Val.i(t))),
        ("VReal", lambda t: VReal(Val.r(t))),
        ("VBool", lambda t: VBool(Val.b(t))),
        ("VStr", lambda t: VStr(Val.s(t))),
        ("VBytes", lambda t: VStr(Val.bs(t), True)),
        ("VSliceV", lambda t: VSlice(Val.sl(t))),
        ("VEllipsis", lambda t: ELLIPSIS),
        ("VIntSeq", lambda t: VSeq(Val.iseq(t), Int)),
        ("VRealSeq", lambda t: VSeq(Val.rseq(t), Real)),
        ("VStrSeq", lambda t: VSeq(Val.sseq(t), Str)),
        ("VValSeq", lambda t: VSeq(Val.vseq(t), Dyn)),
        ("VSliceSeq", lambda t: VSeq(Val.slseq(t), Slice)),
        ("VOpaque", lambda t: VOpaque(Val.ok(t))),
    ]

    def _ite_leaves(self, t, depth=0):
        """Constructor names at the leaves of an if-then-else tree, or None if some leaf is not a constructor."""
        if depth > 12:
            return None
        if z3.is_app(t) and t.decl().kind() == z3.Z3_OP_ITE:
            a = self._ite_leaves(t.arg(1), depth + 1)
            b = self._ite_leaves(t.arg(2), depth + 1)
            return None if a is None or b is None else a | b
        if z3.is_app(t) and t.decl().kind() == z3.Z3_OP_DT_CONSTRUCTOR:
            return {t.decl().name()}
        return None

    def narrow(self, p, v):
        """Resolve a VDyn to a typed value, forking per feasible constructor (exec mode).
        In spec mode: only if the constructor is implied; otherwise the VDyn is returned."""
        v = self.deref(p, v)
        if not isinstance(v, VDyn):
            yield p, v
            return
        t = z3.simplify(v.t)
        if z3.is_app(t) and t.decl().kind() == z3.Z3_OP_DT_CONSTRUCTOR:
            name = t.decl().name()
            for cname, mk in self.DYN_CASES:
                if cname == name:
                    yield p, mk(t)
                    return
            if name == "VObj":
                cid = z3.simplify(Val.cls(t))
                if z3.is_int_value(cid):
                    yield p, VObj(Val.ref(t), V.CLASSES.names[cid.as_long()])
                    return
            if name == "VEnum":
                eid = z3.simplify(Val.en(t))
                if z3.is_int_value(eid):
                    yield p, VEnum(V.ENUMS.names[eid.as_long()], Val.em(t))
                    return
        # single implied constructor?
        cands = []
        leaves = self._ite_leaves(t)
        for cname, mk in self.DYN_CASES:
            if leaves is not None and cname not in leaves:
                continue
            rec = getattr(Val, "is_" + cname)(t)
            if self.feasible(p, rec):
                cands.append((rec, mk))
        obj_ok = (leaves is None or "VObj" in leaves) and self.feasible(p, Val.is_VObj(t))
        enum_ok = (leaves is None or "VEnum" in leaves) and self.feasible(p, Val.is_VEnum(t))
        cls_ok = (leaves is None or "VClass" in leaves) and self.feasible(p, Val.is_VClass(t))
        if len(cands) == 1 and not obj_ok and not enum_ok and not cls_ok:
            yield p, cands[0][1](t)
            return
        if self.spec:
            yield p, v
            return
        for rec, mk in cands:
            q = p.fork()
            q.assume(rec, True)
            yield q, mk(t)
        if obj_ok:
            for cname, cid in list(V.CLASSES.ids.items()):
                c = z3.And(Val.is_VObj(t), Val.cls(t) == cid)
                if self.feasible(p, c):
                    q = p.fork()
                    q.assume(c, True)
                    yield q, VObj(Val.ref(t), cname)
        if enum_ok:
            for ename, eid in list(V.ENUMS.ids.items()):
                c = z3.And(Val.is_VEnum(t), Val.en(t) == eid)
                if self.feasible(p, c):
                    q = p.fork()
                    q.assume(c, True)
                    yield q, VEnum(ename, Val.em(t))
        if cls_ok:
            q = p.fork()
            q.assume(Val.is_VClass(t), True)
            yield q, VOpaque(Val.cid(t), "classobj")

    # ------------------------------------------------------------------
    # calls
    # ------------------------------------------------------------------
    def call(self, p, f, args, kwargs, node):
        f = self.deref(p, f)
        if isinstance(f, VClass):
            yield from self.bi.construct(self, p, f, args, kwargs, node)
            return
        if not isinstance(f, VFunc):
            raise Unsupported("call of %r at line %s" % (f, getattr(node, "lineno", "?")))
        if f.kind == "builtin":
            yield from self.bi.call_builtin(self, p, f, args, kwargs, node)
        elif f.kind == "spec":
            yield p, f.payload(self, p, *args, **kwargs)
        elif f.kind == "upred":
            fn, sort = f.payload
            ts = [elem_to_term(self.deref(p, a), s) for a, s in zip(args, sort.argsorts)]
            yield p, term_to_elem(fn(*ts), sort.ressort)
        elif f.kind == "lambda":
            lam = f.payload
            fr = Frame(p.frames[f.closure].fi, f.closure, {})
            names = [a.arg for a in lam.args.args]
            for nm, a in zip(names, args):
                fr.vars[nm] = a
            p.frames.append(fr)
            for p1, v in list(self.ev(p, lam.body)):
                p1.frames.pop()
                yield p1, v
        elif f.kind == "def":
            fi = f.payload
            yield from self.call_function(p, fi, args, kwargs, node, self_val=f.self_val, closure=f.closure)
        elif f.kind == "contract":
            yield from self.apply_contract(p, f.payload, args, kwargs, node, self_val=f.self_val)
        else:
            raise Unsupported("call kind %s" % f.kind)

    def bind_args(self, p, fi, args, kwargs, self_val, node):
        """Python calling convention against the real signature. Returns dict name -> SV or raises Unsupported."""
        a = fi.node.args
        names = [x.arg for x in a.args]
        bound = {}
        pos = list(args)
        if self_val is not None:
            pos = [self_val] + pos
        if len(pos) > len(names):
            if a.vararg is None:
                raise Unsupported("too many positional args for %s" % fi.qualname)
            bound[a.vararg.arg] = VTuple(pos[len(names):])
            pos = pos[:len(names)]
        elif a.vararg is not None:
            bound[a.vararg.arg] = VTuple([])
        for nm, v in zip(names, pos):
            bound[nm] = v
        for k, v in kwargs.items():
            if k in bound:
                raise Unsupported("duplicate arg %s" % k)
            if k not in names and k not in [x.arg for x in a.kwonlyargs]:
                if a.kwarg is None:
                    raise Unsupported("unexpected kwarg %s for %s" % (k, fi.qualname))
            bound[k] = v
        defaults = a.defaults
        for nm, d in zip(names[len(names) - len(defaults):], defaults):
            if nm not in bound:
                bound[nm] = self.eval_default(p, fi, d)
        for kw, d in zip(a.kwonlyargs, a.kw_defaults):
            if kw.arg not in bound and d is not None:
                bound[kw.arg] = self.eval_default(p, fi, d)
        for nm in names:
            if nm not in bound:
                raise Unsupported("missing argument %s for %s" % (nm, fi.qualname))
        return bound

    def eval_default(self, p, fi, dnode):
        q = Path()
        q.pc = p.pc
        q.frames = [Frame(fi)]
        q.heap, q.sigma, q.cells = p.heap, p.sigma, p.cells
        saved = self.spec
        self.spec = 1
        try:
            return self.ev1(q, dnode)
        finally:
            self.spec = saved

    def call_function(self, p, fi, args, kwargs, node, self_val=None, closure=None, force_inline=False):
        c = None if force_inline else self.reg.get(fi.qualname)
        if c is not None and not c.inline:
            bound = self.bind_args(p, fi, args, kwargs, self_val, node)
            yield from self.apply_contract(p, c, None, None, node, bound=bound)
            return
        if self.spec:
            raise Unsupported("inline call of %s in spec mode" % fi.qualname)
        if fi.kind == "unsupported-decorator":
            raise Unsupported("decorator on %s" % fi.qualname)
        # inline: the callee body is verified as part of the caller
        if self.depth >= self.MAX_DEPTH:
            raise Unsupported("inline depth exceeded at %s" % fi.qualname)
        private = fi.node.name.startswith("_") and not fi.node.name.startswith("__")
        if not self.reg.may_inline(fi.qualname) and not (private and not self.prefix_mode):
            # (private helpers without a contract are executed inline - the body is verified as part of the caller -, so
            #  extracting a helper does not put a function outside the verifier's reach; not in prefix mode, where the first
            #  uncontracted callee is the cut point)
            raise Unsupported("no contract for %s (called at line %s)" % (fi.qualname, getattr(node, "lineno", "?")))
        self.inlined.add(fi.qualname)
        bound = self.bind_args(p, fi, args, kwargs, self_val, node)
        if any(isinstance(s, ast.Yield) or isinstance(s, ast.YieldFrom) for s in ast.walk(fi.node)):
            yield from self.call_generator(p, fi, bound)
            return
        fr = Frame(fi, closure, bound, self_cls=fi.cls)
        p.frames.append(fr)
        self.depth += 1
        try:
            outs = self.exec_block(p, fi.node.body)
        finally:
            self.depth -= 1
        for o in outs:
            o.path.frames.pop()
            if o.kind == "raise":
                self._raises.append((o.path, o.value))
            elif o.kind == "return":
                yield o.path, o.value
            elif o.kind == "next":
                yield o.path, NONE
            else:
                raise Unsupported("break/continue escaped function")

    def call_generator(self, p, fi, bound):
        """Generator function: run eagerly, result = list of yielded values (laziness ignored)."""
        fr = Frame(fi, None, bound, self_cls=fi.cls)
        acc = self.new_cell(p, VTuple([], "list"))
        fr.vars["__yield__"] = acc
        p.frames.append(fr)
        self.depth += 1
        try:
            outs = self.exec_block(p, fi.node.body)
        finally:
            self.depth -= 1
        for o in outs:
            res = o.path.frame.vars["__yield__"]
            o.path.frames.pop()
            if o.kind == "raise":
                self._raises.append((o.path, o.value))
            elif o.kind in ("return", "next"):
                yield o.path, res
            else:
                raise Unsupported("break/continue escaped generator")

    # ------------------------------------------------------------------
    # contracts at call sites
    # ------------------------------------------------------------------
    def coerce_to(self, p, v, sort, what=""):
        """Convert an argument to the declared sort; emits a typing obligation if not implied."""
        v = self.deref(p, v)
        if sort is None or sort is Dyn:
            if isinstance(v, (VFunc, VClass, VModule, VExc, VDict)):
                return v
            if isinstance(v, VTuple):
                try:
                    return VDyn(box(v))
                except TypeError:
                    return v
            return VDyn(box(v)) if not isinstance(v, VDyn) else v
        if isinstance(sort, Opt):
            if isinstance(v, VDyn):
                if not self.implied(p, is_sort_cond(v.t, sort)):
                    self.emit("argtype:%s" % what, p, is_sort_cond(v.t, sort), "argtype")
                return v
            return VDyn(box(v))
        if isinstance(sort, (Func, Cls)):
            return v
        if isinstance(sort, OpaqueOf) and isinstance(v, VOpaque):
            return VOpaque(v.t, sort.tag or v.tag)
        if sort is Bool and not isinstance(v, (VBool, VDyn)) and what == "result" and \
                self.current_contract is not None and "truthy_result" in self.current_contract.note:
            return VBool(self.truth(p, v))     # result used for its truth value only (documented abstraction)
        if isinstance(v, VDyn) and isinstance(sort, Obj) and sort.cls in self.repo.classes:
            # an object of the declared class or of one of its subclasses
            subs = [c for c in self.repo.classes if self.repo.is_subclass(c, sort.cls)]
            c = z3.And(Val.is_VObj(v.t), z3.Or(*[Val.cls(v.t) == V.CLASSES.id(k) for k in subs]))
            if not self.implied(p, c):
                self.emit("argtype:%s" % what, p, c, "argtype")
            return VObj(Val.ref(v.t), sort.cls)
        if isinstance(v, VDyn):
            c = is_sort_cond(v.t, sort)
            if not self.implied(p, c):
                self.emit("argtype:%s" % what, p, c, "argtype")
            return unbox(v.t, sort)
        if sort is Real and isinstance(v, (VInt, VBool)):
            return VReal(to_real(v))
        if sort is Int and isinstance(v, VBool):
            return VInt(z3.If(v.t, 1, 0))
        if isinstance(sort, SeqOf):
            if isinstance(v, VTuple):
                return tuple_to_seq(v, sort.elem)
            if isinstance(v, VSeq):
                if same_sort(v.elem, sort.elem):
                    return v
                if self.implied(p, z3.Length(v.t) == 0):
                    return VSeq(z3.Empty(z3.SeqSort(sort.elem.z)), sort.elem, v.kind)     # the empty sequence of any type
                if sort.elem is Real and v.elem is Int:
                    return self.bi.map_seq(self, p, v, Real, lambda t: z3.ToReal(t))
                if sort.elem is Dyn:
                    if z3.is_app(v.t) and v.t.decl().name().startswith("seq_repeat_"):
                        # map(box, repeat(x, n)) = repeat(box(x), n)
                        x = box(term_to_elem(v.t.arg(0), v.elem))
                        return VSeq(self.bi.repeat_term(p, Dyn, x, v.t.arg(1)), Dyn, v.kind)
                    return self.bi.map_seq(self, p, v, Dyn, lambda t: box(term_to_elem(t, v.elem)))
        if isinstance(sort, TupleOf) and isinstance(v, VTuple) and len(v.items) == len(sort.elems):
            return VTuple([self.coerce_to(p, x, s, what) for x, s in zip(v.items, sort.elems)], v.kind)
        if isinstance(sort, TupleOf) and isinstance(v, VSeq):
            return VTuple([self.coerce_to(p, term_to_elem(v.t[k], v.elem), s, what)
                           for k, s in enumerate(sort.elems)])
        if isinstance(sort, Obj) and isinstance(v, VObj):
            if not self.repo.is_subclass(v.cls, sort.cls) and not self.repo.is_subclass(sort.cls, v.cls):
                raise Unsupported("object of class %s passed for %s (%s)" % (v.cls, sort.cls, what))
            return v
        if same_sort(sort_of_sv(v), sort):
            return v
        if sort is Bytes and isinstance(v, VStr):
            return v
        if sort is Str and isinstance(v, VStr):
            return v
        raise Unsupported("cannot pass %r as %r (%s)" % (v, sort, what))

    def apply_contract(self, p, c, args, kwargs, node, self_val=None, bound=None):
        from .contracts import SpecEnv
        if c.prefix:
            # a callee that is itself verified only up to its refusal prefix has no usable summary: the caller's path ends here
            raise Unsupported("hand-over to %s (verified in prefix mode only)" % c.qualname)
        if bound is None:
            names = list(c.params.keys())
            pos = list(args)
            if self_val is not None:
                pos = [self_val] + pos
            if len(pos) > len(names):
                raise Unsupported("too many args for contract %s" % c.qualname)
            bound = dict(zip(names, pos))
            for k, v in (kwargs or {}).items():
                if k not in c.params:
                    raise Unsupported("unexpected kwarg %s for contract %s" % (k, c.qualname))
                bound[k] = v
            for nm in names:
                if nm not in bound:
                    if nm in c.defaults:
                        bound[nm] = c.defaults[nm]
                    else:
                        raise Unsupported("missing arg %s for contract %s" % (nm, c.qualname))
        site = "%s@%s" % (c.qualname.split(".", 1)[-1], self.site_id(p, node))
        env = {}
        for nm, v in bound.items():
            env[nm] = self.coerce_to(p, v, c.params.get(nm), "%s.%s" % (site, nm))
        pre = SpecEnv(self, p, env, old=None, contract=c)
        pre.run_lets()
        # class invariants / requires
        for rid, rtxt in c.requires:
            g = pre.bool(rtxt, proving=True)
            if not z3.is_true(z3.simplify(g)):
                self.emit("pre:%s:%s" % (site, rid), p, g, "callsite-pre")
                p.assume(pre.bool(rtxt))     # continue under the precondition (its failure is reported separately)
        p.events.append((c.qualname, env))
        # raises
        conds = []
        for ecls, (rtxt, _tag) in c.raises.items():
            cond = pre.bool(rtxt)
            cs = z3.simplify(cond)
            if z3.is_false(cs):
                continue
            conds.append(cond)
            if self.feasible(p, cond):
                q = p.fork()
                q.assume(cond, True)
                if c.raise_dirty:
                    self.havoc(q, c.modifies, env)
                self._raises.append((q, VExc(ecls.split("#")[0], (), getattr(node, "lineno", None))))
        if conds:
            nc = z3.Not(z3.Or(*conds))
            if not self.feasible(p, nc):
                return
            p.assume(nc, True)
        # normal exit
        oldp = p.fork()
        self._advance = False
        front0 = p.frontier
        self.havoc(p, c.modifies, env)
        if self._advance:
            nb = V.fresh("allocb", IntS)
            p.assume(nb >= front0)
            p.alloc_base, p.alloc = nb, 0
        assumptions = []
        res = NONE
        if c.result is not None:
            res = make_symbolic("r_" + c.qualname.rsplit(".", 1)[-1], c.result, assumptions)
        for a in assumptions:
            p.assume(a)
        if isinstance(res, VObj) and "fresh_result" in c.note:
            p.assume(z3.And(res.t >= front0, res.t < p.frontier))
        if isinstance(res, VSeq) and "np.vector" in c.note:
            res = VSeq(res.t, res.elem, "ndarray")         # a numpy 1-D array: arithmetic with scalars is elementwise
        post = SpecEnv(self, p, dict(pre.env), old=oldp, contract=c)
        post.env["result"] = res
        finals = {}
        for nm in c.mutates:
            finals[nm] = make_symbolic("fin_" + nm, c.params[nm], assumptions)
            post.env[nm + "__final"] = finals[nm]
        for eid, etxt, _tag in c.ensures:
            if _EVENT_CLAUSE.search(etxt):
                # a clause about the calls the CALLEE makes (arg_of / result_of / n_calls of its own callees) says nothing
                # in the caller's context - evaluated against the caller's call log it would even be an absurd assumption
                continue
            fact = post.bool(etxt)
            if z3.is_false(z3.simplify(fact)):
                # never assume an absurdity: it would make every later obligation of this path vacuously true
                raise Unsupported("the ensures clause %r of %s is literally false at the call site (line %s)"
                                  % (etxt, c.qualname, getattr(node, "lineno", "?")))
            p.assume(fact)
        for nm, nv in finals.items():
            self.bi.rebind_aliases(self, p, env[nm], nv)
        if c.result_expr is not None:
            res = post.value(c.result_expr)
        for k in range(len(p.events) - 1, -1, -1):
            if p.events[k][0] == c.qualname and len(p.events[k]) == 2:
                p.events[k] = (c.qualname, p.events[k][1], res)       # remember the result for call-event clauses
                break
        yield p, res

    _site_cache = {}

    def site_id(self, p, node):
        """stable name of a call site: ordinal of the node among the nodes of its function (not the line number,
        which shifts with every unrelated edit)"""
        fi = p.frame.fi if p.frames else None
        fn = getattr(fi, "node", None)
        if fn is None or node is None:
            return "L%s" % getattr(node, "lineno", "?")
        key = id(fn)
        if key not in self._site_cache:
            calls = sorted((n for n in ast.walk(fn) if isinstance(n, (ast.Call, ast.Attribute, ast.Subscript, ast.Compare,
                                                                      ast.BinOp, ast.Assign, ast.AugAssign, ast.Delete,
                                                                      ast.For, ast.If, ast.UnaryOp))),
                           key=lambda n: (n.lineno, n.col_offset))
            seen, m = {}, {}
            for n in calls:
                try:
                    txt = type(n).__name__ + ":" + ast.unparse(n.func if isinstance(n, ast.Call) else n)[:200]
                except Exception:
                    txt = "?"
                seen[txt] = seen.get(txt, 0) + 1
                m[id(n)] = seen[txt]
            self._site_cache[key] = m
        k = self._site_cache[key].get(id(node))
        return "#%d" % k if k is not None else "L%s" % getattr(node, "lineno", "?")

    def havoc(self, p, modifies, env=None):
        for m in modifies:
            if m.startswith("heap."):
                fld = m[5:]
                at = None
                if "@" in fld:
                    fld, at = fld.split("@")
                if fld not in p.heap:
                    srt = None
                    for flds in self.reg.classes.values():
                        if fld in flds:
                            srt = flds[fld]
                    if srt is None:
                        raise Unsupported("modifies of undeclared field %s" % fld)
                    self.bi.heap_array(p, fld, srt)
                if at == "new":
                    # only objects allocated by the callee may differ: everything below the frontier is kept
                    old_arr = p.heap[fld]
                    na = V.fresh("h_" + fld, old_arr.sort())
                    r = V.fresh("hr", IntS)
                    p.heap[fld] = na
                    p.assume(z3.ForAll([r], z3.Implies(r < p.frontier, na[r] == old_arr[r]), patterns=[na[r]]))
                    self._advance = True
                elif at is not None:
                    o = env[at]
                    cell = V.fresh("h_" + fld, p.heap[fld].sort().range())
                    p.heap[fld] = z3.Store(p.heap[fld], o.t, cell)
                else:
                    p.heap[fld] = V.fresh("h_" + fld, p.heap[fld].sort())
            elif m in p.sigma:
                p.sigma[m] = V.fresh("s_" + m, p.sigma[m].sort())
            elif m == "sigma.*":
                for k in list(p.sigma):
                    p.sigma[k] = V.fresh("s_" + k, p.sigma[k].sort())
            else:
                raise Unsupported("unknown modifies item %r" % m)

    # ------------------------------------------------------------------
    # comprehensions over sequences
    # ------------------------------------------------------------------
    def comprehension(self, p, n, consumer, node):
        """consumer in any|all|sum|tuple|list. One generator, optional filters."""
        if len(n.generators) != 1:
            raise Unsupported("nested comprehension at line %s" % node.lineno)
        g = n.generators[0]
        for p1, it in self.ev(p, g.iter):
            yield from self.bi.comprehend(self, p1, n.elt, g.target, it, g.ifs, consumer, node)

    def assign_target(self, p, target, v, node=None):
        """Bind loop/assignment targets in the current frame (names / tuples)."""
        if isinstance(target, ast.Name):
            p.frame.vars[target.id] = v
            return
        if isinstance(target, (ast.Tuple, ast.List)):
            v = self.deref(p, v)
            if isinstance(v, VTuple):
                if len(v.items) != len(target.elts):
                    raise Unsupported("unpack arity at line %s" % getattr(target, "lineno", "?"))
                for t, x in zip(target.elts, v.items):
                    self.assign_target(p, t, x)
                return
            if isinstance(v, VSeq):
                # unpack of a symbolic sequence: requires the length to be implied
                k = len(target.elts)
                if not self.implied(p, z3.Length(v.t) == k):
                    if self.spec:
                        pass
                    else:
                        raise Unsupported("unpack of sequence with unknown length at line %s" % getattr(target, "lineno", "?"))
                for j, t in enumerate(target.elts):
                    self.assign_target(p, t, term_to_elem(v.t[j], v.elem))
                return
            raise Unsupported("unpack of %r" % (v,))
        raise Unsupported("assignment target %s" % type(target).__name__)

    # ------------------------------------------------------------------
    # statements
    # ------------------------------------------------------------------
    def exec_block(self, p, stmts):
        outs = [Outcome("next", p)]
        for s in stmts:
            nxt = []
            for o in outs:
                if o.kind != "next":
                    nxt.append(o)
                else:
                    nxt.extend(self.exec_stmt(o.path, s))
            outs = nxt
            if not any(o.kind == "next" for o in outs):
                break
        return outs

    def exec_stmt(self, p, s):
        self.node_kinds.add(type(s).__name__)
        m = getattr(self, "st_" + type(s).__name__, None)
        if m is None:
            raise Unsupported("statement %s at line %s" % (type(s).__name__, s.lineno))
        saved = self._raises
        self._raises = []
        p_start = p.fork() if self.prefix_mode else None
        try:
            outs = list(m(p, s))
            mine = self._raises
        except Unsupported as e:
            if not self.prefix_mode:
                raise
            # prefix verification: the path is cut at the first statement outside the modelled subset (state as at the
            # start of that statement); only the refusal clauses are generated for it
            self.cuts.append("line %s: %s" % (getattr(s, "lineno", "?"), e))
            return [Outcome("cut", p_start, "line %s: %s" % (getattr(s, "lineno", "?"), e))]
        finally:
            self._raises = saved
        return outs + [Outcome("raise", q, e) for q, e in mine]

    def st_Pass(self, p, s):
        yield Outcome("next", p)

    def st_Break(self, p, s):
        yield Outcome("break", p)

    def st_Continue(self, p, s):
        yield Outcome("continue", p)

    def st_Expr(self, p, s):
        if isinstance(s.value, ast.Constant):
            yield Outcome("next", p)
            return
        if isinstance(s.value, ast.Yield):
            for p1, v in self.ev(p, s.value.value):
                self.bi.list_append(self, p1, self._yield_cell(p1), v)
                yield Outcome("next", p1)
            return
        for p1, _ in self.ev(p, s.value):
            yield Outcome("next", p1)

    def _yield_cell(self, p):
        fr = p.frame
        while "__yield__" not in fr.vars:
            raise Unsupported("yield outside generator frame")
        return fr.vars["__yield__"]

    def st_Return(self, p, s):
        if s.value is None:
            yield Outcome("return", p, NONE)
            return
        for p1, v in self.ev(p, s.value):
            yield Outcome("return", p1, v)

    def st_Assign(self, p, s):
        for p1, v in self.ev(p, s.value):
            paths = [p1]
            for tgt in s.targets:
                nxt = []
                for q in paths:
                    nxt.extend(self.store_target(q, tgt, v, s))
                paths = nxt
            for q in paths:
                yield Outcome("next", q)

    def store_target(self, p, tgt, v, s):
        if isinstance(tgt, (ast.Name, ast.Tuple, ast.List)) and not self._has_complex_target(tgt):
            self.assign_target(p, tgt, v, s)
            return [p]
        if isinstance(tgt, ast.Attribute):
            out = []
            for p1, obj in self.ev(p, tgt.value):
                for p2 in self.bi.setattr(self, p1, obj, tgt.attr, v, s):
                    out.append(p2)
            return out
        if isinstance(tgt, ast.Subscript):
            out = []
            for p1, obj in self.ev(p, tgt.value):
                for p2, idx in self.ev(p1, tgt.slice):
                    for p3 in self.bi.setitem(self, p2, obj, idx, v, s):
                        out.append(p3)
            return out
        raise Unsupported("assignment target %s at line %s" % (type(tgt).__name__, s.lineno))

    def _has_complex_target(self, tgt):
        if isinstance(tgt, (ast.Tuple, ast.List)):
            return any(self._has_complex_target(e) for e in tgt.elts)
        return not isinstance(tgt, ast.Name)

    def st_AugAssign(self, p, s):
        load = ast.copy_location(ast.BinOp(left=self._as_load(s.target), op=s.op, right=s.value), s)
        if isinstance(s.target, ast.Name):
            cur = self.deref(p, self.lookup(p, s.target.id, s)) if self._is_cell_name(p, s.target.id) else None
            if isinstance(s.op, ast.Add) and isinstance(self.lookup(p, s.target.id, s), VCell):
                # list += iterable  (in-place extend)
                cell = self.lookup(p, s.target.id, s)
                for p1, v in self.ev(p, s.value):
                    self.bi.list_extend(self, p1, cell, v)
                    yield Outcome("next", p1)
                return
        for p1, v in self.ev(p, load):
            for q in self.store_target(p1, s.target, v, s):
                yield Outcome("next", q)

    def _is_cell_name(self, p, name):
        try:
            return isinstance(self.lookup(p, name), VCell)
        except Unsupported:
            return False

    def _as_load(self, t):
        t2 = ast.parse(ast.unparse(t), mode="eval").body
        return ast.copy_location(t2, t)

    def st_If(self, p, s):
        for p1, c in self.ev(p, s.test):
            for p2, tv in self.truth_paths(p1, c):
                yield from self.exec_block(p2, s.body if tv else s.orelse)

    def st_Raise(self, p, s):
        if s.exc is None:
            cur = p.frame.vars.get("__exc__")
            if cur is None:
                raise Unsupported("bare raise outside handler")
            yield Outcome("raise", p, cur)
            return
        for p1, e in self.ev(p, s.exc):
            e = self.deref(p1, e)
            if isinstance(e, VClass):
                e = VExc(e.names[0], (), s.lineno)
            if not isinstance(e, VExc):
                raise Unsupported("raise of %r" % (e,))
            if e.site is None:
                e = VExc(e.cls, e.args, s.lineno)
            yield Outcome("raise", p1, e)

    def st_Try(self, p, s):
        if s.finalbody:
            raise Unsupported("try/finally at line %s" % s.lineno)
        outs = self.exec_block(p, s.body)
        for o in outs:
            if o.kind == "next" and s.orelse:
                yield from self.exec_block(o.path, s.orelse)
            elif o.kind != "raise":
                yield o
            else:
                handled = False
                for h in s.handlers:
                    if h.type is None:
                        match = True
                    else:
                        hc = self.ev1(o.path, h.type)
                        hc = self.deref(o.path, hc)
                        names = hc.names if isinstance(hc, VClass) else \
                            [n for x in hc.items for n in x.names]
                        match = any(self.repo.is_subclass(o.value.cls, n) for n in names)
                    if match:
                        q = o.path
                        if h.name:
                            q.frame.vars[h.name] = o.value
                        prev = q.frame.vars.get("__exc__")
                        q.frame.vars["__exc__"] = o.value
                        for o2 in self.exec_block(q, h.body):
                            if prev is None:
                                o2.path.frame.vars.pop("__exc__", None)
                            else:
                                o2.path.frame.vars["__exc__"] = prev
                            yield o2
                        handled = True
                        break
                if not handled:
                    yield o

    def st_FunctionDef(self, p, s):
        qn = self._nested_qualname(p, s.name)
        fi = self.repo.funcs.get(qn)
        if fi is None:
            raise Unsupported("nested function %s not indexed" % qn)
        p.frame.vars[s.name] = VFunc("def", qn, fi, closure=len(p.frames) - 1)
        yield Outcome("next", p)

    def _nested_qualname(self, p, name):
        return "%s.<locals>.%s" % (p.frame.fi.qualname, name)

    def st_Delete(self, p, s):
        paths = [p]
        for t in s.targets:
            nxt = []
            for q in paths:
                if isinstance(t, ast.Subscript):
                    for p1, obj in self.ev(q, t.value):
                        for p2, idx in self.ev(p1, t.slice):
                            nxt.extend(self.bi.delitem(self, p2, obj, idx, s))
                elif isinstance(t, ast.Attribute):
                    for p1, obj in self.ev(q, t.value):
                        nxt.extend(self.bi.delattr(self, p1, obj, t.attr, s))
                else:
                    raise Unsupported("del target at line %s" % s.lineno)
            paths = nxt
        for q in paths:
            yield Outcome("next", q)

    def st_Assert(self, p, s):
        yield Outcome("next", p)

    def st_For(self, p, s):
        for p1, it in self.ev(p, s.iter):
            yield from self.bi.for_loop(self, p1, s, it)

    def st_While(self, p, s):
        yield from self.bi.while_loop(self, p, s)

    def st_With(self, p, s):
        yield from self.bi.with_stmt(self, p, s)

    # loop body helper used by builtins.for_loop for concrete unrolling
    def run_loop_body(self, p, s, bind):
        bind(p)
        return self.exec_block(p, s.body)
