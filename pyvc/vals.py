"""Symbolic values for the pyvc executor: z3 sorts + thin typed wrappers.

Semantics assumed (see DESIGN.md section 2): int = mathematical integers,
float = reals, str = z3 String (code points), tuple/list = z3 Seq or a
concrete-length Python list of symbolic values.
"""
import z3

_cnt = [0]


def fresh(prefix, sort):
    _cnt[0] += 1
    return z3.Const("%s!%d" % (prefix, _cnt[0]), sort)


# --------------------------------------------------------------------------
# z3 sorts
# --------------------------------------------------------------------------
IntS, RealS, BoolS, StrS = z3.IntSort(), z3.RealSort(), z3.BoolSort(), z3.StringSort()

OptI = z3.Datatype("OptI")
OptI.declare("NoneI")
OptI.declare("SomeI", ("iv", IntS))
OptI = OptI.create()

SliceDT = z3.Datatype("SliceDT")
SliceDT.declare("mk_slice", ("sl_start", OptI), ("sl_stop", OptI), ("sl_step", OptI))
SliceDT = SliceDT.create()

_Val = z3.Datatype("Val")
_VR = z3.DatatypeSort("Val")
_Val.declare("VNone")
_Val.declare("VInt", ("i", IntS))
_Val.declare("VReal", ("r", RealS))
_Val.declare("VBool", ("b", BoolS))
_Val.declare("VStr", ("s", StrS))
_Val.declare("VBytes", ("bs", StrS))
_Val.declare("VSliceV", ("sl", SliceDT))
_Val.declare("VEllipsis")
_Val.declare("VObj", ("ref", IntS), ("cls", IntS))
_Val.declare("VIntSeq", ("iseq", z3.SeqSort(IntS)))
_Val.declare("VRealSeq", ("rseq", z3.SeqSort(RealS)))
_Val.declare("VStrSeq", ("sseq", z3.SeqSort(StrS)))
_Val.declare("VValSeq", ("vseq", z3.SeqSort(_VR)))
_Val.declare("VSliceSeq", ("slseq", z3.SeqSort(SliceDT)))
_Val.declare("VOpaque", ("ok", IntS))          # numpy arrays etc.: identity only
_Val.declare("VEnum", ("en", IntS), ("em", IntS))
_Val.declare("VClass", ("cid", IntS))
Val = _Val.create()


class Interner:
    """Stable small integers for class names / enum names."""

    def __init__(self):
        self.ids = {}
        self.names = {}

    def id(self, name):
        if name not in self.ids:
            self.ids[name] = len(self.ids) + 1
            self.names[self.ids[name]] = name
        return self.ids[name]


CLASSES = Interner()
ENUMS = Interner()
ENUM_MEMBERS = {}      # enum name -> list of member names (distinct values only)


# --------------------------------------------------------------------------
# sort descriptors (used in contracts: params=dict(x=Int, ...))
# --------------------------------------------------------------------------
class Sort:
    def __repr__(self):
        return self.__class__.__name__


class _Simple(Sort):
    def __init__(self, name, z):
        self.name, self.z = name, z

    def __repr__(self):
        return self.name


Int = _Simple("Int", IntS)
Real = _Simple("Real", RealS)
Bool = _Simple("Bool", BoolS)
Str = _Simple("Str", StrS)
Bytes = _Simple("Bytes", StrS)
Slice = _Simple("Slice", SliceDT)
Dyn = _Simple("Dyn", Val)
NoneT = _Simple("NoneT", None)
class OpaqueOf(Sort):
    """opaque library value; a non-empty tag selects tag-specific contracts `opaque:<tag>.<method>`"""

    def __init__(self, tag=""):
        self.tag = tag
        self.z = IntS
        self.name = "Opaque"

    def __repr__(self):
        return "Opaque" + (":" + self.tag if self.tag else "")


OpaqueT = OpaqueOf("")


class SeqOf(Sort):
    def __init__(self, elem):
        self.elem = elem
        self.z = z3.SeqSort(elem.z)

    def __repr__(self):
        return "SeqOf(%r)" % (self.elem,)


class Obj(Sort):
    def __init__(self, cls):
        self.cls = cls
        self.z = IntS

    def __repr__(self):
        return "Obj(%s)" % self.cls


class Enum(Sort):
    def __init__(self, name):
        self.name = name
        self.z = IntS

    def __repr__(self):
        return "Enum(%s)" % self.name


class TupleOf(Sort):
    def __init__(self, *elems):
        self.elems = elems

    def __repr__(self):
        return "TupleOf%r" % (self.elems,)


class Opt(Sort):
    """Optional value; represented as Dyn restricted to VNone | T."""

    def __init__(self, inner):
        self.inner = inner
        self.z = Val

    def __repr__(self):
        return "Opt(%r)" % (self.inner,)


class ExcOf(Sort):
    """An exception instance of a fixed class (captured variables such as `oob`)."""

    def __init__(self, cls):
        self.cls = cls


class Cls(Sort):
    """a class object parameter (classmethods: cls)"""

    def __init__(self, name):
        self.name = name


class Func(Sort):
    """A callable parameter (e.g. filtr). Modelled as an uninterpreted predicate."""

    def __init__(self, name, argsorts, ressort):
        self.name, self.argsorts, self.ressort = name, argsorts, ressort


# --------------------------------------------------------------------------
# symbolic value wrappers
# --------------------------------------------------------------------------
class SV:
    pass


class VInt(SV):
    def __init__(self, t):
        self.t = z3.IntVal(t) if isinstance(t, int) else t

    def __repr__(self):
        return "VInt(%s)" % self.t


class VReal(SV):
    def __init__(self, t):
        if isinstance(t, float):
            from fractions import Fraction
            fr = Fraction(repr(t))          # the decimal value of the literal text (floats are reals here)
            t = z3.Q(fr.numerator, fr.denominator)
        elif isinstance(t, int):
            t = z3.RealVal(t)
        self.t = t

    def __repr__(self):
        return "VReal(%s)" % self.t


class VBool(SV):
    def __init__(self, t):
        self.t = z3.BoolVal(t) if isinstance(t, bool) else t

    def __repr__(self):
        return "VBool(%s)" % self.t


class VStr(SV):
    def __init__(self, t, is_bytes=False):
        self.t = z3.StringVal(t) if isinstance(t, str) else t
        self.is_bytes = is_bytes

    def __repr__(self):
        return "VStr(%s)" % self.t


class VNone(SV):
    def __repr__(self):
        return "VNone"


NONE = VNone()


class VEllipsis(SV):
    pass


ELLIPSIS = VEllipsis()


class VSlice(SV):
    def __init__(self, t):
        self.t = t

    @staticmethod
    def make(start, stop, step):
        return VSlice(SliceDT.mk_slice(to_opti(start), to_opti(stop), to_opti(step)))

    def __repr__(self):
        return "VSlice(%s)" % self.t


class VSeq(SV):
    """Symbolic-length homogeneous sequence (tuple or list; kind is cosmetic)."""

    def __init__(self, t, elem, kind="tuple"):
        self.t, self.elem, self.kind = t, elem, kind

    def __repr__(self):
        return "VSeq(%s)" % self.t


class VTuple(SV):
    """Concrete-length tuple/list of arbitrary symbolic values."""

    def __init__(self, items, kind="tuple"):
        self.items, self.kind = list(items), kind

    def __repr__(self):
        return "VTuple(%r)" % (self.items,)


class VCell(SV):
    """Reference to a path-local mutable list (path.cells[cid])."""

    def __init__(self, cid):
        self.cid = cid


class VObj(SV):
    def __init__(self, t, cls):
        self.t, self.cls = t, cls

    def __repr__(self):
        return "VObj(%s:%s)" % (self.t, self.cls)


class VEnum(SV):
    """member is a z3 Int (index into ENUM_MEMBERS[name])."""

    def __init__(self, name, t):
        self.name = name
        self.t = z3.IntVal(t) if isinstance(t, int) else t

    def __repr__(self):
        return "VEnum(%s,%s)" % (self.name, self.t)


class VDyn(SV):
    def __init__(self, t):
        self.t = t

    def __repr__(self):
        return "VDyn(%s)" % self.t


class VClass(SV):
    """A class object / tuple of classes used in isinstance, except, raise."""

    def __init__(self, names):
        self.names = tuple(names)

    def __repr__(self):
        return "VClass%r" % (self.names,)


class VExc(SV):
    def __init__(self, cls, args=(), site=None):
        self.cls, self.args, self.site = cls, args, site

    def __repr__(self):
        return "VExc(%s)" % self.cls


class VFunc(SV):
    """Python-level callable: kind in {'def','lambda','builtin','contract','spec','upred','bound'}"""

    def __init__(self, kind, name, payload=None, self_val=None, closure=None):
        self.kind, self.name, self.payload = kind, name, payload
        self.self_val, self.closure = self_val, closure

    def __repr__(self):
        return "VFunc(%s:%s)" % (self.kind, self.name)


class VModule(SV):
    def __init__(self, name):
        self.name = name

    def __repr__(self):
        return "VModule(%s)" % self.name


class VDict(SV):
    """Concrete-key dict literal (keys python str or hashable sv-repr)."""

    def __init__(self, items):
        self.items = items      # list of (key SV, value SV)


class VOpaque(SV):
    """Opaque library value, identity only (numpy array, h5py object...)."""

    def __init__(self, t, tag=""):
        self.t, self.tag = t, tag

    def __repr__(self):
        return "VOpaque(%s:%s)" % (self.tag, self.t)


class VSuper(SV):
    def __init__(self, obj, after):
        self.obj, self.after = obj, after


class VIter(SV):
    """zip / enumerate / range / iterator over sequences."""

    def __init__(self, kind, parts):
        self.kind, self.parts = kind, parts


class VLib(SV):
    """Library object with assumed contracts looked up as '<cls>.<attr>'."""

    def __init__(self, t, cls):
        self.t, self.cls = t, cls



# --------------------------------------------------------------------------
# helpers
# --------------------------------------------------------------------------
def to_opti(x):
    if x is None or isinstance(x, VNone):
        return OptI.NoneI
    if isinstance(x, int):
        return OptI.SomeI(z3.IntVal(x))
    if isinstance(x, VInt):
        return OptI.SomeI(x.t)
    if isinstance(x, VBool):
        return OptI.SomeI(z3.If(x.t, 1, 0))
    if isinstance(x, VDyn):
        return z3.If(Val.is_VInt(x.t), OptI.SomeI(Val.i(x.t)), OptI.NoneI)
    if z3.is_expr(x) and x.sort() == OptI:
        return x
    if z3.is_expr(x) and x.sort() == IntS:
        return OptI.SomeI(x)
    raise TypeError("to_opti: %r" % (x,))


def opti_to_sv(t):
    """OptI term -> VDyn (None or int)."""
    t = z3.simplify(t)
    if z3.is_app(t) and t.decl().name() == "NoneI":
        return NONE
    if z3.is_app(t) and t.decl().name() == "SomeI":
        return VInt(t.arg(0))
    return VDyn(z3.If(OptI.is_NoneI(t), Val.VNone, Val.VInt(OptI.iv(t))))


def box(v):
    """SV -> Val term."""
    if isinstance(v, VDyn):
        return v.t
    if isinstance(v, VNone):
        return Val.VNone
    if isinstance(v, VInt):
        return Val.VInt(v.t)
    if isinstance(v, VReal):
        return Val.VReal(v.t)
    if isinstance(v, VBool):
        return Val.VBool(v.t)
    if isinstance(v, VStr):
        return Val.VBytes(v.t) if v.is_bytes else Val.VStr(v.t)
    if isinstance(v, VSlice):
        return Val.VSliceV(v.t)
    if isinstance(v, VEllipsis):
        return Val.VEllipsis
    if isinstance(v, VObj):
        return Val.VObj(v.t, z3.IntVal(CLASSES.id(v.cls)))
    if isinstance(v, VEnum):
        return Val.VEnum(z3.IntVal(ENUMS.id(v.name)), v.t)
    if isinstance(v, VClass) and len(v.names) == 1:
        return Val.VClass(z3.IntVal(CLASSES.id(v.names[0])))
    if isinstance(v, VOpaque):
        return Val.VOpaque(v.t)
    if isinstance(v, VSeq):
        if v.elem is Int:
            return Val.VIntSeq(v.t)
        if v.elem is Real:
            return Val.VRealSeq(v.t)
        if v.elem is Str:
            return Val.VStrSeq(v.t)
        if v.elem is Dyn:
            return Val.VValSeq(v.t)
        if v.elem is Slice:
            return Val.VSliceSeq(v.t)
        raise TypeError("cannot box sequence of %r" % (v.elem,))
    if isinstance(v, VTuple):
        s = tuple_to_seq(v)
        return box(s)
    raise TypeError("cannot box %r" % (v,))


def unbox(t, sort):
    """Val term -> SV according to sort descriptor (no checking)."""
    if sort is Dyn or isinstance(sort, Opt) or sort is None:
        return VDyn(t)
    if sort is Int:
        return VInt(Val.i(t))
    if sort is Real:
        return VReal(z3.If(Val.is_VInt(t), z3.ToReal(Val.i(t)), Val.r(t)))
    if sort is Bool:
        return VBool(Val.b(t))
    if sort is Str:
        return VStr(Val.s(t))
    if sort is Bytes:
        return VStr(Val.bs(t), True)
    if sort is Slice:
        return VSlice(Val.sl(t))
    if isinstance(sort, Obj):
        return VObj(Val.ref(t), sort.cls)
    if isinstance(sort, OpaqueOf):
        return VOpaque(Val.ok(t), sort.tag)
    if isinstance(sort, Enum):
        return VEnum(sort.name, Val.em(t))
    if isinstance(sort, SeqOf):
        if sort.elem is Int:
            return VSeq(Val.iseq(t), Int)
        if sort.elem is Real:
            return VSeq(Val.rseq(t), Real)
        if sort.elem is Str:
            return VSeq(Val.sseq(t), Str)
        if sort.elem is Dyn:
            return VSeq(Val.vseq(t), Dyn)
        if sort.elem is Slice:
            return VSeq(Val.slseq(t), Slice)
    raise TypeError("cannot unbox to %r" % (sort,))


def is_sort_cond(t, sort):
    """z3 Bool: Val term t is a value of the given sort descriptor."""
    if sort is Dyn or sort is None:
        return z3.BoolVal(True)
    if isinstance(sort, Opt):
        return z3.Or(Val.is_VNone(t), is_sort_cond(t, sort.inner))
    if sort is Int:
        return Val.is_VInt(t)
    if sort is Real:
        return z3.Or(Val.is_VReal(t), Val.is_VInt(t))
    if sort is Bool:
        return Val.is_VBool(t)
    if sort is Str:
        return Val.is_VStr(t)
    if sort is Bytes:
        return Val.is_VBytes(t)
    if sort is Slice:
        return Val.is_VSliceV(t)
    if sort is NoneT:
        return Val.is_VNone(t)
    if isinstance(sort, OpaqueOf):
        return Val.is_VOpaque(t)
    if isinstance(sort, Obj):
        return z3.And(Val.is_VObj(t), Val.cls(t) == CLASSES.id(sort.cls))
    if isinstance(sort, Enum):
        return z3.And(Val.is_VEnum(t), Val.en(t) == ENUMS.id(sort.name),
                      Val.em(t) >= 0, Val.em(t) < len(ENUM_MEMBERS[sort.name]))
    if isinstance(sort, SeqOf):
        if sort.elem is Int:
            return Val.is_VIntSeq(t)
        if sort.elem is Real:
            return Val.is_VRealSeq(t)
        if sort.elem is Str:
            return Val.is_VStrSeq(t)
        if sort.elem is Dyn:
            return Val.is_VValSeq(t)
        if sort.elem is Slice:
            return Val.is_VSliceSeq(t)
    raise TypeError("is_sort_cond: %r" % (sort,))


def elem_to_term(v, elem):
    """SV -> z3 term of the element sort of a typed sequence."""
    if elem is Dyn:
        return box(v)
    if elem is Int:
        if isinstance(v, VBool):
            return z3.If(v.t, 1, 0)
        if isinstance(v, VInt):
            return v.t
    if elem is Real:
        if isinstance(v, VInt):
            return z3.ToReal(v.t)
        if isinstance(v, VReal):
            return v.t
    if elem is Str and isinstance(v, VStr):
        return v.t
    if elem is Slice and isinstance(v, VSlice):
        return v.t
    if elem is Bool and isinstance(v, VBool):
        return v.t
    if isinstance(elem, Obj) and isinstance(v, VObj):
        return v.t
    if isinstance(elem, Enum) and isinstance(v, VEnum):
        return v.t
    if isinstance(elem, OpaqueOf) and isinstance(v, VOpaque):
        return v.t
    raise TypeError("elem_to_term %r as %r" % (v, elem))


def term_to_elem(t, elem):
    """z3 term of element sort -> SV."""
    if elem is Dyn:
        return VDyn(t)
    if elem is Int:
        return VInt(t)
    if elem is Real:
        return VReal(t)
    if elem is Str:
        return VStr(t)
    if elem is Bytes:
        return VStr(t, True)
    if elem is Bool:
        return VBool(t)
    if elem is Slice:
        return VSlice(t)
    if isinstance(elem, Obj):
        return VObj(t, elem.cls)
    if isinstance(elem, Enum):
        return VEnum(elem.name, t)
    if isinstance(elem, Opt):
        return VDyn(t)
    if isinstance(elem, SeqOf):
        return VSeq(t, elem.elem)
    if isinstance(elem, OpaqueOf):
        return VOpaque(t, elem.tag)
    raise TypeError("term_to_elem %r" % (elem,))


def term_of(v):
    if isinstance(v, (VInt, VReal, VBool, VStr, VSlice, VSeq, VObj, VEnum, VDyn, VOpaque)):
        return v.t
    raise TypeError("term_of %r" % (v,))


def sort_of_sv(v):
    if isinstance(v, VInt):
        return Int
    if isinstance(v, VReal):
        return Real
    if isinstance(v, VBool):
        return Bool
    if isinstance(v, VStr):
        return Bytes if v.is_bytes else Str
    if isinstance(v, VSlice):
        return Slice
    if isinstance(v, VObj):
        return Obj(v.cls)
    if isinstance(v, VEnum):
        return Enum(v.name)
    if isinstance(v, VSeq):
        return SeqOf(v.elem)
    if isinstance(v, VOpaque):
        return OpaqueT
    return Dyn


def same_sort(a, b):
    return repr(a) == repr(b)


def tuple_to_seq(v, elem=None):
    """Concrete-length VTuple -> VSeq (typed if homogeneous, else Dyn)."""
    if isinstance(v, VSeq):
        return v
    items = v.items
    if elem is None:
        sorts = [sort_of_sv(x) for x in items]
        if sorts and all(same_sort(s, sorts[0]) for s in sorts) and sorts[0] in (Int, Real, Str, Slice):
            elem = sorts[0]
        elif sorts and all(s in (Int, Real) for s in sorts):
            elem = Real
        else:
            elem = Dyn if items else Dyn
    zs = z3.SeqSort(elem.z)
    if not items:
        return VSeq(z3.Empty(zs), elem, v.kind)
    units = [z3.Unit(elem_to_term(x, elem)) for x in items]
    t = units[0] if len(units) == 1 else z3.Concat(*units)
    return VSeq(t, elem, v.kind)


def make_symbolic(name, sort, assumptions):
    """Fresh symbolic value of a declared sort; typing facts appended to assumptions."""
    if sort is Int:
        return VInt(fresh(name, IntS))
    if sort is Real:
        return VReal(fresh(name, RealS))
    if sort is Bool:
        return VBool(fresh(name, BoolS))
    if sort is Str:
        return VStr(fresh(name, StrS))
    if sort is Bytes:
        return VStr(fresh(name, StrS), True)
    if sort is Slice:
        return VSlice(fresh(name, SliceDT))
    if sort is NoneT:
        return NONE
    if sort is Dyn:
        return VDyn(fresh(name, Val))
    if isinstance(sort, OpaqueOf):
        return VOpaque(fresh(name, IntS), sort.tag or name)
    if isinstance(sort, Opt):
        t = fresh(name, Val)
        assumptions.append(is_sort_cond(t, sort))
        return VDyn(t)
    if isinstance(sort, Obj):
        t = fresh(name, IntS)
        assumptions.append(t > 0)
        return VObj(t, sort.cls)
    if isinstance(sort, Enum):
        t = fresh(name, IntS)
        assumptions.append(z3.And(t >= 0, t < len(ENUM_MEMBERS[sort.name])))
        return VEnum(sort.name, t)
    if isinstance(sort, SeqOf):
        t = fresh(name, sort.z)
        v = VSeq(t, sort.elem)
        if isinstance(sort.elem, Opt):
            j = fresh("j", IntS)
            assumptions.append(z3.ForAll([j], z3.Implies(z3.And(j >= 0, j < z3.Length(t)),
                                                         is_sort_cond(t[j], sort.elem))))
        if isinstance(sort.elem, Enum):
            j = fresh("j", IntS)
            n = len(ENUM_MEMBERS[sort.elem.name])
            assumptions.append(z3.ForAll([j], z3.Implies(z3.And(j >= 0, j < z3.Length(t)),
                                                         z3.And(t[j] >= 0, t[j] < n))))
        return v
    if isinstance(sort, TupleOf):
        return VTuple([make_symbolic("%s_%d" % (name, k), s, assumptions) for k, s in enumerate(sort.elems)])
    if isinstance(sort, ExcOf):
        return VExc(sort.cls)
    if isinstance(sort, Cls):
        return VClass([sort.name])
    if isinstance(sort, Func):
        f = z3.Function(name + "!%d" % (_cnt[0] + 1), *([s.z for s in sort.argsorts] + [sort.ressort.z]))
        _cnt[0] += 1
        return VFunc("upred", name, (f, sort))
    raise TypeError("make_symbolic: %r" % (sort,))


def ite(c, a, b):
    """Merge two SVs under a z3 condition."""
    if a is b:
        return a
    if isinstance(a, VNone) and isinstance(b, VNone):
        return a
    if type(a) is type(b):
        if isinstance(a, (VInt, VReal, VBool, VSlice)):
            return type(a)(z3.If(c, a.t, b.t))
        if isinstance(a, VStr) and a.is_bytes == b.is_bytes:
            return VStr(z3.If(c, a.t, b.t), a.is_bytes)
        if isinstance(a, VSeq) and same_sort(a.elem, b.elem):
            return VSeq(z3.If(c, a.t, b.t), a.elem, a.kind)
        if isinstance(a, VObj) and a.cls == b.cls:
            return VObj(z3.If(c, a.t, b.t), a.cls)
        if isinstance(a, VEnum) and a.name == b.name:
            return VEnum(a.name, z3.If(c, a.t, b.t))
        if isinstance(a, VDyn):
            return VDyn(z3.If(c, a.t, b.t))
        if isinstance(a, VTuple) and len(a.items) == len(b.items):
            return VTuple([ite(c, x, y) for x, y in zip(a.items, b.items)], a.kind)
        if isinstance(a, VExc) and a.cls == b.cls:
            return a
    if isinstance(a, (VInt, VReal)) and isinstance(b, (VInt, VReal)):
        return VReal(z3.If(c, to_real(a), to_real(b)))
    if isinstance(a, VTuple) and isinstance(b, VSeq):
        a = tuple_to_seq(a, b.elem)
        return ite(c, a, b)
    if isinstance(b, VTuple) and isinstance(a, VSeq):
        b = tuple_to_seq(b, a.elem)
        return ite(c, a, b)
    return VDyn(z3.If(c, box(a), box(b)))


def to_real(v):
    if isinstance(v, VInt):
        return z3.ToReal(v.t)
    if isinstance(v, VReal):
        return v.t
    if isinstance(v, VBool):
        return z3.If(v.t, z3.RealVal(1), z3.RealVal(0))
    raise TypeError("to_real %r" % (v,))


def _nth_terms(body, var):
    """subterms nth(s, var) / select(a, var) whose index is exactly the bound variable"""
    out, seen, todo = [], set(), [body]
    vid = var.get_id()
    while todo:
        x = todo.pop()
        i = x.get_id()
        if i in seen:
            continue
        seen.add(i)
        if z3.is_quantifier(x):
            continue
        if z3.is_app(x):
            nm = x.decl().name()
            if nm in ("seq.nth", "select", "seq.nth_i") and x.num_args() == 2 and x.arg(1).get_id() == vid:
                # the sequence argument itself must not contain other bound stuff we cannot see; accept
                out.append(x)
            todo.extend(x.children())
    return out


def forall(vs, body):
    """ForAll with explicit alternative triggers on every seq.nth / select indexed by the bound variable
    (z3's automatic pattern inference tends to pick a single, often useless, trigger)."""
    try:
        if len(vs) == 1:
            pats = _nth_terms(body, vs[0])
            uniq = []
            for t in pats:
                if not any(t.eq(u) for u in uniq):
                    uniq.append(t)
            if uniq:
                return z3.ForAll(vs, body, patterns=uniq[:6])
        elif len(vs) == 2:
            a, b = _nth_terms(body, vs[0]), _nth_terms(body, vs[1])
            if a and b:
                return z3.ForAll(vs, body, patterns=[z3.MultiPattern(a[0], b[0])])
    except z3.Z3Exception:
        pass
    return z3.ForAll(vs, body)


def subst_sv(v, pairs):
    """apply a z3 substitution to the term(s) of a symbolic value"""
    if isinstance(v, VTuple):
        return VTuple([subst_sv(x, pairs) for x in v.items], v.kind)
    if hasattr(v, "t") and isinstance(getattr(v, "t"), z3.ExprRef):
        import copy
        w = copy.copy(v)
        w.t = z3.substitute(v.t, *pairs)
        return w
    return v
