"""Fast engine self-test used as MANIFEST.setup_cmd: tools present, sidecars load, encoder agrees with CPython."""
import os
import sys
import itertools
sys.path.insert(0, os.path.dirname(os.path.dirname(os.path.abspath(__file__))))
import z3                                              # noqa: E402
from pyvc.ops import slice_indices                     # noqa: E402
from pyvc.vals import SliceDT, OptI                    # noqa: E402


def opt(x):
    return OptI.NoneI if x is None else OptI.SomeI(z3.IntVal(x))


def main():
    bad = 0
    vals = [None, -7, -3, -1, 0, 1, 2, 5, 9]
    steps = [None, -3, -1, 1, 2, 4]
    for n in range(0, 7):
        for a, b, c in itertools.product(vals, vals, steps):
            sl = SliceDT.mk_slice(opt(a), opt(b), opt(c))
            st, sp, se, _ = slice_indices(sl, z3.IntVal(n))
            got = tuple(z3.simplify(x).as_long() for x in (st, sp, se))
            if got != slice(a, b, c).indices(n):
                bad += 1
                print("slice.indices mismatch", (a, b, c), n, got, slice(a, b, c).indices(n))
    from pyvc.ops import OpsMixin
    o = OpsMixin()
    for x in range(-9, 10):
        for y in [-4, -3, -1, 1, 2, 5]:
            fd = z3.simplify(o.floordiv(z3.IntVal(x), z3.IntVal(y))).as_long()
            md = z3.simplify(o.pymod(z3.IntVal(x), z3.IntVal(y))).as_long()
            if fd != x // y or md != x % y:
                bad += 1
                print("floordiv/mod mismatch", x, y, fd, md)
    from pyvc import main as M
    repo, reg = M.setup("/repo")
    print("selftest: %d contracts, %d lemmas loaded; encoder mismatches: %d" % (len(reg.contracts), len(reg.lemmas), bad))
    if not os.path.exists("/usr/bin/cvc5"):
        print("warning: cvc5 CLI missing (z3 only)")
    return 1 if bad else 0


if __name__ == "__main__":
    sys.exit(main())
