"""Replay of counter-models against the real code (subprocess under /venv/bin/python)."""
import json
import os
import re
import subprocess


def write_and_run(root, prop, v, repo_dir):
    safe = re.sub(r"[^A-Za-z0-9_.-]+", "_", v["name"])[-150:]
    path = os.path.join(root, "replays", prop, safe + ".json")
    rec = dict(property=prop, failed_obligation=v["name"], clause=v["clause"], unit=v["unit"],
               obligation_text=v["meta"].get("text"), meta=v["meta"], witness=v.get("witness"),
               solver_model=v.get("model"), smt2=v.get("smt2"), replay=None)
    confirmed = bool(v.get("bounded"))      # a bounded stand-in ran the real code: its counterexample IS a failing input
    harness = os.path.join(root, "replay", "run_replay.py")
    if os.path.exists(harness) and v.get("witness") is not None and v.get("harness"):
        try:
            r = subprocess.run(["/venv/bin/python", harness, "--harness", v["harness"], "--unit", v["unit"],
                                "--clause", v["clause"], "--witness", json.dumps(v["witness"], default=str),
                                "--repo", repo_dir],
                               capture_output=True, text=True, timeout=120,
                               env=dict(os.environ, PYTHONPATH=repo_dir))
            rec["replay"] = dict(rc=r.returncode, stdout=r.stdout[-3000:], stderr=r.stderr[-2000:])
            confirmed = r.returncode == 1 and "CONFIRMED" in r.stdout
        except Exception as e:
            rec["replay"] = dict(error=str(e))
    if not confirmed:
        # no (reproducing) counter-model: run the native probe battery of this property on the tree under test
        probes = os.path.join(root, "replay", "probes.py")
        if os.path.exists(probes):
            try:
                r = subprocess.run(["/venv/bin/python", probes, prop, v["unit"], v["clause"], repo_dir],
                                   capture_output=True, text=True, timeout=300, cwd="/tmp",
                                   env=dict(os.environ, PYTHONPATH=repo_dir))
                hit = r.returncode == 1 and "CONFIRMED" in r.stdout
                rec["probe_battery"] = dict(rc=r.returncode, stdout=r.stdout[-2500:], stderr=r.stderr[-1500:],
                                            note="scenarios written from the property statement, independent of the "
                                                 "contracts; a hit is a concrete failing input on the real code, found by "
                                                 "the battery, not by the solver")
                confirmed = confirmed or hit
            except Exception as e:
                rec["probe_battery"] = dict(error=str(e))
    rec["confirmed_on_real_code"] = confirmed
    os.makedirs(os.path.dirname(path), exist_ok=True)
    with open(path, "w") as f:
        json.dump(rec, f, indent=1, default=str)
    return path, confirmed
