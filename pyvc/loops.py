"""Iteration: comprehensions (pointwise definitions) and loops (unrolling or invariants)."""
import ast
import z3

from .vals import *      # noqa: F401,F403
from . import vals as V
from .symexec import Unsupported, Outcome


def _assigned_names(stmts):
    out = set()
    for s in stmts:
        for n in ast.walk(s):
            if isinstance(n, ast.Name) and isinstance(n.ctx, (ast.Store, ast.Del)):
                out.add(n.id)
    return out


def _mutated_cells(stmts):
    out = set()
    for s in stmts:
        for n in ast.walk(s):
            if isinstance(n, ast.Call) and isinstance(n.func, ast.Attribute) and \
                    n.func.attr in ("append", "extend", "pop") and isinstance(n.func.value, ast.Name):
                out.add(n.func.value.id)
            if isinstance(n, ast.AugAssign) and isinstance(n.target, ast.Name):
                out.add(n.target.id)
            if isinstance(n, ast.Subscript) and isinstance(n.ctx, ast.Store) and isinstance(n.value, ast.Name):
                out.add(n.value.id)
    return out


class LoopsMixin:

    # ------------------------------------------------------------------
    # iteration sources
    # ------------------------------------------------------------------
    def is_concrete_iter(self, ex, p, it):
        it = ex.deref(p, it)
        if isinstance(it, VTuple):
            return True
        if isinstance(it, VIter):
            if it.kind == "range":
                return all(z3.is_int_value(z3.simplify(x.t)) for x in it.parts)
            if it.kind == "zip":
                # zip stops at the shortest: concrete if at least one part is concrete
                # and no symbolic part could be shorter -> only when all are concrete
                return all(isinstance(ex.deref(p, x), VTuple) for x in it.parts)
            return all(isinstance(ex.deref(p, x), VTuple) for x in it.parts)
        return False

    def concrete_items(self, ex, p, it):
        it = ex.deref(p, it)
        if isinstance(it, VTuple):
            return list(it.items)
        if it.kind == "range":
            lo, hi, st = [z3.simplify(x.t).as_long() for x in it.parts]
            return [VInt(k) for k in range(lo, hi, st)]
        if it.kind == "zip":
            cols = [ex.deref(p, x).items for x in it.parts]
            return [VTuple(list(r)) for r in zip(*cols)]
        if it.kind == "enumerate":
            return [VTuple([VInt(k), x]) for k, x in enumerate(ex.deref(p, it.parts[0]).items)]
        raise Unsupported("iterator kind %s" % it.kind)

    def iter_len(self, ex, p, it):
        it = ex.deref(p, it)
        if isinstance(it, VTuple):
            return z3.IntVal(len(it.items))
        if isinstance(it, VSeq):
            return z3.Length(it.t)
        if it.kind == "range":
            from .ops import range_len
            lo, hi, st = [x.t for x in it.parts]
            sts = z3.simplify(st)
            if z3.is_int_value(sts) and sts.as_long() == 1:
                return z3.simplify(z3.If(hi > lo, hi - lo, 0))
            return range_len(lo, hi, st)
        if it.kind == "enumerate":
            return self.iter_len(ex, p, it.parts[0])
        if it.kind == "zip":
            ns = [self.iter_len(ex, p, x) for x in it.parts]
            acc = ns[0]
            for n in ns[1:]:
                acc = z3.If(n < acc, n, acc)
            return acc
        raise Unsupported("iter_len %s" % it.kind)

    def iter_elem(self, ex, p, it, k):
        """Element number k (z3 Int term) of an iteration source."""
        it = ex.deref(p, it)
        if isinstance(it, VSeq):
            return term_to_elem(it.t[k], it.elem)
        if isinstance(it, VTuple):
            ks = z3.simplify(k)
            if z3.is_int_value(ks):
                return it.items[ks.as_long()]
            s = tuple_to_seq(it)
            return term_to_elem(s.t[k], s.elem)
        if it.kind == "range":
            lo, hi, st = [x.t for x in it.parts]
            return VInt(z3.simplify(lo + k * st))
        if it.kind == "enumerate":
            return VTuple([VInt(k), self.iter_elem(ex, p, it.parts[0], k)])
        if it.kind == "zip":
            return VTuple([self.iter_elem(ex, p, x, k) for x in it.parts])
        raise Unsupported("iter_elem %s" % it.kind)

    def iter_to_seq(self, ex, p, it, node):
        if self.is_concrete_iter(ex, p, it):
            yield p, VTuple(self.concrete_items(ex, p, it))
            return
        if it.kind == "range":
            n = self.iter_len(ex, p, it)
            r = V.fresh("rng", z3.SeqSort(IntS))
            j = V.fresh("j", IntS)
            lo, hi, st = [x.t for x in it.parts]
            p.assume(z3.Length(r) == n)
            p.assume(z3.ForAll([j], z3.Implies(z3.And(j >= 0, j < n), r[j] == lo + j * st)))
            yield p, VSeq(r, Int)
            return
        raise Unsupported("materialising %s iterator of symbolic length" % it.kind)

    # ------------------------------------------------------------------
    # comprehensions
    # ------------------------------------------------------------------
    def comprehend(self, ex, p, elt, target, it, ifs, consumer, node):
        it = ex.deref(p, it)
        if isinstance(it, (VObj, VOpaque, VDyn)):
            for p1, s in self.to_sequence(ex, p, it, node):
                yield from self.comprehend(ex, p1, elt, target, s, ifs, consumer, node)
            return
        if self.is_concrete_iter(ex, p, it):
            yield from self._comp_concrete(ex, p, elt, target, self.concrete_items(ex, p, it), ifs, consumer, node)
            return
        yield from self._comp_symbolic(ex, p, elt, target, it, ifs, consumer, node)

    def _comp_concrete(self, ex, p, elt, target, items, ifs, consumer, node):
        # sequential evaluation with forking allowed (exec) / single (spec)
        def rec(p, k, acc):
            if k == len(items):
                yield p, acc
                return
            ex.assign_target(p, target, items[k])
            conds = [ex.truth(p, ex.ev1(p, c)) for c in ifs] if ifs else []
            if conds:
                c = z3.simplify(z3.And(*conds))
                if ex.spec or z3.is_true(c) or z3.is_false(c):
                    if z3.is_false(c):
                        yield from rec(p, k + 1, acc)
                        return
                    if not z3.is_true(c):
                        # spec mode with symbolic filter: only for any/all/sum
                        v = ex.ev1(p, elt)
                        yield from rec(p, k + 1, acc + [(c, v)])
                        return
                else:
                    for p1, tv in ex.branch(p, c):
                        if tv:
                            for p2, v in ex.ev(p1, elt):
                                yield from rec(p2, k + 1, acc + [(None, v)])
                        else:
                            yield from rec(p1, k + 1, acc)
                    return
            for p1, v in ex.ev(p, elt):
                yield from rec(p1, k + 1, acc + [(None, v)])
        for p1, acc in rec(p, 0, []):
            if consumer in ("tuple", "list"):
                if any(c is not None for c, _ in acc):
                    raise Unsupported("symbolic filter in list comprehension")
                r = VTuple([v for _, v in acc], consumer)
                yield p1, (ex.new_cell(p1, r) if consumer == "list" else r)
            elif consumer in ("any", "all"):
                ts = []
                for c, v in acc:
                    t = ex.truth(p1, v)
                    if c is not None:
                        t = z3.And(c, t) if consumer == "any" else z3.Implies(c, t)
                    ts.append(t)
                if consumer == "any":
                    yield p1, VBool(z3.Or(*ts) if ts else z3.BoolVal(False))
                else:
                    yield p1, VBool(z3.And(*ts) if ts else z3.BoolVal(True))
            elif consumer == "sum":
                tot = z3.IntVal(0)
                real = False
                for c, v in acc:
                    v = list(ex.narrow(p1, v))[0][1]
                    if isinstance(v, VReal):
                        real = True
                for c, v in acc:
                    v = list(ex.narrow(p1, v))[0][1]
                    t = to_real(v) if real else (z3.If(v.t, 1, 0) if isinstance(v, VBool) else v.t)
                    if c is not None:
                        t = z3.If(c, t, 0)
                    tot = tot + t
                yield p1, (VReal(tot) if real else VInt(tot))
            else:
                raise Unsupported("comprehension consumer %s" % consumer)

    def _eval_pointwise(self, ex, p, nodes, bind, ivar=None):
        """Evaluate expression nodes for an arbitrary element (bound index `ivar`) on a scratch fork.
        Returns (list of (case_cond, [values])), list of (case_cond, exc)).

        Path-condition entries added during the evaluation are either branch decisions (they form the case condition)
        or facts (postconditions of contracts applied inside the element expression). Symbols created fresh during the
        evaluation (e.g. a callee's result) denote a different value for every element: they are skolemised as
        functions of the bound index, and the facts are assumed on the main path for every index of the case."""
        q = p.fork()
        base = len(q.pc)
        cnt0 = V._cnt[0]
        bind(q)
        for c in q.pc[base:]:
            q.branch_ids.add(c.get_id())          # the range condition is part of every case
        saved = ex._raises
        ex._raises = []
        try:
            res = list(ex.ev_list(q, nodes))
            raises = ex._raises
        finally:
            ex._raises = saved
        sub_cache = {}

        def fresh_consts(terms):
            out, seen, todo = {}, set(), list(terms)
            while todo:
                x = todo.pop()
                k = x.get_id()
                if k in seen:
                    continue
                seen.add(k)
                if z3.is_quantifier(x):
                    todo.append(x.body())
                    continue
                if z3.is_const(x) and x.decl().kind() == z3.Z3_OP_UNINTERPRETED:
                    nm = x.decl().name()
                    if "!" in nm:
                        try:
                            n = int(nm.rsplit("!", 1)[1])
                        except ValueError:
                            n = -1
                        if n > cnt0 and (ivar is None or x.get_id() != ivar.get_id()):
                            out[nm] = x
                elif z3.is_app(x):
                    todo.extend(x.children())
            return out

        def skolemise(terms, vals):
            """replace symbols created during the element evaluation by functions of the bound index"""
            if ivar is None:
                return terms, vals
            all_terms = list(terms)
            for v in vals:
                try:
                    all_terms.append(term_of(v) if not isinstance(v, VTuple) else box(v))
                except Exception:
                    pass
            fc = fresh_consts(all_terms)
            if not fc:
                return terms, vals
            pairs = []
            for nm, c in fc.items():
                if nm not in sub_cache:
                    sub_cache[nm] = z3.Function("sk_" + nm, IntS, c.sort())(ivar)
                pairs.append((c, sub_cache[nm]))
            terms2 = [z3.substitute(t, *pairs) for t in terms]
            vals2 = [subst_sv(v, pairs) for v in vals]
            return terms2, vals2

        normals = []
        for r, vs in res:
            if r.heap != p.heap or r.sigma != p.sigma:
                same = all(r.heap.get(k) is v or (k in p.heap and r.heap[k].eq(p.heap[k])) for k, v in r.heap.items()) \
                    and all(r.sigma[k].eq(p.sigma[k]) for k in p.sigma)
                if not same:
                    raise Unsupported("side effect inside comprehension element")
            d = r.pc[base:]
            vs = [ex.deref(r, v) for v in vs]
            d2, vs2 = skolemise(d, vs)
            conds = []
            for c, c2 in zip(d, d2):
                if c.get_id() in r.branch_ids:
                    conds.append(c2)
                    continue
                # a fact holds under the branch decisions taken BEFORE it was established
                guard = z3.And(*conds) if conds else z3.BoolVal(True)
                if ivar is not None:
                    p.assume(z3.ForAll([ivar], z3.Implies(guard, c2)))
                else:
                    p.assume(z3.Implies(guard, c2))
            case = z3.And(*conds) if conds else z3.BoolVal(True)
            normals.append((case, vs2))
        excs = []
        for r, e in raises:
            d = r.pc[base:]
            d2, _ = skolemise(d, [])
            conds = [c2 for c, c2 in zip(d, d2) if c.get_id() in r.branch_ids]
            facts = [c2 for c, c2 in zip(d, d2) if c.get_id() not in r.branch_ids]
            # facts on a raising case stay inside its condition (existentially read by the caller)
            excs.append((z3.And(*(conds + facts)) if (conds or facts) else z3.BoolVal(True), e))
        return normals, excs

    def _merge(self, cases):
        """cases: list of (cond, value) -> ite-merged value."""
        acc = cases[-1][1]
        for c, v in reversed(cases[:-1]):
            acc = ite(c, v, acc)
        return acc

    def _comp_symbolic(self, ex, p, elt, target, it, ifs, consumer, node):
        n = self.iter_len(ex, p, it)
        i = V.fresh("ci", IntS)
        rng = z3.And(i >= 0, i < n)
        direct = None
        if isinstance(it, VIter) and it.kind == "range" and consumer in ("any", "all"):
            lo, hi, st = [x.t for x in it.parts]
            sts = z3.simplify(st)
            if z3.is_int_value(sts) and sts.as_long() == 1 and not z3.is_int_value(z3.simplify(lo)):
                # range(lo, hi) with a symbolic lower bound: quantify over the element itself (lo <= j < hi) instead of an
                # offset, so that instantiation patterns mention the plain index
                rng = z3.And(i >= lo, i < hi)
                direct = VInt(i)

        def bind(q):
            q.assume(rng)
            ex.assign_target(q, target, direct if direct is not None else self.iter_elem(ex, q, it, i))
        nodes = list(ifs) + [elt]
        ex.bound_vars.append(i)
        try:
            normals, excs = self._eval_pointwise(ex, p, nodes, bind, i)
        finally:
            ex.bound_vars.pop()
        # exceptions raised by some element
        if excs and not ex.spec:
            for c, e in excs:
                q = p.fork()
                q.assume(z3.Exists([i], z3.And(rng, c)))
                if ex.feasible(q):
                    ex._raises.append((q, e))
            p.assume(z3.ForAll([i], z3.Implies(rng, z3.Not(z3.Or(*[c for c, _ in excs])))))
        if not normals:
            return
        filt_cases = []
        val_cases = []
        for c, vs in normals:
            f = z3.And(*[ex.truth(p, x) for x in vs[:-1]]) if ifs else z3.BoolVal(True)
            filt_cases.append((c, VBool(f)))
            val_cases.append((c, vs[-1]))
        filt = self._merge(filt_cases).t
        val = self._merge(val_cases)
        if consumer == "any":
            yield p, VBool(z3.Exists([i], z3.And(rng, filt, ex.truth(p, val))))
        elif consumer == "all":
            yield p, VBool(z3.ForAll([i], z3.Implies(z3.And(rng, filt), ex.truth(p, val))))
        elif consumer in ("tuple", "list"):
            if ifs:
                raise Unsupported("filtered comprehension over symbolic sequence at line %s" % node.lineno)
            val = ex.deref(p, val)
            srt = sort_of_sv(val)
            if isinstance(val, VTuple) or srt is Dyn and not isinstance(val, VDyn):
                val = VDyn(box(val))
                srt = Dyn
            if isinstance(it, VSeq) and same_sort(srt, it.elem) and \
                    z3.simplify(term_of(val)).eq(z3.simplify(it.t[i])) and len(normals) == 1:
                # identity map over a sequence: the same sequence (a fresh list object with equal elements)
                res = VSeq(it.t, srt, consumer)
                yield p, (ex.new_cell(p, res) if consumer == "list" else res)
                return
            r = V.fresh("comp", z3.SeqSort(srt.z))
            p.assume(z3.Length(r) == n)
            p.assume(z3.ForAll([i], z3.Implies(rng, r[i] == term_of(val))))
            res = VSeq(r, srt, consumer)
            yield p, (ex.new_cell(p, res) if consumer == "list" else res)
        elif consumer == "sum":
            val = ex.deref(p, val)
            if not isinstance(val, VBool):
                raise Unsupported("sum over symbolic non-boolean comprehension")
            s = V.fresh("cnt", IntS)
            body = z3.And(filt, val.t)
            i2 = V.fresh("ci2", IntS)
            body2 = z3.substitute(body, (i, i2))
            rng2 = z3.And(i2 >= 0, i2 < n)
            p.assume(z3.And(s >= 0, s <= n))
            p.assume((s == 0) == z3.Not(z3.Exists([i], z3.And(rng, body))))
            p.assume((s == 1) == z3.Exists([i], z3.And(rng, body,
                                                       z3.ForAll([i2], z3.Implies(z3.And(rng2, i2 != i), z3.Not(body2))))))
            yield p, VInt(s)
        else:
            raise Unsupported("comprehension consumer %s" % consumer)

    # ------------------------------------------------------------------
    # loops
    # ------------------------------------------------------------------
    def loop_spec(self, ex, p, s):
        fi = p.frame.fi
        loops = [n for n in ast.walk(fi.node) if isinstance(n, (ast.For, ast.While))] if fi.node is not None else []
        loops.sort(key=lambda n: (n.lineno, n.col_offset))
        try:
            ordinal = loops.index(s)
        except ValueError:
            ordinal = None
        c = ex.reg.get(fi.qualname) if fi.qualname != ex.unit else ex.current_contract
        if fi.qualname == ex.unit:
            c = ex.current_contract
        if c is None or ordinal not in c.loops:
            return None, ordinal
        return c.loops[ordinal], ordinal

    def for_loop(self, ex, p, s, it):
        it0 = ex.deref(p, it)
        if isinstance(it0, (VObj, VOpaque, VDyn)):
            for p1, sq in self.to_sequence(ex, p, it0, s):
                yield from self.for_loop(ex, p1, s, sq)
            return
        if s.orelse:
            raise Unsupported("for/else at line %s" % s.lineno)
        if self.is_concrete_iter(ex, p, it0):
            items = self.concrete_items(ex, p, it0)
            paths = [p]
            for x in items:
                nxt = []
                for q in paths:
                    ex.assign_target(q, s.target, x)
                    for o in ex.exec_block(q, s.body):
                        if o.kind in ("next", "continue"):
                            nxt.append(o.path)
                        elif o.kind == "break":
                            yield Outcome("next", o.path)
                        else:
                            yield o
                paths = nxt
            for q in paths:
                yield Outcome("next", q)
            return
        spec, ordinal = self.loop_spec(ex, p, s)
        if spec is None:
            raise Unsupported("loop #%s over symbolic sequence needs an invariant (line %s)" % (ordinal, s.lineno))
        n = self.iter_len(ex, p, it0)
        yield from self._inv_loop(ex, p, s, spec, ordinal, n,
                                  lambda q, k: ex.assign_target(q, s.target, self.iter_elem(ex, q, it0, k)),
                                  None)

    def while_loop(self, ex, p, s):
        if s.orelse:
            raise Unsupported("while/else")
        spec, ordinal = self.loop_spec(ex, p, s)
        if spec is None:
            raise Unsupported("while loop #%s needs an invariant (line %s)" % (ordinal, s.lineno))
        yield from self._inv_loop(ex, p, s, spec, ordinal, None, None, s.test)

    def _inv_env(self, ex, p, kname, k, extra=None):
        """Environment for invariant evaluation: all visible locals (cells dereferenced) + ghost index."""
        env = {}
        if p.frame.fi is not None and getattr(p.frame.fi, "qualname", None) == ex.unit:
            env.update(getattr(ex, "unit_env", {}))          # parameters and `let` names of the unit's contract
        fr = p.frame
        chain = []
        while fr is not None:
            chain.append(fr)
            fr = p.frames[fr.parent] if fr.parent is not None else None
        for fr in reversed(chain):
            for nm, v in fr.vars.items():
                if nm.startswith("__"):
                    continue
                env[nm] = ex.deref(p, v) if isinstance(v, VCell) else v
        if kname:
            env[kname] = VInt(k)
        if extra:
            env.update(extra)
        return env

    def _inv_loop(self, ex, p, s, spec, ordinal, n, bind, test):
        from .contracts import SpecEnv
        kname = spec.get("var", "k")
        invs = spec.get("inv", [])
        if isinstance(invs, str):
            invs = [invs]
        entry = {("entry_" + nm): (ex.deref(p, v) if isinstance(v, VCell) else v)
                 for nm, v in self._inv_env(ex, p, None, None).items()}
        tag = "loop%s" % ordinal
        p_entry = p.fork()          # old(...) inside an invariant denotes the state at loop entry
        # 1. invariant holds initially
        env0 = self._inv_env(ex, p, kname, z3.IntVal(0), entry)
        se = SpecEnv(ex, p, env0, old=p_entry, contract=ex.current_contract)
        for j, inv in enumerate(invs):
            ex.emit("%s/init%d" % (tag, j), p, se.bool(inv, proving=True), "loop-init", dict(text=inv))
        # 2. havoc
        assigned = _assigned_names([s]) - {kname}
        mutated = _mutated_cells(s.body)
        cells_decl = spec.get("cells", {})
        for nm in mutated:
            try:
                v = ex.lookup(p, nm)
            except Unsupported:
                continue
            if isinstance(v, VCell):
                srt = cells_decl.get(nm)
                if srt is None:
                    raise Unsupported("loop %s mutates list %r: declare its element sort in loops[%s]['cells']"
                                      % (tag, nm, ordinal))
                p.cells[v.cid] = VSeq(V.fresh("hv_" + nm, z3.SeqSort(srt.z)), srt, "list")
        var_sorts = spec.get("vars", {})
        for nm in assigned:
            if nm in mutated and isinstance(p.frame.vars.get(nm), VCell):
                continue
            if nm in var_sorts:
                assum = []
                p.frame.vars[nm] = make_symbolic("hv_" + nm, var_sorts[nm], assum)
                for a in assum:
                    p.assume(a)
            elif nm in p.frame.vars and not self._is_loop_target(s, nm):
                raise Unsupported("loop %s assigns %r: declare its sort in loops[%s]['vars']" % (tag, nm, ordinal))
        mods = spec.get("modifies", [])
        ex.havoc(p, mods)
        k = V.fresh(kname, IntS)
        p.assume(k >= 0)
        if n is not None:
            p.assume(k <= n)
        envk = self._inv_env(ex, p, kname, k, entry)
        sek = SpecEnv(ex, p, envk, old=p_entry, contract=ex.current_contract)
        for inv in invs:
            p.assume(sek.bool(inv))
        # 3. exit path
        pexit = p.fork()
        # 4. arbitrary iteration
        body_paths = []
        if n is not None:
            p.assume(k < n)
            if ex.feasible(p):
                bind(p, k)
                body_paths = [p]
            pexit.assume(k == n)
        else:
            for p1, c in list(ex.ev(p, test)):
                for p2, tv in ex.truth_paths(p1, c):
                    if tv:
                        body_paths.append(p2)
            for p1, c in list(ex.ev(pexit, test)):
                for p2, tv in ex.truth_paths(p1, c):
                    if not tv:
                        yield Outcome("next", p2)
        for bp in body_paths:
            h0, s0 = dict(bp.heap), dict(bp.sigma)
            if spec.get("reveal"):
                envb = self._inv_env(ex, bp, kname, k, entry)
                seb = SpecEnv(ex, bp, envb, old=p_entry, contract=ex.current_contract)
                for hint in spec["reveal"]:
                    seb.value(hint)        # evaluation adds the instance definitions of opaque spec functions
            for o in ex.exec_block(bp, s.body):
                if o.kind in ("next", "continue"):
                    q = o.path
                    if not mods:
                        for kk in q.sigma:
                            if kk in s0 and not q.sigma[kk].eq(s0[kk]):
                                raise Unsupported("loop %s modifies store %s: declare loops[%s]['modifies']" % (tag, kk, ordinal))
                    env1 = self._inv_env(ex, q, kname, k + 1, entry)
                    se1 = SpecEnv(ex, q, env1, old=p_entry, contract=ex.current_contract)
                    for j, inv in enumerate(invs):
                        ex.emit("%s/preserve%d" % (tag, j), q, se1.bool(inv, proving=True), "loop-preserve", dict(text=inv))
                elif o.kind == "break":
                    yield Outcome("next", o.path)
                else:
                    yield o
        if n is not None and ex.feasible(pexit):
            yield Outcome("next", pexit)

    def _is_loop_target(self, s, nm):
        if isinstance(s, ast.For):
            return nm in {n.id for n in ast.walk(s.target) if isinstance(n, ast.Name)}
        return False

    def with_stmt(self, ex, p, s):
        raise Unsupported("with statement at line %s" % s.lineno)
