"""Object model, attribute access, builtin and library functions."""
import ast
import z3

from .vals import *      # noqa: F401,F403
from . import vals as V
from .symexec import Unsupported, Outcome, Frame
from .ops import OpsMixin, slice_indices, range_len
from .loops import LoopsMixin

BUILTIN_CLASSES = {
    "int", "float", "str", "bytes", "bool", "tuple", "list", "dict", "slice", "type", "object",
    "Integral", "Number", "Real", "Sequence", "Iterable", "Enum",
}
BUILTIN_FUNCS = {
    "len", "abs", "min", "max", "isinstance", "hasattr", "range", "enumerate", "zip", "any", "all",
    "sum", "super", "print", "map", "sorted", "hash", "getattr", "issubclass", "id", "repr", "format",
}


LIBCONST = V.Interner()


def lib_const(name):
    return VOpaque(z3.IntVal(-LIBCONST.id(name)), name)


class Builtins(OpsMixin, LoopsMixin):

    def __init__(self, reg):
        self.reg = reg
        self.enum_loaded = False

    # ------------------------------------------------------------------
    # enums from the repository
    # ------------------------------------------------------------------
    def load_enums(self, repo):
        for cname, ci in repo.classes.items():
            if not ci.is_enum:
                continue
            members, values, alias = [], [], {}
            for nm, node in ci.consts.items():
                if not isinstance(node, ast.Constant):
                    continue
                if node.value in values:
                    alias[nm] = values.index(node.value)
                else:
                    alias[nm] = len(members)
                    members.append(nm)
                    values.append(node.value)
            V.ENUM_MEMBERS[cname] = members
            V.ENUMS.id(cname)
            ci.enum_values = values
            ci.enum_alias = alias

    def enum_member(self, repo, cname, attr):
        ci = repo.classes[cname]
        if attr in getattr(ci, "enum_alias", {}):
            return VEnum(cname, ci.enum_alias[attr])
        return None

    # ------------------------------------------------------------------
    # names
    # ------------------------------------------------------------------
    def global_name(self, ex, name):
        sc = getattr(ex.reg, "spec_consts", None)
        if sc and name in sc and ex.spec:
            return sc[name]
        if name in ex.reg.specfuncs and ex.spec:
            return VFunc("spec", name, ex.reg.specfuncs[name])
        if name in BUILTIN_CLASSES:
            return VClass([name])
        if name in BUILTIN_FUNCS:
            return VFunc("builtin", name)
        if name in ex.repo.exc_parent:
            return VClass([name])
        if name == "Ellipsis":
            return ELLIPSIS
        if name in ex.reg.specfuncs:
            return VFunc("spec", name, ex.reg.specfuncs[name])
        if name in ex.repo.classes and ex.spec:
            return VClass([name])
        return None

    LIB_MODULES = {"numpy": "np", "np": "np", "h5py": "h5py", "os": "os", "gc": "gc", "re": "re", "six": "six",
                   "warnings": "warnings", "sys": "sys", "uuid": "uuid", "datetime": "datetime",
                   "numbers": "numbers", "collections": "collections", "collections.abc": "collections",
                   "enum": "enum", "packaging": "packaging"}

    def library_name(self, ex, mod, attr):
        if mod in ("numbers", "collections.abc", "collections", "enum") and attr in BUILTIN_CLASSES:
            return VClass([attr])
        if mod == "sys" and attr == "maxsize":
            return VInt(V_MAXSIZE)
        key = self.LIB_MODULES.get(mod, mod)
        full = "%s.%s" % (key, attr)
        if full in self.LIB_CLASSES:
            return VClass([full])
        if ex.reg.get(full) is not None or full in self.table:
            return VFunc("builtin", full)
        if full in self.LIB_SUBMODULES:
            return VModule(full)
        if full in self.LIB_CLASSES:
            return VClass([full])
        return lib_const(full)

    LIB_SUBMODULES = {"h5py.h5f", "h5py.h5p", "h5py.h5g", "h5py.h5", "np.polynomial", "np.polynomial.polynomial",
                      "os.path"}
    LIB_CLASSES = {"h5py.Group", "h5py.Dataset", "h5py.File", "uuid.UUID", "datetime.datetime", "np.ndarray",
                   "np.str_", "np.bool_", "np.bytes_", "np.string_"}

    def const_override(self, ex, qual, node):
        f = ex.reg.specfuncs.get("const:" + qual)
        if f is not None:
            return f(ex)
        return None

    # ------------------------------------------------------------------
    # attribute access
    # ------------------------------------------------------------------
    def field_sort(self, ex, cls, attr, undeclared_ok=False):
        for c in ex.repo.mro(cls) or [cls]:
            flds = ex.reg.classes.get(c)
            if flds and attr in flds:
                return flds[attr]
        flds = ex.reg.classes.get(cls)
        if flds and attr in flds:
            return flds[attr]
        if undeclared_ok and cls in ex.repo.classes and attr.startswith("_") and not attr.startswith("__"):
            # a private instance field the contracts do not know (e.g. added by a later change): an unconstrained
            # dynamic value per object; it is outside every frame condition
            ex.undeclared_fields.add(attr)
            return Dyn
        return None

    def heap_array(self, p, attr, sort):
        if attr not in p.heap:
            p.heap[attr] = z3.Const("heap0_" + attr, z3.ArraySort(IntS, sort.z))
        return p.heap[attr]

    def getattr(self, ex, p, v, attr, node):
        if isinstance(v, VCell) and isinstance(ex.deref(p, v), (VTuple, VSeq)):
            yield p, VFunc("builtin", "method:" + attr, self_val=v)
            return
        v = ex.deref(p, v)
        if isinstance(v, VDyn):
            for p1, v1 in ex.narrow(p, v):
                if isinstance(v1, VDyn):
                    raise Unsupported("attribute .%s of dynamic value at line %s" % (attr, getattr(node, "lineno", "?")))
                yield from self.getattr(ex, p1, v1, attr, node)
            return
        if isinstance(v, VModule):
            r = ex.module_attr(p, v.name, attr)
            if r is None:
                raise Unsupported("module attribute %s.%s" % (v.name, attr))
            yield p, r
            return
        if isinstance(v, VSuper):
            kind, ci, pay = ex.repo.find_member(v.obj.cls, attr, after=v.after)
            if kind == "method":
                yield p, self.bind_method(v.obj, pay)
                return
            if kind == "property":
                yield from ex.call_function(p, ci.getters[attr], [], {}, node, self_val=v.obj)
                return
            raise Unsupported("super().%s" % attr)
        if isinstance(v, VObj) and attr == "__dict__":
            yield p, VFunc("builtin", "objdict", self_val=v)          # only `.get(name[, default])` is modelled
            return
        if isinstance(v, VFunc) and v.kind == "builtin" and v.name == "objdict" and attr == "get":
            yield p, VFunc("builtin", "objdict.get", self_val=v.self_val)
            return
        if isinstance(v, VObj):
            if v.cls in ex.repo.classes:
                kind, ci, pay = ex.repo.find_member(v.cls, attr)
                if kind == "property":
                    yield from ex.call_function(p, ci.getters[attr], [], {}, node, self_val=v)
                    return
                if kind == "method":
                    yield p, self.bind_method(v, pay)
                    return
                srt = self.field_sort(ex, v.cls, attr, undeclared_ok=(kind is None))
                if srt is not None:
                    arr = self.heap_array(p, attr, srt)
                    r = term_to_elem(arr[v.t], srt)
                    if isinstance(srt, Obj):
                        p.assume(arr[v.t] > 0)
                    if isinstance(srt, Opt):
                        p.assume(is_sort_cond(arr[v.t], srt))
                    yield p, r
                    return
                if kind == "const":
                    yield p, ex.eval_const(p, ci.module, pay, "%s.%s" % (ci.name, attr))
                    return
            c = ex.reg.get("%s.%s" % (v.cls, attr))
            if c is not None:
                if c.note == "property":
                    yield from ex.apply_contract(p, c, [], {}, node, self_val=v)
                else:
                    yield p, VFunc("contract", c.qualname, c, self_val=v)
                return
            raise Unsupported("attribute %s.%s at line %s" % (v.cls, attr, getattr(node, "lineno", "?")))
        if isinstance(v, VClass):
            yield from self.class_attr(ex, p, v, attr, node)
            return
        if isinstance(v, VSlice):
            fn = {"start": SliceDT.sl_start, "stop": SliceDT.sl_stop, "step": SliceDT.sl_step}.get(attr)
            if fn is not None:
                yield p, opti_to_sv(fn(v.t))
                return
            if attr == "indices":
                yield p, VFunc("builtin", "slice.indices", self_val=v)
                return
        if isinstance(v, VEnum):
            ci = ex.repo.classes[v.name]
            if attr == "value":
                vals = ci.enum_values
                acc = self.const_sv(vals[-1])
                for k in range(len(vals) - 2, -1, -1):
                    acc = ite(v.t == k, self.const_sv(vals[k]), acc)
                yield p, acc
                return
            if attr == "name":
                yield p, VStr(V.fresh("ename", StrS))
                return
            m = self.enum_member(ex.repo, v.name, attr)
            if m is not None:
                yield p, m
                return
            kind, ci2, pay = ex.repo.find_member(v.name, attr)
            if kind == "method":
                yield p, self.bind_method(v, pay)
                return
        if isinstance(v, (VTuple, VSeq, VStr, VCell)) or isinstance(ex.deref(p, v), (VTuple, VSeq)):
            yield p, VFunc("builtin", "method:" + attr, self_val=v)
            return
        if type(v).__name__ == "VRegex" and attr in ("match", "search"):
            yield p, VFunc("builtin", "regex." + attr, self_val=v)
            return
        if type(v).__name__ == "VMatch":
            if attr == "group":
                yield p, VFunc("builtin", "match.group", self_val=v)
                return
            if attr == "string":
                yield p, v.subject
                return
        if isinstance(v, VExc):
            if attr == "message":
                yield p, VStr(V.fresh("msg", StrS))
                return
        if isinstance(v, VOpaque):
            yield from self.opaque_getattr(ex, p, v, attr, node)
            return
        if isinstance(v, VFunc) and attr in ("__func__", "__doc__", "__name__"):
            yield p, v
            return
        raise Unsupported("attribute .%s of %r at line %s" % (attr, v, getattr(node, "lineno", "?")))

    def const_sv(self, x):
        if isinstance(x, bool):
            return VBool(x)
        if isinstance(x, int):
            return VInt(x)
        if isinstance(x, float):
            return VReal(x)
        if isinstance(x, str):
            return VStr(x)
        if x is None:
            return NONE
        raise Unsupported("constant %r" % (x,))

    def bind_method(self, obj, fi):
        if fi.kind == "staticmethod":
            return VFunc("def", fi.qualname, fi)
        if fi.kind == "classmethod":
            cls = obj.cls if isinstance(obj, VObj) else (obj.names[0] if isinstance(obj, VClass) else obj.name)
            return VFunc("def", fi.qualname, fi, self_val=VClass([cls]))
        return VFunc("def", fi.qualname, fi, self_val=obj)

    def class_attr(self, ex, p, v, attr, node):
        cname = v.names[0]
        if cname in ex.repo.classes:
            ci = ex.repo.classes[cname]
            if ci.is_enum:
                m = self.enum_member(ex.repo, cname, attr)
                if m is not None:
                    yield p, m
                    return
            kind, ci2, pay = ex.repo.find_member(cname, attr)
            if kind == "method":
                if pay.kind == "method":
                    yield p, VFunc("def", pay.qualname, pay)          # unbound
                else:
                    yield p, self.bind_method(v, pay)
                return
            if kind == "const":
                yield p, ex.eval_const(p, ci2.module, pay, "%s.%s" % (ci2.name, attr))
                return
            if attr == "__name__":
                yield p, VStr(cname)
                return
        if cname in self.LIB_CLASSES or "." in cname:
            full = "%s.%s" % (cname, attr)
            if ex.reg.get(full) is not None or full in self.table:
                yield p, VFunc("builtin", full)
                return
        if attr == "__name__":
            yield p, VStr(cname)
            return
        raise Unsupported("class attribute %s.%s at line %s" % (cname, attr, getattr(node, "lineno", "?")))

    def setattr(self, ex, p, obj, attr, v, node):
        obj = ex.deref(p, obj)
        if isinstance(obj, VObj) and obj.cls in ex.repo.classes:
            kind, ci, pay = ex.repo.find_member(obj.cls, attr)
            if kind == "property":
                # setter through the MRO
                for c in ex.repo.mro(obj.cls):
                    if attr in ex.repo.classes[c].setters:
                        fi = ex.repo.classes[c].setters[attr]
                        out = []
                        for p1, _ in ex.call_function(p, fi, [v], {}, node, self_val=obj):
                            out.append(p1)
                        return out
                if not ex.spec:
                    ex.raise_(p, "AttributeError", node)
                return []
            srt = self.field_sort(ex, obj.cls, attr, undeclared_ok=True)
            if srt is None:
                raise Unsupported("assignment to undeclared field %s.%s at line %s" % (obj.cls, attr, node.lineno))
            arr = self.heap_array(p, attr, srt)
            val = ex.coerce_to(p, v, srt, "%s.%s" % (obj.cls, attr))
            p.heap[attr] = z3.Store(arr, obj.t, elem_to_term(val, srt) if not isinstance(val, VDyn) else val.t)
            return [p]
        if isinstance(obj, VOpaque):
            c = self.opaque_contract(ex, obj, attr + ".setter")
            if c is not None:
                out = []
                for p1, newv in ex.apply_contract(p, c, [v], {}, node, self_val=obj):
                    self.rebind_aliases(ex, p1, obj, newv)
                    out.append(p1)
                return out
            return [p]          # attribute on a library object without a contract: no modelled effect
        if isinstance(obj, VFunc):
            return [p]          # function attribute (__doc__): no modelled effect
        raise Unsupported("attribute assignment on %r at line %s" % (obj, node.lineno))

    def delattr(self, ex, p, obj, attr, node):
        obj = ex.deref(p, obj)
        if isinstance(obj, VObj) and obj.cls in ex.repo.classes:
            for c in ex.repo.mro(obj.cls):
                if attr in ex.repo.classes[c].deleters:
                    fi = ex.repo.classes[c].deleters[attr]
                    return [p1 for p1, _ in ex.call_function(p, fi, [], {}, node, self_val=obj)]
        raise Unsupported("del attribute %s" % attr)

    # ------------------------------------------------------------------
    # dunder dispatch on repository objects
    # ------------------------------------------------------------------
    def _dunder(self, ex, p, obj, name, args, node):
        if obj.cls in ex.repo.classes:
            kind, ci, fi = ex.repo.find_member(obj.cls, name)
            if kind == "method":
                yield from ex.call_function(p, fi, args, {}, node, self_val=obj)
                return
        c = ex.reg.get("%s.%s" % (obj.cls, name))
        if c is not None:
            yield from ex.apply_contract(p, c, args, {}, node, self_val=obj)
            return
        raise Unsupported("%s.%s not available at line %s" % (obj.cls, name, getattr(node, "lineno", "?")))

    def has_dunder(self, ex, obj, name):
        if obj.cls in ex.repo.classes and ex.repo.find_member(obj.cls, name)[0] == "method":
            return True
        return ex.reg.get("%s.%s" % (obj.cls, name)) is not None

    def obj_contains(self, ex, p, c, item, node):
        for p1, r in self._dunder(ex, p, c, "__contains__", [item], node):
            yield p1, ex.truth(p1, r)

    def obj_getitem(self, ex, p, v, idx, node):
        yield from self._dunder(ex, p, v, "__getitem__", [idx], node)

    def obj_truth(self, ex, p, v):
        if self.has_dunder(ex, v, "__bool__") or self.has_dunder(ex, v, "__len__"):
            if ex.spec:
                f = z3.Function("truth_" + v.cls, IntS, BoolS)
                return f(v.t)
            raise Unsupported("truthiness of %s needs a call" % v.cls)
        return z3.BoolVal(True)

    def obj_truth_paths(self, ex, p, v):
        if self.has_dunder(ex, v, "__bool__"):
            for p1, r in self._dunder(ex, p, v, "__bool__", [], None):
                yield p1, ex.truth(p1, r)
        elif self.has_dunder(ex, v, "__len__"):
            for p1, r in self._dunder(ex, p, v, "__len__", [], None):
                yield p1, ex.truth(p1, r)
        else:
            yield p, z3.BoolVal(True)

    OPAQUE_TRUTH = z3.Function("opaque_truth", IntS, BoolS)

    def opaque_truth(self, ex, p, v):
        return self.OPAQUE_TRUTH(v.t)

    def opaque_truth_term(self, t):
        return self.OPAQUE_TRUTH(t)

    def opaque_contract(self, ex, v, attr):
        c = ex.reg.get("opaque:%s.%s" % (v.tag, attr)) if getattr(v, "tag", "") else None
        return c if c is not None else ex.reg.get("opaque.%s" % attr)

    def opaque_getattr(self, ex, p, v, attr, node):
        c = self.opaque_contract(ex, v, attr)
        if c is not None:
            if c.note == "property":
                yield from ex.apply_contract(p, c, [], {}, node, self_val=v)
            else:
                yield p, VFunc("contract", c.qualname, c, self_val=v)
            return
        if attr in ("__name__", "__qualname__", "__doc__"):
            yield p, VStr(V.fresh("pyname", StrS))          # text used in messages only
            return
        if attr.startswith("set_"):
            # configuration method of a library object without a contract: the object is updated in place to an
            # unknown state (sound over-approximation); anything a contract says about it afterwards must be re-proved
            yield p, VFunc("builtin", "opaque.unknown_setter", self_val=v)
            return
        raise Unsupported("attribute .%s of opaque %s at line %s" % (attr, v.tag, getattr(node, "lineno", "?")))

    def opaque_getitem(self, ex, p, v, idx, node):
        c = self.opaque_contract(ex, v, "__getitem__")
        if c is None:
            raise Unsupported("subscript of opaque value at line %s" % getattr(node, "lineno", "?"))
        yield from ex.apply_contract(p, c, [idx], {}, node, self_val=v)

    def setitem(self, ex, p, obj, idx, v, node):
        obj0 = obj
        obj = ex.deref(p, obj)
        if isinstance(obj0, VCell):
            if isinstance(obj, VTuple) and isinstance(idx, VInt):
                it = z3.simplify(idx.t)
                if z3.is_int_value(it) and -len(obj.items) <= it.as_long() < len(obj.items):
                    items = list(obj.items)
                    items[it.as_long()] = v
                    p.cells[obj0.cid] = VTuple(items, obj.kind)
                    return [p]
            if isinstance(idx, VInt):
                s = tuple_to_seq(obj) if isinstance(obj, VTuple) else obj
                try:
                    vt = elem_to_term(ex.deref(p, v), s.elem)
                except TypeError:
                    s = ex.coerce_to(p, s, SeqOf(Dyn))
                    vt = box(ex.deref(p, v))
                n = z3.Length(s.t)
                out = []
                for p1, ok in ex.branch(p, z3.And(idx.t >= -n, idx.t < n)):
                    if ok:
                        k = z3.If(idx.t < 0, idx.t + n, idx.t)
                        r = V.fresh("upd", s.t.sort())
                        j = V.fresh("j", IntS)
                        p1.assume(z3.Length(r) == n)
                        p1.assume(r[k] == vt)
                        p1.assume(z3.ForAll([j], z3.Implies(z3.And(j >= 0, j < n, j != k), r[j] == s.t[j])))
                        p1.cells[obj0.cid] = VSeq(r, s.elem, s.kind)
                        out.append(p1)
                    else:
                        ex.raise_(p1, "IndexError", node)
                return out
            raise Unsupported("list item assignment at line %s" % node.lineno)
        if isinstance(obj, VObj):
            return [p1 for p1, _ in self._dunder(ex, p, obj, "__setitem__", [idx, v], node)]
        if isinstance(obj, VOpaque):
            c = self.opaque_contract(ex, obj, "__setitem__")
            if c is not None:
                out = []
                for p1, newv in ex.apply_contract(p, c, [idx, v], {}, node, self_val=obj):
                    if not isinstance(newv, VNone):
                        self.rebind_aliases(ex, p1, obj, newv)     # in-place update of a library array
                    out.append(p1)
                return out
        raise Unsupported("item assignment on %r at line %s" % (obj, node.lineno))

    def rebind_aliases(self, ex, p, old, new):
        """In-place mutation of a library array (ndarray): every local name (in any frame) and list cell element
        bound to the same array value now denotes the updated value. Encoding assumption: arrays mutated in place
        are not reachable through object fields."""
        new = ex.deref(p, new)

        def same(v):
            return isinstance(v, (VOpaque, VDyn)) and isinstance(old, (VOpaque, VDyn)) and \
                z3.simplify(box(v)).eq(z3.simplify(box(old)))
        for fr in p.frames:
            for nm, v in list(fr.vars.items()):
                if isinstance(v, SV) and same(v):
                    fr.vars[nm] = new

    def delitem(self, ex, p, obj, idx, node):
        obj = ex.deref(p, obj)
        if isinstance(obj, VObj):
            return [p1 for p1, _ in self._dunder(ex, p, obj, "__delitem__", [idx], node)]
        if isinstance(obj, VOpaque):
            c = self.opaque_contract(ex, obj, "__delitem__")
            if c is not None:
                return [p1 for p1, _ in ex.apply_contract(p, c, [idx], {}, node, self_val=obj)]
        raise Unsupported("del item on %r at line %s" % (obj, node.lineno))

    # ------------------------------------------------------------------
    # construction
    # ------------------------------------------------------------------
    def construct(self, ex, p, cls, args, kwargs, node):
        name = cls.names[0]
        if name in ex.repo.exc_parent:
            yield p, VExc(name, tuple(args), getattr(node, "lineno", None))
            return
        if name in self.conversions:
            yield from self.conversions[name](self, ex, p, args, kwargs, node)
            return
        if name in ex.repo.classes:
            ci = ex.repo.classes[name]
            if ci.is_enum:
                yield from self.enum_by_value(ex, p, name, args[0], node)
                return
            c = ex.reg.get("%s.%s.__new__" % (ci.module, name))
            if c is not None:
                yield from ex.apply_contract(p, c, args, kwargs, node)
                return
            ref = p.frontier
            p.alloc += 1
            obj = VObj(ref, name)
            kind, ci2, fi = ex.repo.find_member(name, "__init__")
            if kind != "method":
                yield p, obj
                return
            for p1, _ in ex.call_function(p, fi, args, kwargs, node, self_val=obj):
                yield p1, obj
            return
        full = name
        c = ex.reg.get(full + ".__new__") or ex.reg.get(full)
        if c is not None:
            yield from ex.apply_contract(p, c, args, kwargs, node)
            return
        raise Unsupported("construction of %s at line %s" % (name, getattr(node, "lineno", "?")))

    def enum_by_value(self, ex, p, ename, v, node):
        ci = ex.repo.classes[ename]
        v = ex.deref(p, v)
        if isinstance(v, VEnum) and v.name == ename:
            yield p, v
            return
        hit = z3.BoolVal(False)
        idx = z3.IntVal(-1)
        for k in range(len(ci.enum_values) - 1, -1, -1):
            e = list(self.equal(ex, p, v, self.const_sv(ci.enum_values[k]), node))[0][1]
            hit = z3.Or(hit, e)
            idx = z3.If(e, k, idx)
        if ex.spec:
            yield p, VEnum(ename, idx)
            return
        for p1, ok in ex.branch(p, hit):
            if ok:
                yield p1, VEnum(ename, idx)
            else:
                ex.raise_(p1, "ValueError", node)

    # conversions: int(), float(), str(), tuple(), list(), slice(), bool(), dict(), type()
    def _conv_int(self, ex, p, args, kwargs, node):
        v = ex.deref(p, args[0])
        for p1, v1 in ex.narrow(p, v):
            if isinstance(v1, VInt):
                yield p1, v1
            elif isinstance(v1, VBool):
                yield p1, VInt(z3.If(v1.t, 1, 0))
            elif isinstance(v1, VReal):
                # truncation towards zero
                fl = z3.ToInt(v1.t)
                yield p1, VInt(z3.If(v1.t >= 0, fl, z3.If(z3.ToReal(fl) == v1.t, fl, fl + 1)))
            elif isinstance(v1, VStr):
                c = ex.reg.get("builtins.int_of_str")
                if c is None:
                    raise Unsupported("int(str)")
                yield from ex.apply_contract(p1, c, [v1], {}, node)
            elif isinstance(v1, VOpaque):
                c = ex.reg.get("opaque.__int__")
                if c is None:
                    raise Unsupported("int(opaque)")
                yield from ex.apply_contract(p1, c, [], {}, node, self_val=v1)
            else:
                raise Unsupported("int(%r)" % (v1,))

    def _conv_float(self, ex, p, args, kwargs, node):
        for p1, v1 in ex.narrow(p, ex.deref(p, args[0])):
            if isinstance(v1, (VInt, VBool, VReal)):
                yield p1, VReal(to_real(v1))
            else:
                raise Unsupported("float(%r)" % (v1,))

    def _conv_bool(self, ex, p, args, kwargs, node):
        yield p, VBool(ex.truth(p, args[0]))

    def _conv_str(self, ex, p, args, kwargs, node):
        v = ex.deref(p, args[0])
        if isinstance(v, VStr) and not v.is_bytes:
            yield p, v
            return
        if isinstance(v, VDyn):
            f = z3.Function("py_str", Val, StrS)
            p.assume(z3.Implies(Val.is_VStr(v.t), f(v.t) == Val.s(v.t)))
            yield p, VStr(f(v.t))
            return
        if isinstance(v, VInt):
            yield p, VStr(z3.If(v.t >= 0, z3.IntToStr(v.t), z3.Concat(z3.StringVal("-"), z3.IntToStr(-v.t))))
            return
        f = z3.Function("py_str", Val, StrS)
        try:
            yield p, VStr(f(box(v)))
        except TypeError:
            yield p, VStr(V.fresh("str", StrS))

    def _conv_tuple(self, ex, p, args, kwargs, node, kind="tuple"):
        if not args:
            r = VTuple([], kind)
            yield p, (ex.new_cell(p, r) if kind == "list" else r)
            return
        v = ex.deref(p, args[0])
        for p1, v1 in ex.narrow(p, v):
            for p2, r in self.to_sequence(ex, p1, v1, node):
                r = VTuple(r.items, kind) if isinstance(r, VTuple) else VSeq(r.t, r.elem, kind)
                yield p2, (ex.new_cell(p2, r) if kind == "list" else r)

    def _conv_list(self, ex, p, args, kwargs, node):
        yield from self._conv_tuple(ex, p, args, kwargs, node, "list")

    def to_sequence(self, ex, p, v, node):
        """Materialise an iterable as VTuple/VSeq."""
        v = ex.deref(p, v)
        if isinstance(v, (VTuple, VSeq)):
            yield p, v
        elif isinstance(v, VIter):
            yield from self.iter_to_seq(ex, p, v, node)
        elif isinstance(v, VObj):
            for p1, r in self._dunder(ex, p, v, "__iter__", [], node):
                yield from self.to_sequence(ex, p1, r, node)
        elif isinstance(v, VOpaque):
            c = ex.reg.get("opaque.__iter__")
            if c is None:
                raise Unsupported("iteration over opaque value at line %s" % getattr(node, "lineno", "?"))
            yield from ex.apply_contract(p, c, [], {}, node, self_val=v)
        elif isinstance(v, VDyn):
            for p1, v1 in ex.narrow(p, v):
                if isinstance(v1, VDyn):
                    raise Unsupported("iteration over dynamic value")
                yield from self.to_sequence(ex, p1, v1, node)
        elif isinstance(v, VStr):
            raise Unsupported("iteration over string")
        else:
            if ex.spec:
                raise Unsupported("iteration over %r" % (v,))
            ex.raise_(p, "TypeError", node)

    def _conv_slice(self, ex, p, args, kwargs, node):
        a = [ex._opt_int(p, x) for x in args]
        if len(a) == 1:
            yield p, VSlice.make(NONE, a[0], NONE)
        elif len(a) == 2:
            yield p, VSlice.make(a[0], a[1], NONE)
        elif len(a) == 3:
            yield p, VSlice.make(a[0], a[1], a[2])
        else:
            raise Unsupported("slice arity")

    def _conv_dict(self, ex, p, args, kwargs, node):
        yield p, VDict([(VStr(k), v) for k, v in kwargs.items()])

    def _conv_type(self, ex, p, args, kwargs, node):
        v = ex.deref(p, args[0])
        if isinstance(v, VObj):
            yield p, VClass([v.cls])
        else:
            c = VClass(["?typeof"])
            try:
                c.of = box(v)          # type(v) of a plain value: usable in isinstance(x, type(v))
            except TypeError:
                c = VClass(["?type"])
            yield p, c

    conversions = {"int": _conv_int, "float": _conv_float, "bool": _conv_bool, "str": _conv_str,
                   "tuple": _conv_tuple, "list": _conv_list, "slice": _conv_slice, "dict": _conv_dict,
                   "type": _conv_type}

    # ------------------------------------------------------------------
    # builtin functions and methods
    # ------------------------------------------------------------------
    def call_builtin(self, ex, p, f, args, kwargs, node):
        name = f.name
        if name.startswith("method:"):
            yield from self.call_method(ex, p, f.self_val, name[7:], args, kwargs, node)
            return
        if name in self.table:
            yield from self.table[name](self, ex, p, args, kwargs, node, f)
            return
        c = ex.reg.get(name)
        if c is not None:
            yield from ex.apply_contract(p, c, args, kwargs, node, self_val=f.self_val)
            return
        raise Unsupported("builtin %s at line %s" % (name, getattr(node, "lineno", "?")))

    def seq_len(self, ex, p, v):
        v = ex.deref(p, v)
        if isinstance(v, VTuple):
            return z3.IntVal(len(v.items))
        if isinstance(v, VSeq):
            return z3.Length(v.t)
        if isinstance(v, VStr):
            return z3.Length(v.t)
        if isinstance(v, VIter):
            return self.iter_len(ex, p, v)
        if isinstance(v, VDict):
            return z3.IntVal(len(v.items))
        return None

    def b_len(self, ex, p, args, kwargs, node, f):
        v = ex.deref(p, args[0])
        for p1, v1 in ex.narrow(p, v):
            n = self.seq_len(ex, p1, v1)
            if n is not None:
                yield p1, VInt(n)
            elif isinstance(v1, VObj):
                for p2, r in self._dunder(ex, p1, v1, "__len__", [], node):
                    yield p2, r
            elif isinstance(v1, VOpaque):
                c = ex.reg.get("opaque.__len__")
                if c is None:
                    raise Unsupported("len(opaque) at line %s" % getattr(node, "lineno", "?"))
                yield from ex.apply_contract(p1, c, [], {}, node, self_val=v1)
            elif ex.spec:
                raise Unsupported("len(%r)" % (v1,))
            else:
                ex.raise_(p1, "TypeError", node)

    def b_abs(self, ex, p, args, kwargs, node, f):
        for p1, v in ex.narrow(p, args[0]):
            if isinstance(v, VInt):
                yield p1, VInt(z3.If(v.t >= 0, v.t, -v.t))
            else:
                t = to_real(v)
                yield p1, VReal(z3.If(t >= 0, t, -t))

    def b_minmax(self, ex, p, args, kwargs, node, f):
        is_min = f.name == "min"
        items = args
        if len(args) == 1:
            s = ex.deref(p, args[0])
            if isinstance(s, VTuple):
                items = s.items
            elif isinstance(s, VSeq) and s.elem in (Int, Real):
                # max of a symbolic sequence: fresh m with the defining axioms
                n = z3.Length(s.t)
                out = []
                for p1, empty in ex.branch(p, n == 0):
                    if empty:
                        if ex.spec:
                            continue
                        ex.raise_(p1, "ValueError", node)
                    else:
                        m = V.fresh("m", s.elem.z)
                        j, w = V.fresh("j", IntS), V.fresh("w", IntS)
                        p1.assume(z3.And(w >= 0, w < n, s.t[w] == m))
                        p1.assume(z3.ForAll([j], z3.Implies(z3.And(j >= 0, j < n),
                                                            (s.t[j] >= m) if is_min else (s.t[j] <= m))))
                        out.append((p1, term_to_elem(m, s.elem)))
                yield from out
                return
            else:
                raise Unsupported("min/max of %r" % (s,))
        acc = items[0]
        for x in items[1:]:
            a, b = list(ex.narrow(p, acc))[0][1], list(ex.narrow(p, x))[0][1]
            kind, ta, tb = self.num_pair(a, b)
            c = (tb < ta) if is_min else (tb > ta)
            acc = ite(c, b, a) if kind == "int" else VReal(z3.If(c, tb, ta))
        yield p, acc

    NUMERIC_CLASSES = {"int": ("VInt", "VBool"), "Integral": ("VInt", "VBool"), "float": ("VReal",),
                       "Number": ("VInt", "VBool", "VReal"), "Real": ("VInt", "VBool", "VReal"),
                       "bool": ("VBool",), "str": ("VStr",), "bytes": ("VBytes",), "slice": ("VSliceV",),
                       "np.bool_": ("VBool",), "np.str_": (), "np.ndarray": ("VOpaque",), "type": ("VClass",), "np.void": ()}

    def isinstance_cond(self, ex, p, v, names):
        """z3 Bool: isinstance(v, any of names)."""
        v = ex.deref(p, v)
        if isinstance(v, VDyn):
            t = v.t
            acc = z3.BoolVal(False)
            for nm in names:
                if nm in self.NUMERIC_CLASSES:
                    for cn in self.NUMERIC_CLASSES[nm]:
                        acc = z3.Or(acc, getattr(Val, "is_" + cn)(t))
                elif nm in ("tuple", "list", "Sequence", "Iterable"):
                    acc = z3.Or(acc, Val.is_VIntSeq(t), Val.is_VRealSeq(t), Val.is_VStrSeq(t), Val.is_VValSeq(t), Val.is_VSliceSeq(t))
                    if nm in ("Sequence", "Iterable"):
                        acc = z3.Or(acc, Val.is_VStr(t), Val.is_VBytes(t))
                    if nm == "Iterable":
                        acc = z3.Or(acc, z3.And(Val.is_VOpaque(t), self.OPAQUE_ITERABLE(Val.ok(t))))
                elif nm in ex.repo.classes:
                    subs = [c for c in ex.repo.classes if ex.repo.is_subclass(c, nm)]
                    acc = z3.Or(acc, z3.And(Val.is_VObj(t), z3.Or(*[Val.cls(t) == V.CLASSES.id(c) for c in subs])))
                elif nm == "object":
                    acc = z3.BoolVal(True)
                elif nm == "Enum":
                    acc = z3.Or(acc, Val.is_VEnum(t))
                else:
                    raise Unsupported("isinstance(dyn, %s)" % nm)
            return acc
        tag = {VInt: "VInt", VReal: "VReal", VBool: "VBool", VSlice: "VSliceV"}.get(type(v))
        if isinstance(v, VStr):
            tag = "VBytes" if v.is_bytes else "VStr"
        res = False
        for nm in names:
            if nm in self.NUMERIC_CLASSES and tag in self.NUMERIC_CLASSES[nm]:
                res = True
            elif nm in ("tuple", "list") and isinstance(v, (VTuple, VSeq)):
                res = res or v.kind == nm
            elif nm in ("Sequence", "Iterable") and isinstance(v, (VTuple, VSeq, VStr)):
                res = True
            elif nm == "Iterable" and isinstance(v, VIter):
                res = True
            elif isinstance(v, VObj) and (nm in ex.repo.classes or "." in nm):
                res = res or ex.repo.is_subclass(v.cls, nm)
            elif isinstance(v, VExc) and nm in ex.repo.exc_parent:
                res = res or ex.repo.is_subclass(v.cls, nm)
            elif nm == "object":
                res = True
            elif isinstance(v, VOpaque) and nm == "Iterable":
                return self.OPAQUE_ITERABLE(v.t)
            elif isinstance(v, VOpaque) and nm == "np.ndarray":
                return self.OPAQUE_NDARRAY(v.t)
            elif isinstance(v, VOpaque) and nm.startswith("h5py."):
                return z3.Function("opaque_isa_" + nm.replace(".", "_"), IntS, BoolS)(v.t)
            elif isinstance(v, VEnum) and nm == "Enum":
                res = True
        return z3.BoolVal(res)

    OPAQUE_ITERABLE = z3.Function("opaque_iterable", IntS, BoolS)
    OPAQUE_NDARRAY = z3.Function("opaque_ndarray", IntS, BoolS)

    def class_names(self, ex, p, c):
        c = ex.deref(p, c)
        if isinstance(c, VClass):
            return list(c.names)
        if isinstance(c, VTuple):
            out = []
            for x in c.items:
                out.extend(self.class_names(ex, p, x))
            return out
        if isinstance(c, VOpaque) and c.tag:
            return [c.tag]
        raise Unsupported("class argument %r" % (c,))

    def same_class_cond(self, x, v):
        """isinstance(x, type(v)) for plain values: same Python class, or bool (a subclass of int) against int"""
        tags = ["VNone", "VInt", "VReal", "VBool", "VStr", "VBytes", "VSliceV", "VEllipsis"]
        same = [z3.And(getattr(Val, "is_" + t)(x), getattr(Val, "is_" + t)(v)) for t in tags]
        seqs = [Val.is_VIntSeq, Val.is_VRealSeq, Val.is_VStrSeq, Val.is_VValSeq, Val.is_VSliceSeq]
        anyseq_x = z3.Or(*[f(x) for f in seqs])
        anyseq_v = z3.Or(*[f(v) for f in seqs])
        return z3.Or(z3.Or(*same), z3.And(Val.is_VBool(x), Val.is_VInt(v)),
                     z3.And(Val.is_VObj(x), Val.is_VObj(v), Val.cls(x) == Val.cls(v)),
                     z3.And(anyseq_x, anyseq_v, self.SEQ_SAME_KIND(x, v)))

    SEQ_SAME_KIND = z3.Function("seq_same_python_class", Val, Val, BoolS)      # list vs tuple is not tracked in Val

    INST_OF = z3.Function("py_isinstance", Val, Val, BoolS)

    def b_isinstance(self, ex, p, args, kwargs, node, f):
        carg = ex.deref(p, args[1])
        if isinstance(carg, VDyn):
            # the class is itself a value (e.g. a container's item class): an abstract instance-of predicate
            yield p, VBool(self.INST_OF(box(ex.deref(p, args[0])), carg.t))
            return
        if isinstance(carg, VClass) and tuple(carg.names) == ("?typeof",) and hasattr(carg, "of"):
            try:
                yield p, VBool(self.same_class_cond(box(ex.deref(p, args[0])), carg.of))
                return
            except TypeError:
                pass
        names = self.class_names(ex, p, args[1])
        yield p, VBool(self.isinstance_cond(ex, p, args[0], names))

    def b_hasattr(self, ex, p, args, kwargs, node, f):
        v = ex.deref(p, args[0])
        attr = z3.simplify(args[1].t).as_string()
        if isinstance(v, VObj):
            has = False
            if v.cls in ex.repo.classes:
                kind, _, _ = ex.repo.find_member(v.cls, attr)
                has = kind is not None or self.field_sort(ex, v.cls, attr) is not None
            yield p, VBool(has)
            return
        if attr == "__iter__":
            yield p, VBool(self.isinstance_cond(ex, p, v, ["Iterable"]))
            return
        if attr == "__getitem__":
            if isinstance(v, VDyn):
                t = v.t
                yield p, VBool(z3.Or(Val.is_VIntSeq(t), Val.is_VRealSeq(t), Val.is_VStrSeq(t), Val.is_VValSeq(t),
                                     Val.is_VSliceSeq(t), Val.is_VStr(t), Val.is_VBytes(t),
                                     z3.And(Val.is_VOpaque(t), self.OPAQUE_ITERABLE(Val.ok(t)))))
            else:
                yield p, VBool(isinstance(v, (VTuple, VSeq, VStr)))
            return
        if attr == "dtype":
            # numpy arrays (and scalars of numpy type, not modelled) are the only values with .dtype
            if isinstance(v, VDyn):
                yield p, VBool(z3.And(Val.is_VOpaque(v.t), self.OPAQUE_NDARRAY(Val.ok(v.t))))
            elif isinstance(v, VOpaque):
                yield p, VBool(self.OPAQUE_NDARRAY(v.t))
            else:
                yield p, VBool(False)
            return
        if isinstance(v, VDyn):
            if attr in ("id", "name"):
                # only repository entities have .id
                t = v.t
                ents = [c for c in ex.repo.classes
                        if ex.repo.find_member(c, attr)[0] is not None or self.field_sort(ex, c, attr)]
                if not ents:
                    yield p, VBool(False)
                else:
                    yield p, VBool(z3.And(Val.is_VObj(t), z3.Or(*[Val.cls(t) == V.CLASSES.id(c) for c in ents])))
                return
        if isinstance(v, (VInt, VReal, VBool, VStr, VNone, VTuple, VSeq, VSlice)):
            yield p, VBool(False)
            return
        raise Unsupported("hasattr(%r, %s)" % (v, attr))

    def b_range(self, ex, p, args, kwargs, node, f):
        a = [ex.deref(p, x) for x in args]
        if len(a) == 1:
            yield p, VIter("range", [VInt(0), a[0], VInt(1)])
        elif len(a) == 2:
            yield p, VIter("range", [a[0], a[1], VInt(1)])
        else:
            yield p, VIter("range", a)

    def b_enumerate(self, ex, p, args, kwargs, node, f):
        a0 = ex.deref(p, args[0])
        if isinstance(a0, VIter) and not self.is_concrete_iter(ex, p, a0):
            yield p, VIter("enumerate", [a0])          # enumerate(zip(...)) over symbolic sequences: element-wise access
            return
        for p1, s in self.to_sequence(ex, p, args[0], node):
            yield p1, VIter("enumerate", [s])

    def b_zip(self, ex, p, args, kwargs, node, f):
        def rec(p, rest, acc):
            if not rest:
                yield p, VIter("zip", acc)
                return
            for p1, s in self.to_sequence(ex, p, rest[0], node):
                yield from rec(p1, rest[1:], acc + [s])
        yield from rec(p, list(args), [])

    def b_anyall(self, ex, p, args, kwargs, node, f):
        is_any = f.name == "any"
        for p1, s in self.to_sequence(ex, p, args[0], node):
            if isinstance(s, VTuple):
                ts = [ex.truth(p1, x) for x in s.items]
                yield p1, VBool((z3.Or(*ts) if is_any else z3.And(*ts)) if ts else z3.BoolVal(not is_any))
            else:
                j = V.fresh("j", IntS)
                body = ex.truth(p1, term_to_elem(s.t[j], s.elem))
                rng = z3.And(j >= 0, j < z3.Length(s.t))
                yield p1, VBool(z3.Exists([j], z3.And(rng, body)) if is_any else z3.ForAll([j], z3.Implies(rng, body)))

    def b_sum(self, ex, p, args, kwargs, node, f):
        for p1, s in self.to_sequence(ex, p, args[0], node):
            if isinstance(s, VTuple):
                acc = VInt(0)
                for x in s.items:
                    acc = list(self.binop(ex, p1, ast.Add(), acc, x, node))[0][1]
                yield p1, acc
            else:
                raise Unsupported("sum over symbolic sequence")

    def b_super(self, ex, p, args, kwargs, node, f):
        if args:
            cls = ex.deref(p, args[0]).names[0]
            obj = ex.deref(p, args[1])
        else:
            cls = p.frame.self_cls
            obj = p.frame.vars.get("self") or p.frame.vars.get("cls")
        yield p, VSuper(obj, cls) if isinstance(obj, VObj) else VSuperCls(obj, cls)

    def b_noop(self, ex, p, args, kwargs, node, f):
        yield p, NONE

    def b_hash(self, ex, p, args, kwargs, node, f):
        fn = z3.Function("py_hash", Val, IntS)
        yield p, VInt(fn(box(ex.deref(p, args[0]))))

    def b_slice_indices(self, ex, p, args, kwargs, node, f):
        sl = f.self_val
        for p1, n in ex.narrow(p, args[0]):
            st, sp, se, zero = slice_indices(sl.t, n.t)
            if ex.spec:
                yield p1, VTuple([VInt(st), VInt(sp), VInt(se)])
                continue
            for p2, z in ex.branch(p1, zero):
                if z:
                    ex.raise_(p2, "ValueError", node)
                else:
                    for p3, neg in ex.branch(p2, n.t < 0):
                        if neg:
                            ex.raise_(p3, "ValueError", node)
                        else:
                            yield p3, VTuple([VInt(st), VInt(sp), VInt(se)])

    def b_map(self, ex, p, args, kwargs, node, f):
        raise Unsupported("map() at line %s" % getattr(node, "lineno", "?"))

    def b_unknown_setter(self, ex, p, args, kwargs, node, f):
        self.rebind_aliases(ex, p, f.self_val, VOpaque(V.fresh("cfg", IntS), getattr(f.self_val, "tag", None)))
        yield p, NONE

    def b_objdict_get(self, ex, p, args, kwargs, node, f):
        """obj.__dict__.get(name[, default]): the instance attribute if it was ever set (unknown here), else default"""
        obj = f.self_val
        name = z3.simplify(ex.deref(p, args[0]).t).as_string()
        srt = self.field_sort(ex, obj.cls, name, undeclared_ok=True)
        if srt is None:
            raise Unsupported("__dict__.get(%r)" % name)
        arr = self.heap_array(p, name, srt)
        yield p, term_to_elem(arr[obj.t], srt)

    def b_getattr(self, ex, p, args, kwargs, node, f):
        attr = z3.simplify(args[1].t).as_string()
        yield from self.getattr(ex, p, args[0], attr, node)

    def b_np_array(self, ex, p, args, kwargs, node, f):
        v = ex.deref(p, args[0])
        if ex.current_contract is not None and "np.array:opaque" in ex.current_contract.note and ex.depth == 0:
            # this unit treats numpy arrays as opaque values: np.array(x) is an uninterpreted function of x
            yield p, VOpaque(z3.Function("np_array", Val, IntS)(box(v)), "np")
            return
        if isinstance(v, VDyn):
            for p1, v1 in ex.narrow(p, v):
                if isinstance(v1, VDyn):
                    raise Unsupported("np.array of dynamic value")
                yield from self.b_np_array(ex, p1, [v1], kwargs, node, f)
            return
        if isinstance(v, VTuple) and v.items and all(isinstance(ex.deref(p, x), (VInt, VReal)) for x in v.items):
            v = tuple_to_seq(VTuple([ex.deref(p, x) for x in v.items]))
        if isinstance(v, VSeq) and v.elem in (Int, Real):
            yield p, VSeq(v.t, v.elem, "ndarray")
            return
        c = ex.reg.get("np.array")
        if c is None:
            raise Unsupported("np.array of %r" % (v,))
        yield from ex.apply_contract(p, c, [v], {}, node)

    def b_np_where(self, ex, p, args, kwargs, node, f):
        m = ex.deref(p, args[0])
        if not (isinstance(m, VSeq) and m.elem is Bool):
            raise Unsupported("np.where on %r" % (m,))
        n = z3.Length(m.t)
        pw = getattr(m, "pointwise", None)
        if pw is not None:
            # state the facts on the defining expression of the mask (usable triggers), not on the mask cells
            class _M:
                def __getitem__(self, k):
                    return pw(k)
            m = VSeq(m.t, m.elem, m.kind)
            m.t = _M()
        w = V.fresh("where", z3.SeqSort(IntS))
        i = V.fresh("wi", IntS)
        ln = z3.Length(w)
        rng = z3.And(i >= 0, i < n)
        # assumed numpy semantics: ascending indices of the true entries (first / last / emptiness facts)
        p.assume((ln == 0) == z3.ForAll([i], z3.Implies(rng, z3.Not(m.t[i]))))
        p.assume(ln <= n)
        p.assume(z3.Implies(ln > 0, z3.And(w[0] >= 0, w[0] < n, m.t[w[0]],
                                           z3.ForAll([i], z3.Implies(z3.And(i >= 0, i < w[0]), z3.Not(m.t[i]))))))
        last = w[ln - 1]
        p.assume(z3.Implies(ln > 0, z3.And(last >= 0, last < n, m.t[last],
                                           z3.ForAll([i], z3.Implies(z3.And(i > last, i < n), z3.Not(m.t[i]))))))
        yield p, VTuple([VSeq(w, Int, "ndarray")])

    def b_np_searchsorted(self, ex, p, args, kwargs, node, f):
        """assumed numpy semantics for an ascending array: insertion point (left: a[i-1] < v <= a[i])"""
        a = ex.deref(p, args[0])
        v = ex.deref(p, args[1])
        side = kwargs.get("side", args[2] if len(args) > 2 else VStr("left"))
        right = z3.simplify(side.t).as_string() == "right"
        if not (isinstance(a, VSeq) and a.elem in (Int, Real)) or not self.is_num(v):
            raise Unsupported("np.searchsorted on %r" % (a,))
        n = z3.Length(a.t)
        r = V.fresh("ss", IntS)
        i = V.fresh("si", IntS)
        vt = to_real(v) if a.elem is Real else v.t
        p.assume(z3.And(r >= 0, r <= n))
        p.assume(z3.ForAll([i], z3.Implies(z3.And(i >= 0, i < r), (a.t[i] <= vt) if right else (a.t[i] < vt))))
        p.assume(z3.ForAll([i], z3.Implies(z3.And(i >= r, i < n), (a.t[i] > vt) if right else (a.t[i] >= vt))))
        yield p, VInt(r)

    def b_re_compile(self, ex, p, args, kwargs, node, f):
        from .regex import VRegex
        pat = z3.simplify(ex.deref(p, args[0]).t)
        if not z3.is_string_value(pat):
            raise Unsupported("re.compile of a non-constant pattern")
        yield p, VRegex(pat.as_string())

    def b_regex_match(self, ex, p, args, kwargs, node, f):
        from .regex import do_match
        subj = ex.deref(p, args[0])
        for p1, s1 in ex.narrow(p, subj):
            if not isinstance(s1, VStr):
                raise Unsupported("regex match on %r" % (s1,))
            yield p1, do_match(ex, p1, f.self_val, s1, f.name.split(".")[1])

    def b_match_group(self, ex, p, args, kwargs, node, f):
        from .regex import match_group
        yield p, match_group(ex, p, f.self_val, ex.deref(p, args[0]) if args else VInt(0))

    table = {
        "re.compile": b_re_compile, "regex.match": b_regex_match, "regex.search": b_regex_match,
        "match.group": b_match_group,
        "np.array": b_np_array, "np.where": b_np_where, "np.asarray": b_np_array, "np.searchsorted": b_np_searchsorted,
        "len": b_len, "abs": b_abs, "min": b_minmax, "max": b_minmax, "isinstance": b_isinstance,
        "hasattr": b_hasattr, "range": b_range, "enumerate": b_enumerate, "zip": b_zip,
        "any": b_anyall, "all": b_anyall, "sum": b_sum, "super": b_super, "print": b_noop,
        "hash": b_hash, "slice.indices": b_slice_indices, "map": b_map, "getattr": b_getattr,
        "warnings.warn": b_noop, "gc.collect": b_noop, "opaque.unknown_setter": b_unknown_setter, "objdict.get": b_objdict_get,
    }

    # ------------------------------------------------------------------
    # methods of sequences / strings
    # ------------------------------------------------------------------
    COUNT = {}

    def count_fn(self, sort):
        key = str(sort)
        if key not in self.COUNT:
            self.COUNT[key] = z3.Function("seq_count_" + key.replace(" ", "_").replace("(", "").replace(")", ""),
                                          z3.SeqSort(sort), sort, IntS)
        return self.COUNT[key]

    def call_method(self, ex, p, selfv, name, args, kwargs, node):
        cell = selfv if isinstance(selfv, VCell) else None
        v = ex.deref(p, selfv)
        if isinstance(v, (VTuple, VSeq)):
            if name == "append" and cell is not None:
                self.list_append(ex, p, cell, args[0])
                yield p, NONE
                return
            if name == "extend" and cell is not None:
                self.list_extend(ex, p, cell, args[0])
                yield p, NONE
                return
            if name == "pop" and cell is not None:
                yield from self.list_pop(ex, p, cell, args, node)
                return
            if name == "count":
                yield from self.seq_count(ex, p, v, args[0], node)
                return
            if name == "index":
                yield from self.seq_index(ex, p, v, args[0], node)
                return
        if isinstance(v, VStr):
            yield from self.str_method(ex, p, v, name, args, kwargs, node)
            return
        raise Unsupported("method .%s of %r at line %s" % (name, v, getattr(node, "lineno", "?")))

    def list_append(self, ex, p, cell, x):
        cur = p.cells[cell.cid]
        x = ex.deref(p, x) if not isinstance(x, VCell) else x
        if isinstance(cur, VTuple):
            p.cells[cell.cid] = VTuple(cur.items + [x], "list")
        else:
            try:
                t = elem_to_term(ex.deref(p, x), cur.elem)
            except TypeError:
                raise Unsupported("append of %r to list of %r" % (x, cur.elem))
            # pointwise definition (solver-friendlier than seq.++ under quantifiers)
            r = V.fresh("app", cur.t.sort())
            j = V.fresh("aj", IntS)
            n = z3.Length(cur.t)
            p.assume(z3.Length(r) == n + 1)
            p.assume(r[n] == t)
            p.assume(z3.ForAll([j], z3.Implies(z3.And(j >= 0, j < n), r[j] == cur.t[j])))
            p.assume(r == z3.Concat(cur.t, z3.Unit(t)))
            p.cells[cell.cid] = VSeq(r, cur.elem, "list")

    def list_extend(self, ex, p, cell, xs):
        cur = p.cells[cell.cid]
        res = list(self.to_sequence(ex, p, xs, None))
        if len(res) != 1 or res[0][0] is not p:
            raise Unsupported("forking extend")
        xs = res[0][1]
        if isinstance(cur, VTuple) and isinstance(xs, VTuple):
            p.cells[cell.cid] = VTuple(cur.items + xs.items, "list")
            return
        elem = cur.elem if isinstance(cur, VSeq) else xs.elem
        a, b = tuple_to_seq(cur, elem), tuple_to_seq(xs, elem)
        p.cells[cell.cid] = VSeq(z3.Concat(a.t, b.t), elem, "list")

    def list_pop(self, ex, p, cell, args, node):
        cur = p.cells[cell.cid]
        first = bool(args) and z3.is_int_value(z3.simplify(args[0].t)) and z3.simplify(args[0].t).as_long() == 0
        if args and not first:
            raise Unsupported("list.pop(i)")
        if isinstance(cur, VTuple):
            if not cur.items:
                ex.raise_(p, "IndexError", node)
                return
            x = cur.items[0] if first else cur.items[-1]
            p.cells[cell.cid] = VTuple(cur.items[1:] if first else cur.items[:-1], "list")
            yield p, x
            return
        n = z3.Length(cur.t)
        for p1, empty in ex.branch(p, n == 0):
            if empty:
                ex.raise_(p1, "IndexError", node)
            else:
                if first:
                    x = term_to_elem(cur.t[0], cur.elem)
                    p1.cells[cell.cid] = VSeq(z3.SubSeq(cur.t, 1, n - 1), cur.elem, "list")
                else:
                    x = term_to_elem(cur.t[n - 1], cur.elem)
                    p1.cells[cell.cid] = VSeq(z3.SubSeq(cur.t, 0, n - 1), cur.elem, "list")
                yield p1, x

    def seq_count(self, ex, p, v, x, node):
        x = ex.deref(p, x)
        if isinstance(v, VTuple):
            acc = z3.IntVal(0)
            for it in v.items:
                e = list(self.equal(ex, p, it, x, node))[0][1]
                acc = acc + z3.If(e, 1, 0)
            yield p, VInt(acc)
            return
        try:
            xt = elem_to_term(x, v.elem)
        except TypeError:
            yield p, VInt(0)
            return
        cnt = self.count_fn(v.elem.z)(v.t, xt)
        u = z3.Unit(xt)
        first = z3.IndexOf(v.t, u, 0)
        n = z3.Length(v.t)
        rest = z3.SubSeq(v.t, first + 1, n - first - 1)
        # characterising facts of tuple.count (assumed builtin semantics, instance-wise)
        p.assume(cnt >= 0)
        p.assume(cnt <= n)
        p.assume((cnt == 0) == z3.Not(z3.Contains(v.t, u)))
        p.assume(z3.Implies(cnt > 0, (cnt == 1) == z3.Not(z3.Contains(rest, u))))
        yield p, VInt(cnt)

    def seq_index(self, ex, p, v, x, node):
        x = ex.deref(p, x)
        s = tuple_to_seq(v) if isinstance(v, VTuple) else v
        try:
            xt = elem_to_term(x, s.elem)
        except TypeError:
            ex.raise_(p, "ValueError", node)
            return
        u = z3.Unit(xt)
        if ex.spec:
            yield p, VInt(z3.IndexOf(s.t, u, 0))
            return
        for p1, has in ex.branch(p, z3.Contains(s.t, u)):
            if has:
                k = z3.IndexOf(s.t, u, 0)
                # first occurrence: everything before differs (assumed z3 seq.indexof semantics on unit pattern)
                j = V.fresh("j", IntS)
                p1.assume(z3.And(k >= 0, k < z3.Length(s.t), s.t[k] == xt))
                p1.assume(z3.ForAll([j], z3.Implies(z3.And(j >= 0, j < k), s.t[j] != xt)))
                yield p1, VInt(k)
            else:
                ex.raise_(p1, "ValueError", node)

    def str_method(self, ex, p, v, name, args, kwargs, node):
        if name == "replace":
            a, b = ex.deref(p, args[0]), ex.deref(p, args[1])
            f = z3.Function("str_replace_all", StrS, StrS, StrS, StrS)
            try:
                r = z3.StringVal("") if False else None
                r = z3.SeqRef(z3.Z3_mk_seq_replace_all(v.t.ctx_ref(), v.t.as_ast(), a.t.as_ast(), b.t.as_ast()), v.t.ctx)
            except Exception:
                r = f(v.t, a.t, b.t)
            yield p, VStr(r, v.is_bytes)
            return
        if name == "encode":
            yield p, VStr(v.t, True)
            return
        if name == "decode":
            yield p, VStr(v.t, False)
            return
        if name == "format":
            vals = [ex.deref(p, a) for a in args] + [ex.deref(p, a) for a in kwargs.values()]
            base = z3.simplify(v.t)
            if z3.is_string_value(base) and all(isinstance(a, VStr) and z3.is_string_value(z3.simplify(a.t)) for a in vals):
                pa = [z3.simplify(ex.deref(p, a).t).as_string() for a in args]
                ka = {k: z3.simplify(ex.deref(p, a).t).as_string() for k, a in kwargs.items()}
                yield p, VStr(base.as_string().format(*pa, **ka))
                return
            # text.format(args...) with symbolic arguments: a message identified by its template and arguments
            # (uninterpreted, injective: different templates / arguments give different messages)
            k = len(vals)
            try:
                bs = [box(a) for a in vals]
            except TypeError:
                yield p, VStr(V.fresh("fmt", StrS))
                return
            f = z3.Function("py_format_%d" % k, *([StrS] + [Val] * k + [StrS]))
            r = f(v.t, *bs)
            if ex.is_ground(v.t, *bs):
                p.assume(z3.Function("py_format_tpl_%d" % k, StrS, StrS)(r) == v.t)
                for j, b in enumerate(bs):
                    p.assume(z3.Function("py_format_arg_%d_%d" % (k, j), StrS, Val)(r) == b)
            yield p, VStr(r)
            return
        if name == "startswith":
            yield p, VBool(z3.PrefixOf(args[0].t, v.t))
            return
        if name == "endswith":
            yield p, VBool(z3.SuffixOf(args[0].t, v.t))
            return
        if name == "lstrip" or name == "strip" or name == "lower" or name == "upper":
            f = z3.Function("str_" + name, StrS, StrS)
            yield p, VStr(f(v.t), v.is_bytes)
            return
        if name == "split":
            c = ex.reg.get("builtins.str.split")
            if c is not None:
                yield from ex.apply_contract(p, c, [v] + list(args), {}, node)
                return
        if name == "join":
            yield p, VStr(V.fresh("joined", StrS))        # opaque text (version strings for messages)
            return
        if name == "count":
            raise Unsupported("str.count")
        raise Unsupported("str.%s at line %s" % (name, getattr(node, "lineno", "?")))

    def map_seq(self, ex, p, v, elem, fn):
        r = V.fresh("map", z3.SeqSort(elem.z))
        j = V.fresh("j", IntS)
        p.assume(z3.Length(r) == z3.Length(v.t))
        p.assume(z3.ForAll([j], z3.Implies(z3.And(j >= 0, j < z3.Length(v.t)), r[j] == fn(v.t[j]))))
        return VSeq(r, elem, v.kind)


V_MAXSIZE = 2 ** 63 - 1
