"""Locate real functions in the repository working tree.

The verified text is the AST of the file on disk, re-read on every run.
Only comments, docstrings and (interpreted) decorators are dropped.
"""
import ast
import hashlib
import os

BUILTIN_EXC = {
    "BaseException": None, "Exception": "BaseException",
    "ArithmeticError": "Exception", "ZeroDivisionError": "ArithmeticError",
    "LookupError": "Exception", "IndexError": "LookupError", "KeyError": "LookupError",
    "ValueError": "Exception", "TypeError": "Exception", "AttributeError": "Exception",
    "RuntimeError": "Exception", "NameError": "Exception", "NotImplementedError": "RuntimeError",
    "UnicodeError": "ValueError", "OSError": "Exception", "StopIteration": "Exception",
    "AssertionError": "Exception",
}


class FuncInfo:
    def __init__(self, qualname, node, module, cls, kind, path):
        self.qualname, self.node, self.module, self.cls = qualname, node, module, cls
        self.kind = kind      # 'function' | 'method' | 'classmethod' | 'staticmethod' | 'getter' | 'setter' | 'deleter'
        self.path = path
        self.parent = None    # enclosing FuncInfo for nested defs

    @property
    def lines(self):
        return (self.node.lineno, self.node.end_lineno)


class ClassInfo:
    def __init__(self, name, module, node):
        self.name, self.module, self.node = name, module, node
        self.bases = []
        self.methods = {}     # name -> FuncInfo (plain / class / static methods)
        self.getters, self.setters, self.deleters = {}, {}, {}
        self.consts = {}      # class-level assignments: name -> ast expr
        self.is_enum = False


class Repo:
    def __init__(self, root):
        self.root = root
        self.modules = {}      # modname -> ast.Module
        self.srcs = {}
        self.funcs = {}        # qualname -> FuncInfo
        self.classes = {}      # simple class name -> ClassInfo (nixio has unique class names)
        self.modconsts = {}    # modname -> {name: ast expr}
        self.imports = {}      # modname -> {local name: ('module', modname) | ('name', modname, attr)}
        self.exc_parent = dict(BUILTIN_EXC)
        self._load()

    def _load(self):
        base = os.path.join(self.root, "nixio")
        for dirpath, dirnames, filenames in os.walk(base):
            dirnames[:] = [d for d in dirnames if d not in ("test", "__pycache__")]
            for fn in sorted(filenames):
                if not fn.endswith(".py"):
                    continue
                path = os.path.join(dirpath, fn)
                rel = os.path.relpath(path, self.root)
                mod = rel[:-3].replace(os.sep, ".")
                if mod.endswith(".__init__"):
                    mod = mod[:-9]
                src = open(path, encoding="utf-8").read()
                try:
                    tree = ast.parse(src, path)
                except SyntaxError as e:
                    raise RuntimeError("cannot parse %s: %s" % (path, e))
                self.modules[mod] = tree
                self.srcs[mod] = (path, src)
                self._index_module(mod, tree, path)

    def _index_module(self, mod, tree, path):
        consts, imps = {}, {}
        self.modconsts[mod], self.imports[mod] = consts, imps
        pkg = mod if path.endswith("__init__.py") else mod.rsplit(".", 1)[0]
        for node in tree.body:
            self._index_stmt(mod, pkg, node, consts, imps, path)

    def _resolve_rel(self, pkg, level, name):
        parts = pkg.split(".")
        if level > 1:
            parts = parts[:len(parts) - (level - 1)]
        return ".".join(parts + ([name] if name else []))

    def _index_stmt(self, mod, pkg, node, consts, imps, path):
        if isinstance(node, ast.Try):
            for n in node.body:
                self._index_stmt(mod, pkg, n, consts, imps, path)
            return
        if isinstance(node, ast.Import):
            for a in node.names:
                imps[a.asname or a.name.split(".")[0]] = ("module", a.name if a.asname else a.name.split(".")[0])
        elif isinstance(node, ast.ImportFrom):
            src = self._resolve_rel(pkg, node.level, node.module) if node.level else node.module
            for a in node.names:
                imps[a.asname or a.name] = ("name", src, a.name)
        elif isinstance(node, ast.Assign) and len(node.targets) == 1 and isinstance(node.targets[0], ast.Name):
            consts[node.targets[0].id] = node.value
        elif isinstance(node, ast.FunctionDef):
            self._index_func(mod + "." + node.name, node, mod, None, "function", path, None)
        elif isinstance(node, ast.ClassDef):
            ci = ClassInfo(node.name, mod, node)
            for b in node.bases:
                ci.bases.append(b.id if isinstance(b, ast.Name) else (b.attr if isinstance(b, ast.Attribute) else "?"))
            ci.is_enum = "Enum" in ci.bases
            self.classes[node.name] = ci
            for b in ci.bases:
                if node.name not in self.exc_parent and (b in self.exc_parent):
                    self.exc_parent[node.name] = b
            for item in node.body:
                if isinstance(item, ast.FunctionDef):
                    kind = "method"
                    for d in item.decorator_list:
                        if isinstance(d, ast.Name) and d.id == "property":
                            kind = "getter"
                        elif isinstance(d, ast.Name) and d.id == "classmethod":
                            kind = "classmethod"
                        elif isinstance(d, ast.Name) and d.id == "staticmethod":
                            kind = "staticmethod"
                        elif isinstance(d, ast.Attribute) and d.attr in ("setter", "deleter"):
                            kind = d.attr
                        else:
                            kind = "unsupported-decorator"
                    base = "%s.%s.%s" % (mod, node.name, item.name)
                    qn = base if kind in ("method", "classmethod", "staticmethod", "getter") else base + "." + kind
                    fi = self._index_func(qn, item, mod, node.name, kind, path, None)
                    if kind == "getter":
                        ci.getters[item.name] = fi
                    elif kind == "setter":
                        ci.setters[item.name] = fi
                    elif kind == "deleter":
                        ci.deleters[item.name] = fi
                    else:
                        ci.methods[item.name] = fi
                elif isinstance(item, ast.Assign) and len(item.targets) == 1 and isinstance(item.targets[0], ast.Name):
                    ci.consts[item.targets[0].id] = item.value
                elif isinstance(item, ast.If):
                    # class-level conditional constants (DataType.String): take every assigned name as opaque
                    for sub in ast.walk(item):
                        if isinstance(sub, ast.Assign) and isinstance(sub.targets[0], ast.Name):
                            ci.consts.setdefault(sub.targets[0].id, sub.value)

    def _index_func(self, qn, node, mod, cls, kind, path, parent):
        fi = FuncInfo(qn, node, mod, cls, kind, path)
        fi.parent = parent
        self.funcs[qn] = fi
        for sub in node.body:
            self._index_nested(qn, sub, mod, cls, path, fi)
        return fi

    def _index_nested(self, qn, node, mod, cls, path, parent):
        if isinstance(node, ast.FunctionDef):
            self._index_func("%s.<locals>.%s" % (qn, node.name), node, mod, cls, "function", path, parent)
        elif isinstance(node, (ast.If, ast.For, ast.While, ast.With, ast.Try)):
            for sub in ast.iter_child_nodes(node):
                if isinstance(sub, ast.stmt):
                    self._index_nested(qn, sub, mod, cls, path, parent)

    # ---- queries -------------------------------------------------------
    def mro(self, cls):
        """Linearised bases (C3 not needed: nixio uses simple hierarchies; DataArray(Entity, DataSet))."""
        out2 = []

        def dfs(c):
            if c in out2 or c not in self.classes:
                return
            out2.append(c)
            for b in self.classes[c].bases:
                dfs(b)
        dfs(cls)
        return out2

    def is_subclass(self, cls, base):
        if cls == base:
            return True
        if cls in self.classes:
            return base in self.mro(cls) or any(self.is_exc_subclass(b, base) for b in self.classes[cls].bases)
        return self.is_exc_subclass(cls, base)

    def is_exc_subclass(self, cls, base):
        seen = 0
        while cls is not None and seen < 20:
            if cls == base:
                return True
            cls = self.exc_parent.get(cls)
            seen += 1
        return False

    def find_member(self, cls, name, after=None):
        """Resolve attribute `name` on instances of cls through the MRO.
        Returns (kind, ClassInfo, payload). `after`: start search after this class (super())."""
        mro = self.mro(cls)
        if after is not None and after in mro:
            mro = mro[mro.index(after) + 1:]
        for c in mro:
            ci = self.classes[c]
            if name in ci.getters:
                return ("property", ci, name)
            if name in ci.methods:
                return ("method", ci, ci.methods[name])
            if name in ci.consts:
                return ("const", ci, ci.consts[name])
        return (None, None, None)

    def segment_sha(self, fi):
        path, src = self.srcs[fi.module]
        seg = ast.get_source_segment(src, fi.node) or ""
        return hashlib.sha256(seg.encode("utf-8")).hexdigest()

    def rel(self, path):
        return os.path.relpath(path, self.root)
