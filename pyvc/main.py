"""./check driver: verify every unit/lemma of a property, solve, report, write evidence."""
import argparse
import json
import multiprocessing as mp
import os
import sys
import time
import traceback

HERE = os.path.dirname(os.path.abspath(__file__))
ROOT = os.path.dirname(HERE)
sys.path.insert(0, ROOT)

import z3                                            # noqa: E402
from pyvc.source import Repo                         # noqa: E402
from pyvc.contracts import Registry, load_sidecars   # noqa: E402
from pyvc import vcgen                               # noqa: E402
from pyvc.symexec import Unsupported                 # noqa: E402

_G = {}


def setup(repo_dir):
    if "repo" not in _G:
        _G["repo"] = Repo(repo_dir)
        reg = Registry()
        reg.repo_dir = repo_dir
        reg.repo = _G["repo"]
        load_sidecars(reg, os.path.join(ROOT, "contracts"))
        _G["reg"] = reg
    return _G["repo"], _G["reg"]


def run_unit(job):
    """Worker: verify one unit and solve its obligations. Returns a picklable dict."""
    kind, name, repo_dir, timeout_ms, known = job[:5]
    inst = job[5] if len(job) > 5 else None
    t0 = time.time()
    try:
        repo, reg = setup(repo_dir)
        if kind == "unit":
            res = vcgen.verify_unit(repo, reg, name, timeout_ms, inst)
            out = dict(kind=kind, name=res.unit, status=res.status, message=res.message, paths=res.paths,
                       inlined=res.inlined, node_kinds=res.node_kinds, vacuity=res.vacuity, src=res.src,
                       obligations=[], gen_time=res.time)
            axioms = res.ex.global_axioms if hasattr(res, "ex") else []
            c = reg.get(name)
            for ob in res.obligations:
                solve_one(ob, timeout_ms, axioms, known, out, c.replay if c else None, getattr(res, "env", None))
        elif kind == "lemma":
            fn = [f for (n, props, f) in reg.lemmas if n == name][0]
            out = dict(kind=kind, name=name, status="ok", message="", paths=0, inlined=[], node_kinds=[],
                       vacuity={}, src={}, obligations=[], gen_time=0.0)
            for sub, hyps, goal in fn():
                ob = vcgen.Obligation(name, sub, hyps, goal, "lemma", True)
                solve_one(ob, timeout_ms, [], known, out, None, None)
        elif kind == "bounded":
            fn = [f for (n, props, f) in reg.bounded if n == name][0]
            out = dict(kind=kind, name=name, status="ok", message="", obligations=[], gen_time=0.0)
            out["bounded"] = fn(repo_dir)
        out["wall"] = time.time() - t0
        return out
    except Exception as e:
        return dict(kind=kind, name=name, status="crash", message="%s: %s\n%s" % (type(e).__name__, e, traceback.format_exc()),
                    obligations=[], wall=time.time() - t0)


def solve_one(ob, timeout_ms, axioms, known, out, replay_key, env):
    v = vcgen.solve(ob, timeout_ms, axioms)
    rec = dict(clause=ob.clause, name=ob.name, kind=ob.kind, verdict=v, backend=ob.backend, time=round(ob.time, 4),
               prop=bool(ob.prop_clause), meta={k: (str(x) if not isinstance(x, (int, str, type(None))) else x)
                                               for k, x in ob.meta.items()})
    if v == "sat":
        rec["model"] = ob.model_text
        rec["witness"] = extract_witness(ob.model, env) if env is not None and ob.model is not None else None
        # known-finding regions: re-solve with the region excluded
        for kf in known.get(ob.name, []):
            pass
    if len(out["obligations"]) < 3 or v != "unsat":
        try:
            s = z3.Solver()
            for h in ob.hyps:
                s.add(h)
            s.add(z3.Not(ob.goal))
            rec["smt2"] = s.to_smt2()[:3000]
        except Exception:
            pass
    out["obligations"].append(rec)


def extract_witness(model, env):
    """Concrete values of the unit's parameters under the counter-model."""
    from pyvc import vals as V
    w = {}
    for nm, v in env.items():
        try:
            if isinstance(v, (V.VInt, V.VReal, V.VBool, V.VStr, V.VSlice, V.VSeq, V.VDyn, V.VEnum, V.VObj)):
                w[nm] = str(model.eval(v.t, model_completion=True))
                if isinstance(v, V.VEnum):
                    k = model.eval(v.t, model_completion=True).as_long()
                    w[nm] = "%s.%s" % (v.name, V.ENUM_MEMBERS[v.name][k]) if 0 <= k < len(V.ENUM_MEMBERS[v.name]) else w[nm]
        except Exception:
            pass
    return w


def jobs_for(reg, prop, unit_filter=None):
    jobs = []
    for qn, c in reg.contracts.items():
        if c.assumed or c.inline:
            continue
        if prop != "all" and prop not in c.props:
            continue
        if unit_filter and unit_filter not in qn:
            continue
        if c.instances:
            for k in range(len(c.instances)):
                jobs.append(("unit", qn, k))
        else:
            jobs.append(("unit", qn))
    for n, props, f in reg.lemmas:
        if (prop == "all" or prop in props) and (not unit_filter or unit_filter in n):
            jobs.append(("lemma", n))
    return jobs


def main():
    ap = argparse.ArgumentParser()
    ap.add_argument("prop")
    ap.add_argument("--tier", default=os.environ.get("VERIF_TIER", "quick"))
    ap.add_argument("--repo", default="/repo")
    ap.add_argument("--unit", default=None)
    ap.add_argument("--instance", type=int, default=None)
    ap.add_argument("--replay", default=None)
    ap.add_argument("--jobs", type=int, default=16)
    ap.add_argument("-v", action="store_true")
    args = ap.parse_args()
    os.environ["PYVC_TIER"] = args.tier
    from pyvc import report
    sys.exit(report.run(args))


if __name__ == "__main__":
    main()
