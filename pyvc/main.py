"""./check driver: verify every unit/lemma of a property, solve, report, write evidence."""
import argparse
import json
import multiprocessing as mp
import os
import sys
import time
import traceback

HERE = os.path.dirname(os.path.abspath(__file__))
ROOT = os.path.dirname(HERE)
sys.path.insert(0, ROOT)

import z3                                            # noqa: E402
from pyvc.source import Repo                         # noqa: E402
from pyvc.contracts import Registry, load_sidecars   # noqa: E402
from pyvc import vcgen                               # noqa: E402
from pyvc.symexec import Unsupported                 # noqa: E402

_G = {}


def setup(repo_dir):
    if "repo" not in _G:
        _G["repo"] = Repo(repo_dir)
        reg = Registry()
        reg.repo_dir = repo_dir
        reg.repo = _G["repo"]
        load_sidecars(reg, os.path.join(ROOT, "contracts"))
        _G["reg"] = reg
    return _G["repo"], _G["reg"]


def run_unit(job, progress=None):
    """Worker: verify one unit and solve its obligations. Returns a picklable dict."""
    kind, name, repo_dir, timeout_ms, known = job[:5]
    inst = job[5] if len(job) > 5 else None
    t0 = time.time()
    try:
        repo, reg = setup(repo_dir)
        if kind == "unit":
            res = vcgen.verify_unit(repo, reg, name, timeout_ms, inst)
            out = dict(kind=kind, name=res.unit, status=res.status, message=res.message, paths=res.paths,
                       inlined=res.inlined, node_kinds=res.node_kinds, vacuity=res.vacuity, src=res.src,
                       obligations=[], gen_time=res.time, fingerprint=getattr(res, "fingerprint", None),
                       fn_hashes=getattr(res, "fn_hashes", None))
            axioms = res.ex.global_axioms if hasattr(res, "ex") else []
            if progress is not None:
                progress(len(res.obligations))
            c = reg.get(name)
            solve_all(res.obligations, timeout_ms, axioms, known, out, c.replay if c else None, getattr(res, "env", None))
        elif kind == "lemma":
            fn = [f for (n, props, f) in reg.lemmas if n == name][0]
            out = dict(kind=kind, name=name, status="ok", message="", paths=0, inlined=[], node_kinds=[],
                       vacuity={}, src={}, obligations=[], gen_time=0.0)
            obs = [vcgen.Obligation(name, sub, hyps, goal, "lemma", True) for sub, hyps, goal in fn()]
            solve_all(obs, timeout_ms, [], known, out, None, None)
        elif kind == "bounded":
            fn = [f for (n, props, f) in reg.bounded if n == name][0]
            out = dict(kind=kind, name=name, status="ok", message="", obligations=[], gen_time=0.0)
            out["bounded"] = fn(repo_dir)
        out["wall"] = time.time() - t0
        return out
    except Exception as e:
        return dict(kind=kind, name=name, status="crash", message="%s: %s\n%s" % (type(e).__name__, e, traceback.format_exc()),
                    obligations=[], wall=time.time() - t0)


def solve_all(obs, timeout_ms, axioms, known, out, replay_key, env):
    """Solve the obligations of one unit, each in a forked child with a hard wall-clock limit (z3's sequence solver
    sometimes ignores both its timeout and interrupts; such a query is killed and reported `unknown`, never a
    verdict). Up to PYVC_OBL_PAR children run at a time."""
    import pickle
    import select
    par = int(os.environ.get("PYVC_OBL_PAR", "3"))
    budget = 3.2 * timeout_ms / 1000.0 + 12
    recs = [None] * len(obs)
    pending = list(range(len(obs)))
    running = {}          # read fd -> (pid, index, t_end, chunks)
    tries = {}

    def start(k):
        r, w = os.pipe()
        pid = os.fork()
        if pid == 0:
            code = 0
            try:
                os.close(r)
                tmp = dict(obligations=[None] * k)
                solve_one(obs[k], timeout_ms, axioms, known, tmp, replay_key, env)
                with os.fdopen(w, "wb") as f:
                    f.write(pickle.dumps(tmp["obligations"][-1]))
            except BaseException:
                code = 1
            finally:
                os._exit(code)
        os.close(w)
        running[r] = (pid, k, time.time() + budget, [])

    def finish(r, ok):
        pid, k, t_end, chunks = running.pop(r)
        os.close(r)
        try:
            os.kill(pid, 9)
        except OSError:
            pass
        os.waitpid(pid, 0)
        rec = None
        if ok and chunks:
            try:
                rec = pickle.loads(b"".join(chunks))
            except Exception:
                rec = None
        if rec is None and ok and tries.get(k, 0) < 2:
            tries[k] = tries.get(k, 0) + 1        # the child died without an answer (solver crash): ask again
            pending.append(k)
            return
        if rec is None:
            ob = obs[k]
            rec = dict(clause=ob.clause, name=ob.name, kind=ob.kind, verdict="unknown", backend="killed",
                       time=round(budget, 1), prop=bool(ob.prop_clause),
                       meta={kk: (str(x) if not isinstance(x, (int, str, type(None))) else x) for kk, x in ob.meta.items()})
            rec["meta"]["solver"] = "query killed after %.0fs (solver ignored its timeout)" % budget
        recs[k] = rec

    while pending or running:
        while pending and len(running) < par:
            start(pending.pop(0))
        rd, _, _ = select.select(list(running), [], [], 0.5)
        for r in rd:
            b = os.read(r, 1 << 16)
            if b:
                running[r][3].append(b)
            else:
                finish(r, True)
        now = time.time()
        for r in list(running):
            if now > running[r][2]:
                finish(r, False)
    # second chance: a handful of `unknown` answers are asked again with three times the budget (load on the machine
    # must not flip a verdict); more than a handful means the unit really does not verify and is left as it is
    unk = [k for k, r in enumerate(recs) if r["verdict"] == "unknown"]
    if 0 < len(unk) <= 4 and not os.environ.get("PYVC_NO_SECOND_CHANCE") and timeout_ms < 30000:
        sub = dict(obligations=[])
        os.environ["PYVC_NO_SECOND_CHANCE"] = "1"
        try:
            solve_all([obs[k] for k in unk], timeout_ms * 3, axioms, known, sub, replay_key, env)
        finally:
            del os.environ["PYVC_NO_SECOND_CHANCE"]
        for k, r in zip(unk, sub["obligations"]):
            if r["verdict"] != "unknown":
                recs[k] = r
    out["obligations"].extend(recs)


def solve_one(ob, timeout_ms, axioms, known, out, replay_key, env):
    v = vcgen.solve(ob, timeout_ms, axioms)
    rec = dict(clause=ob.clause, name=ob.name, kind=ob.kind, verdict=v, backend=ob.backend, time=round(ob.time, 4),
               prop=bool(ob.prop_clause), meta={k: (str(x) if not isinstance(x, (int, str, type(None))) else x)
                                               for k, x in ob.meta.items()})
    if v == "sat":
        rec["model"] = ob.model_text
        mdl = ob.model
        try:
            m2 = vcgen.refine_model(ob)
            if m2 is not None:
                mdl = m2
                rec["model_refined"] = True
        except Exception:
            pass
        rec["witness"] = extract_witness(mdl, env) if env is not None and mdl is not None else None
        rec["replay_harness"] = replay_key.get("harness") if isinstance(replay_key, dict) else None
        # known-finding regions: re-solve with the region excluded
        for kf in known.get(ob.name, []):
            pass
    if v == "unsat" and os.environ.get("PYVC_TIER") == "thorough" and ob.backend == "z3":
        # thorough tier: every obligation z3 discharges is put to the second solver as well
        try:
            s2 = z3.Solver()
            for h in list(axioms) + list(ob.hyps):
                s2.add(h)
            s2.add(z3.Not(ob.goal))
            v2 = vcgen.run_cvc5(s2.to_smt2(), 10000)
        except Exception:
            v2 = "unknown"
        rec["second_solver"] = {"unsat": "agrees", "unknown": "no answer", "sat": "DISAGREES"}.get(v2, "no answer")
        if v2 == "sat":
            rec["verdict"] = v = "unknown"          # two solvers disagree: not counted as discharged, never a violation
            rec["meta"]["solver"] = "z3 says unsat, cvc5 says sat: undecided"
    if len([o for o in out["obligations"]]) < 3 or v != "unsat":
        try:
            s = z3.Solver()
            for h in ob.hyps:
                s.add(h)
            s.add(z3.Not(ob.goal))
            rec["smt2"] = s.to_smt2()[:3000]
        except Exception:
            pass
    out["obligations"].append(rec)


def _pyval(model, t, depth=0):
    """z3 term -> JSON-friendly python value under the model (best effort)."""
    from pyvc import vals as V
    v = model.eval(t, model_completion=True)
    srt = v.sort()
    try:
        if z3.is_int_value(v):
            return v.as_long()
        if z3.is_rational_value(v):
            return {"q": "%s/%s" % (v.numerator_as_long(), v.denominator_as_long())}
        if z3.is_true(v) or z3.is_false(v):
            return z3.is_true(v)
        if z3.is_string_value(v):
            return v.as_string()
        if isinstance(srt, z3.SeqSortRef) and depth < 4:
            n = model.eval(z3.Length(t), model_completion=True)
            if z3.is_int_value(n) and 0 <= n.as_long() <= 40:
                return [_pyval(model, t[k], depth + 1) for k in range(n.as_long())]
        if srt == V.OptI:
            return None if z3.is_true(model.eval(V.OptI.is_NoneI(t), model_completion=True)) else _pyval(model, V.OptI.iv(t))
        if srt == V.SliceDT:
            return {"slice": [_pyval(model, V.SliceDT.sl_start(t)), _pyval(model, V.SliceDT.sl_stop(t)),
                              _pyval(model, V.SliceDT.sl_step(t))]}
        if srt == V.Val and depth < 4:
            name = v.decl().name() if z3.is_app(v) else ""
            m = {"VNone": lambda: None, "VInt": lambda: _pyval(model, V.Val.i(t)), "VReal": lambda: _pyval(model, V.Val.r(t)),
                 "VBool": lambda: _pyval(model, V.Val.b(t)), "VStr": lambda: _pyval(model, V.Val.s(t)),
                 "VBytes": lambda: {"bytes": _pyval(model, V.Val.bs(t))},
                 "VSliceV": lambda: _pyval(model, V.Val.sl(t)), "VEllipsis": lambda: {"ellipsis": True},
                 "VIntSeq": lambda: _pyval(model, V.Val.iseq(t), depth + 1),
                 "VRealSeq": lambda: _pyval(model, V.Val.rseq(t), depth + 1),
                 "VStrSeq": lambda: _pyval(model, V.Val.sseq(t), depth + 1),
                 "VValSeq": lambda: {"tuple": _pyval(model, V.Val.vseq(t), depth + 1)},
                 "VSliceSeq": lambda: _pyval(model, V.Val.slseq(t), depth + 1)}
            if name in m:
                return m[name]()
    except Exception:
        pass
    return str(v)


def extract_witness(model, env):
    """Concrete values of the unit's parameters and contract `let` names under the counter-model."""
    from pyvc import vals as V
    w = {}
    for nm, v in env.items():
        try:
            if isinstance(v, V.VEnum):
                k = model.eval(v.t, model_completion=True).as_long()
                w[nm] = "%s.%s" % (v.name, V.ENUM_MEMBERS[v.name][k]) if 0 <= k < len(V.ENUM_MEMBERS[v.name]) else k
            elif isinstance(v, (V.VInt, V.VReal, V.VBool, V.VStr, V.VSlice, V.VSeq, V.VDyn, V.VObj)):
                w[nm] = _pyval(model, v.t)
            elif isinstance(v, V.VTuple):
                w[nm] = [_pyval(model, x.t) if hasattr(x, "t") else str(x) for x in v.items]
            elif isinstance(v, V.VNone):
                w[nm] = None
        except Exception:
            pass
    return w


def jobs_for(reg, prop, unit_filter=None):
    jobs = []
    for qn, c in reg.contracts.items():
        if c.assumed or c.inline or c.wip:
            continue
        if prop != "all" and prop not in c.props:
            continue
        if unit_filter and unit_filter not in qn:
            continue
        if c.instances:
            for k in range(len(c.instances)):
                jobs.append(("unit", qn, k))
        else:
            jobs.append(("unit", qn))
    for n, props, f in reg.lemmas:
        if (prop == "all" or prop in props) and (not unit_filter or unit_filter in n):
            jobs.append(("lemma", n))
    return jobs


def main():
    ap = argparse.ArgumentParser()
    ap.add_argument("prop")
    ap.add_argument("--tier", default=os.environ.get("VERIF_TIER", "quick"))
    ap.add_argument("--repo", default="/repo")
    ap.add_argument("--unit", default=None)
    ap.add_argument("--instance", type=int, default=None)
    ap.add_argument("--replay", default=None)
    ap.add_argument("--jobs", type=int, default=16)
    ap.add_argument("-v", action="store_true")
    ap.add_argument("--write-baseline", action="store_true",
                    help="record, per unit, the source fingerprint and the clauses discharged (only on a fully green run)")
    args = ap.parse_args()
    os.environ["PYVC_TIER"] = args.tier
    from pyvc import report
    sys.exit(report.run(args))


if __name__ == "__main__":
    main()
