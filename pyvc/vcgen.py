"""Verification-condition generation for one unit (function + contract) and solving."""
import subprocess
import tempfile
import time
import os
import z3

from .vals import *      # noqa: F401,F403
from . import vals as V
from .symexec import Exec, Path, Frame, Unsupported, Outcome
from .contracts import SpecEnv, Contract
from .builtins import Builtins


class Obligation:
    def __init__(self, unit, clause, hyps, goal, kind, prop_clause, meta=None):
        self.unit, self.clause, self.hyps, self.goal = unit, clause, hyps, goal
        self.kind, self.prop_clause, self.meta = kind, prop_clause, meta or {}
        self.verdict = None       # 'unsat' (discharged) | 'sat' | 'unknown'
        self.backend = None
        self.time = 0.0
        self.model = None
        self.model_text = None

    @property
    def name(self):
        return "%s/%s" % (self.unit, self.clause)


SIGMA_SORTS = None


def sigma_sorts():
    """The abstract HDF5 store (DESIGN 4.1)."""
    global SIGMA_SORTS
    if SIGMA_SORTS is None:
        SIGMA_SORTS = {
            "attr": z3.ArraySort(IntS, z3.ArraySort(StrS, Val)),     # object -> attribute name -> value (VNone = absent)
            "link": z3.ArraySort(IntS, z3.ArraySort(StrS, IntS)),    # group -> link name -> object (0 = absent)
            "ord": z3.ArraySort(IntS, z3.SeqSort(StrS)),             # group -> link names in creation order
            "kind": z3.ArraySort(IntS, IntS),                        # object -> 1 group | 2 dataset
            "dshape": z3.ArraySort(IntS, z3.SeqSort(IntS)),          # dataset -> shape
            "dtype": z3.ArraySort(IntS, Val),                        # dataset -> dtype tag
            "data": z3.ArraySort(IntS, Val),                         # dataset -> content (opaque / sequence)
            "parent": z3.ArraySort(IntS, IntS),                      # object -> containing group (tree part of the path)
            "pname": z3.ArraySort(IntS, StrS),                       # object -> its link name in parent (h5 .name tail)
            "clock": IntS,                                           # util.now_int() reads
            "fresh": IntS,                                           # allocation counter for new HDF5 objects
            "flushed": z3.ArraySort(IntS, IntS),                     # file -> number of flushes
        }
    return SIGMA_SORTS


def initial_path(reg):
    p = Path()
    for k, srt in sigma_sorts().items():
        p.sigma[k] = z3.Const("S0_" + k, srt)
    return p


class UnitResult:
    def __init__(self, unit):
        self.unit = unit
        self.obligations = []
        self.status = "ok"          # ok | undecided | error
        self.message = ""
        self.paths = 0
        self.inlined = []
        self.node_kinds = []
        self.vacuity = {}
        self.time = 0.0
        self.src = {}


def verify_unit(repo, reg, qualname, timeout_ms=10000, instance=None):
    """Symbolically execute the real function against its contract; returns UnitResult (obligations unsolved).
    qualname may carry a '#tag' suffix (additional contract on the same function); instance selects one entry of
    the contract's `instances` (concrete values for ghost names)."""
    t0 = time.time()
    c = reg.get(qualname)
    res = UnitResult(qualname if instance is None else "%s[%d]" % (qualname, instance))
    fi = repo.funcs.get(qualname.split("#")[0])
    if fi is None:
        res.status, res.message = "undecided", "function %s not found in repository" % qualname
        return res
    res.src = dict(file=repo.rel(fi.path), lines=list(fi.lines), sha256=repo.segment_sha(fi))
    bi = Builtins(reg)
    bi.load_enums(repo)
    ex = Exec(repo, reg, bi)
    ex.unit = qualname.split("#")[0]
    ex.current_contract = c
    ex.prefix_mode = bool(c.prefix)
    p = initial_path(reg)
    assumptions = []
    env = {}
    argnames = [a.arg for a in fi.node.args.args]
    if fi.node.args.vararg:
        argnames.append(fi.node.args.vararg.arg)
    try:
        for nm in argnames:
            if nm not in c.params:
                # a parameter the contract does not know (signature changed): an arbitrary dynamic value
                env[nm] = make_symbolic(nm, Dyn, assumptions)
                continue
            env[nm] = make_symbolic(nm, c.params[nm], assumptions)
        for nm, srt in c.ghost.items():
            env[nm] = make_symbolic(nm, srt, assumptions)
        if instance is not None:
            for nm, val in c.instances[instance].items():
                env[nm] = VStr(val) if isinstance(val, str) else (VInt(val) if isinstance(val, int) else val)
            res.src_instance = c.instances[instance]
        for nm, srt in c.params.items():
            if nm not in env:
                env[nm] = make_symbolic(nm, srt, assumptions)     # captured variables of closures
        for a in assumptions:
            p.assume(a)
        alloc0 = z3.Int("alloc0")
        for v in env.values():
            if isinstance(v, VObj):
                p.assume(v.t < alloc0)
        closure_vars = {nm: env[nm] for nm in c.params if nm not in argnames}
        fr = Frame(fi, None, {nm: env[nm] for nm in argnames}, self_cls=fi.cls)
        if closure_vars:
            pf = fi.parent
            outer = Frame(pf if pf is not None else fi, None, dict(closure_vars), self_cls=fi.cls)
            p.frames.append(outer)
            fr.parent = 0
        p.frames.append(fr)
        pre = SpecEnv(ex, p, dict(env), old=None, contract=c)
        pre.run_lets()
        ex.unit_env = pre.env
        for rid, rtxt in c.requires:
            p.assume(pre.bool(rtxt))
        for inv in class_invariants(reg, repo, fi, c):
            p.assume(pre.bool(inv))
        # store invariant (preserved by every primitive of the trusted store model): linked objects are positive,
        # older than the allocation counter, and no object is its own child
        g_, n_ = z3.Int("wfg"), z3.String("wfn")
        lk = p.sigma["link"]
        p.assume(p.sigma["fresh"] > 0)
        p.assume(z3.ForAll([g_, n_], z3.And(lk[g_][n_] >= 0, lk[g_][n_] < p.sigma["fresh"],
                                            z3.Or(lk[g_][n_] == 0, lk[g_][n_] != g_)),
                           patterns=[lk[g_][n_]]))
        if c.replay and c.replay.get("extract"):
            for k, expr in c.replay["extract"].items():
                try:
                    pre.env["@" + k] = pre.value(expr)
                except Exception:
                    pass
        # vacuity: the precondition must be satisfiable
        res.vacuity["pre_sat"] = ex.feasible(p)
        if not res.vacuity["pre_sat"]:
            res.status, res.message = "error", "precondition of %s is unsatisfiable (vacuous contract)" % qualname
            return res
        p0 = p.fork()
        if any(isinstance(n, (__import__("ast").Yield, __import__("ast").YieldFrom)) for n in __import__("ast").walk(fi.node)):
            acc = ex.new_cell(p, VTuple([], "list"))
            p.frame.vars["__yield__"] = acc
            outs = ex.exec_block(p, fi.node.body)
            for o in outs:
                if o.kind in ("next", "return"):
                    o.kind, o.value = "return", o.path.frame.vars["__yield__"]
        else:
            outs = ex.exec_block(p, fi.node.body)
    except Unsupported as e:
        res.status, res.message = "undecided", "unsupported construct in %s: %s" % (qualname, e)
        res.time = time.time() - t0
        return res
    res.paths = len(outs)
    res.inlined = sorted(ex.inlined)
    res.fingerprint = fingerprint(repo, fi, ex)
    res.fn_hashes = fn_hashes(repo, fi, ex)
    res.node_kinds = sorted(ex.node_kinds)
    obl = []
    pc0 = list(p0.pc)
    qualname = res.unit

    def is_prop(cid):
        return cid in c.prop_clauses

    try:
        normal_reached = False
        raise_conds = {}
        for ecls, (rtxt, tag) in c.raises.items():
            raise_conds[ecls] = SpecEnv(ex, p0, dict(pre.env), old=None, contract=c).bool(rtxt)
        for k, o in enumerate(outs):
            q = o.path
            if o.kind in ("next", "return"):
                normal_reached = True
                val = o.value if o.kind == "return" else NONE
                val = ex.deref(q, val)
                post = SpecEnv(ex, q, dict(pre.env), old=p0, contract=c)
                if c.result is not None:
                    try:
                        post.env["result"] = ex.coerce_to(q, val, c.result, "result")
                    except Unsupported as e:
                        obl.append(Obligation(qualname, "result-sort", list(q.pc), z3.BoolVal(False), "result-sort",
                                              False, dict(path=k, why=str(e))))
                        continue
                else:
                    post.env["result"] = val
                for nm in c.mutates:
                    post.env[nm + "__final"] = q.frames[-1].vars[nm]
                for eid, etxt, tag in c.ensures:
                    goal = post.bool(etxt, proving=True)
                    obl.append(Obligation(qualname, eid, list(q.pc), goal, "ensures",
                                          is_prop(eid), dict(path=k, text=etxt)))
                for ecls, cond in raise_conds.items():
                    cid = "raises-iff:" + ecls
                    obl.append(Obligation(qualname, cid, list(q.pc), z3.Not(cond), "raises-complete",
                                          is_prop(cid), dict(path=k, text="normal exit implies not (%s)" % c.raises[ecls][0])))
                frame_obligations(ex, c, p0, q, qualname, k, obl, is_prop, pre.env)
                if "fresh_result" in c.note and isinstance(post.env.get("result"), VObj):
                    obl.append(Obligation(qualname, "fresh-result", list(q.pc), post.env["result"].t >= z3.Int("alloc0"),
                                          "frame", False, dict(path=k, text="the returned object is newly allocated")))
            elif o.kind == "raise":
                exc = o.value
                conds = [cond for ecls, cond in raise_conds.items()
                         if repo.is_subclass(exc.cls, ecls.split("#")[0]) and ecls.split("#")[0] == exc.cls] or \
                        [cond for ecls, cond in raise_conds.items() if repo.is_subclass(exc.cls, ecls.split("#")[0])]
                cid = "raises-only:" + exc.cls
                if exc.cls in c.unexpected_ok:
                    continue
                goal = z3.Or(*conds) if conds else z3.BoolVal(False)
                obl.append(Obligation(qualname, cid, list(q.pc), goal, "raises-sound", is_prop(cid),
                                      dict(path=k, line=exc.site, text="%s raised at line %s only if specified" % (exc.cls, exc.site))))
                post = SpecEnv(ex, q, dict(pre.env), old=p0, contract=c)
                post.env["exc"] = VStr(exc.cls)
                for eid, etxt in c.on_raise:
                    goal = post.bool(etxt, proving=True)
                    obl.append(Obligation(qualname, eid, list(q.pc), goal, "on-raise", is_prop(eid),
                                          dict(path=k, text=etxt, exc=exc.cls)))
                if not c.raise_dirty:
                    atomic_obligations(ex, c, p0, q, qualname, k, obl, is_prop, exc)
            elif o.kind == "cut":
                # refusal prefix: whenever a refusal condition holds the call has been refused before this point
                for ecls, cond in raise_conds.items():
                    cid = "refused-before-cut:" + ecls
                    obl.append(Obligation(qualname, cid, list(q.pc), z3.Not(cond), "raises-complete", is_prop(cid) or True,
                                          dict(path=k, cut=str(o.value),
                                               text="reaching the unmodelled part (%s) implies not (%s)" % (o.value, c.raises[ecls][0]))))
                cutenv = SpecEnv(ex, q, dict(pre.env), old=p0, contract=c)
                for cid, ctxt in c.at_cut:
                    obl.append(Obligation(qualname, cid, list(q.pc), cutenv.bool(ctxt, proving=True), "at-cut", True,
                                          dict(path=k, cut=str(o.value), text=ctxt)))
                normal_reached = True
            else:
                raise Unsupported("outcome %s escaped function" % o.kind)
        for so in ex.obligs:
            cid = so["name"]
            obl.append(Obligation(qualname, cid, so["pc"], so["goal"], so["kind"], is_prop(cid), so["meta"]))
        res.vacuity["normal_exit_reachable"] = normal_reached
        # vacuity of the postconditions: some normal-exit (or cut) path must have a path condition the solver does not
        # refute - an absurd assumption (a contradictory callee summary, say) would make every clause trivially true
        normal_outs = [o for o in outs if o.kind in ("next", "return", "cut")]
        if normal_outs:
            feas = False
            for o in normal_outs[:12]:
                if ex.feasible(o.path):
                    feas = True
                    break
            res.vacuity["normal_exit_satisfiable"] = feas
            if not feas:
                res.status, res.message = "error", ("every normal-exit path of %s has an unsatisfiable path condition: its "
                                                    "postconditions would hold vacuously" % qualname)
                return res
    except Unsupported as e:
        res.status, res.message = "undecided", "unsupported construct in contract of %s: %s" % (qualname, e)
        res.time = time.time() - t0
        return res
    res.obligations = obl
    res.time = time.time() - t0
    res.vacuity["exec_solver_calls"] = ex.solver_calls
    res.vacuity["exec_solver_time"] = round(ex.solver_time, 2)
    res.vacuity["exec_solver_unknown"] = ex.solver_unknown
    if c.prefix:
        res.vacuity["prefix_only"] = sorted(set(ex.cuts))[:6]
    res.ex = ex
    res.env = pre.env
    return res


def fn_hashes(repo, fi, ex):
    """position-free AST hash of the unit's function and of every function executed inline (by qualified name)"""
    import ast
    import hashlib
    out = {fi.qualname: hashlib.sha256(ast.dump(fi.node).encode()).hexdigest()[:16]}
    for qn in sorted(ex.inlined):
        f2 = repo.funcs.get(qn)
        if f2 is not None:
            out[qn] = hashlib.sha256(ast.dump(f2.node).encode()).hexdigest()[:16]
    return out


def fingerprint(repo, fi, ex):
    """sha256 over the ASTs (no positions, comments or formatting) of everything of /repo this unit's obligations were
    generated from: the function, the functions executed inline, and the module constants that were evaluated."""
    import ast
    import hashlib
    h = hashlib.sha256()
    h.update(ast.dump(fi.node).encode())
    for qn in sorted(ex.inlined):
        f2 = repo.funcs.get(qn)
        if f2 is not None:
            h.update(qn.encode())
            h.update(ast.dump(f2.node).encode())
    for qual in sorted(ex.consts_seen):
        h.update(qual.encode())
        h.update(ex.consts_seen[qual].encode())
    return h.hexdigest()


def class_invariants(reg, repo, fi, c):
    out = []
    if fi.cls and fi.kind not in ("classmethod", "staticmethod") and fi.node.name != "__init__" \
            and fi.parent is None and "self" in c.params:
        for cls in repo.mro(fi.cls):
            out.extend(reg.invariants.get(cls, []))
    return out


def frame_obligations(ex, c, p0, q, unit, k, obl, is_prop, env=None):
    """Everything outside `modifies` is unchanged on normal exit."""
    for comp, t0 in p0.sigma.items():
        if comp in c.modifies or "sigma.*" in c.modifies:
            continue
        t1 = q.sigma[comp]
        if t1.eq(t0):
            continue
        cid = "frame:" + comp
        obl.append(Obligation(unit, cid, list(q.pc), t1 == t0, "frame", is_prop(cid) or True,
                              dict(path=k, text="store component %s unchanged" % comp)))
    for fld, t1 in q.heap.items():
        if ("heap." + fld) in c.modifies or fld in ex.undeclared_fields:
            continue
        ats = [m.split("@")[1] for m in c.modifies if m.startswith("heap.%s@" % fld) and not m.endswith("@new")]
        t0 = p0.heap.get(fld)
        if t0 is None:
            t0 = z3.Const("heap0_" + fld, t1.sort())
        if t1.eq(t0):
            continue
        # fields of objects allocated during the call are not part of the frame
        j = V.fresh("o", IntS)
        cid = "frame:heap." + fld
        excl = [j != env[a].t for a in ats]
        obl.append(Obligation(unit, cid, list(q.pc), z3.ForAll([j], z3.Implies(z3.And(j < z3.Int("alloc0"), *excl), t1[j] == t0[j])),
                              "frame", True, dict(path=k, text="field %s of pre-existing objects unchanged" % fld)))


def atomic_obligations(ex, c, p0, q, unit, k, obl, is_prop, exc):
    """On an exceptional exit the abstract store is unchanged (C12), unless raise_dirty."""
    for comp, t0 in p0.sigma.items():
        t1 = q.sigma[comp]
        if t1.eq(t0) or comp in ("clock", "fresh"):
            continue
        cid = "atomic:" + comp
        obl.append(Obligation(unit, cid, list(q.pc), t1 == t0, "atomic", True,
                              dict(path=k, exc=exc.cls, line=exc.site,
                                   text="store component %s unchanged when %s is raised (line %s)" % (comp, exc.cls, exc.site))))


# --------------------------------------------------------------------------
# solving
# --------------------------------------------------------------------------
def _timed_check(s, ms):
    import threading
    timer = threading.Timer(ms / 1000.0 * 1.3 + 0.5, s.ctx.interrupt)
    timer.daemon = True
    timer.start()
    try:
        return s.check()
    except z3.Z3Exception:
        return z3.unknown
    finally:
        timer.cancel()


def solve(ob, timeout_ms=10000, axioms=(), use_cvc5=True, extra_hyps=()):
    from .symexec import _has_quant
    t0 = time.time()
    hyps = list(axioms) + list(ob.hyps) + list(extra_hyps)
    neg = z3.Not(ob.goal)
    qf = [h for h in hyps if not _has_quant(h)]
    r = z3.unknown
    # stage 1: quantifier-free hypotheses only (a proof from fewer hypotheses is a proof)
    if len(qf) < len(hyps):
        s = z3.Solver()
        s.set("timeout", min(timeout_ms, 3000))
        s.add(*qf)
        s.add(neg)
        if _timed_check(s, min(timeout_ms, 3000)) == z3.unsat:
            r = z3.unsat
    s = z3.Solver()
    if r != z3.unsat:
        s.set("timeout", timeout_ms)
        s.add(*hyps)
        s.add(neg)
        r = _timed_check(s, timeout_ms)
        if r == z3.unknown:
            # retry with other seeds (quantifier instantiation order is seed dependent); verdicts never flip
            # between sat and unsat, only unknown may become decided
            for seed in (11,):
                s2 = z3.Solver()
                s2.set("timeout", timeout_ms)
                s2.set("random_seed", seed)
                s2.add(*hyps)
                s2.add(neg)
                r2 = _timed_check(s2, timeout_ms)
                if r2 != z3.unknown:
                    r, s = r2, s2
                    break
    ob.time = time.time() - t0
    ob.backend = "z3"
    if r == z3.unsat:
        ob.verdict = "unsat"
    elif r == z3.sat:
        ob.verdict = "sat"
        try:
            ob.model = s.model()
            ob.model_text = str(ob.model)[:4000]
        except Exception:
            ob.model = None
    else:
        ob.verdict = "unknown"
        if use_cvc5:
            v = run_cvc5(s.to_smt2(), timeout_ms)
            if v in ("unsat", "sat"):
                ob.verdict = v
                ob.backend = "cvc5"
                ob.time = time.time() - t0
    return ob.verdict


def refine_model(ob, timeout_ms=5000):
    """Counter-models use uninterpreted rdiv/rmul; for replay ask for one that respects their meaning
    (instance axioms rdiv(a,b)*b = a, rmul(a,b) = a*b). Returns a model or None."""
    from .ops import OpsMixin
    apps, seen, todo = [], set(), list(ob.hyps) + [ob.goal]
    while todo:
        x = todo.pop()
        i = x.get_id()
        if i in seen:
            continue
        seen.add(i)
        if z3.is_app(x) and x.decl().name() in ("rdiv", "rmul"):
            apps.append(x)
        if z3.is_quantifier(x):
            todo.append(x.body())
        else:
            todo.extend(x.children())
    if not apps:
        return None
    s = z3.Solver()
    s.set("timeout", timeout_ms)
    s.add(*ob.hyps)
    s.add(z3.Not(ob.goal))
    for a in apps:
        try:
            if a.decl().name() == "rdiv":
                s.add(z3.Implies(a.arg(1) != 0, a * a.arg(1) == a.arg(0)))
            else:
                s.add(a == a.arg(0) * a.arg(1))
        except z3.Z3Exception:
            pass
    if _timed_check(s, timeout_ms) == z3.sat:
        return s.model()
    return None


def run_cvc5(smt2, timeout_ms):
    txt = "(set-logic ALL)\n" + smt2
    with tempfile.NamedTemporaryFile("w", suffix=".smt2", delete=False) as f:
        f.write(txt)
        path = f.name
    try:
        r = subprocess.run(["/usr/bin/cvc5", "--strings-exp", "--dt-nested-rec", "--tlimit=%d" % timeout_ms, path],
                           capture_output=True, text=True, timeout=timeout_ms / 1000.0 + 5)
        out = r.stdout.strip().split("\n")[0] if r.stdout.strip() else ""
        return out if out in ("sat", "unsat") else "unknown"
    except Exception:
        return "unknown"
    finally:
        os.unlink(path)
