"""Aggregate results of one check run, decide the exit code, write evidence and replay files."""
import json
import multiprocessing as mp
import os
import subprocess
import sys
import time

HERE = os.path.dirname(os.path.abspath(__file__))
ROOT = os.path.dirname(HERE)

PROPS = ["C%02d" % i for i in range(1, 21)]


def load_known():
    path = os.path.join(ROOT, "known_findings.json")
    if not os.path.exists(path):
        return {"known": [], "fixed": []}
    return json.load(open(path))


def run(args):
    from pyvc import main as M
    t0 = time.time()
    seed = int(os.environ.get("VERIF_SEED", "0") or 0)
    props = PROPS if args.prop == "all" else [args.prop]
    repo, reg = M.setup(args.repo)
    timeout_ms = 10000 if args.tier == "quick" else 60000
    known = load_known()
    rc_all = 0
    for prop in props:
        rc = run_prop(args, prop, repo, reg, timeout_ms, known, seed)
        rc_all = max(rc_all, rc)
    return rc_all


def run_prop(args, prop, repo, reg, timeout_ms, known, seed):
    from pyvc import main as M
    t0 = time.time()
    jobs = M.jobs_for(reg, prop, args.unit)
    bounded = [(n, f) for (n, props, f) in reg.bounded if prop in props] if not args.unit else []
    if not jobs and not bounded:
        print("%s: no units registered" % prop)
        return 3
    kmap = {}
    for kf in known.get("known", []):
        if kf["property"] == prop:
            kmap.setdefault(kf["clause"], []).append(kf)
    if getattr(args, "instance", None) is not None:
        jobs = [j for j in jobs if len(j) > 2 and j[2] == args.instance]
    payload = [(j[0], j[1], args.repo, timeout_ms, kmap) + tuple(j[2:]) for j in jobs]
    payload += [("bounded", n, args.repo, timeout_ms, kmap) for n, f in bounded if args.tier == "thorough" or True]
    if args.jobs > 1 and len(payload) > 1:
        hard_s = float(os.environ.get("PYVC_HARD_S", "150" if args.tier == "quick" else "1500"))
        results = run_jobs(payload, args.jobs, hard_s, timeout_ms)
    else:
        results = [M.run_unit(j) for j in payload]
    return summarize(args, prop, results, reg, known, kmap, seed, time.time() - t0, timeout_ms)


def changed_functions(repo_dir, b_unit):
    """names of the functions (unit + inlined, as recorded in the baseline) whose AST differs from the baseline's"""
    import ast
    import hashlib
    from pyvc import main as M
    repo, _ = M.setup(repo_dir)
    out = []
    for qn, h in sorted((b_unit.get("fn_hashes") or {}).items()):
        fi = repo.funcs.get(qn)
        cur = hashlib.sha256(ast.dump(fi.node).encode()).hexdigest()[:16] if fi is not None else None
        if cur != h:
            out.append(qn)
    return out


def _child(jobs, conn):
    from pyvc import main as M
    out = []

    def progress(n_obligations):
        try:
            conn.send(("progress", n_obligations))
        except Exception:
            pass
    for j in jobs:
        out.append(M.run_unit(j, progress))
    try:
        conn.send(out)
    finally:
        conn.close()


def run_jobs(payload, njobs, hard_s, timeout_ms=10000):
    """One forked process per chunk of jobs with a hard wall-clock limit: a solver call that ignores its timeout and
    interrupts is killed and its jobs are reported UNDECIDED (never a violation, never a hang)."""
    from multiprocessing.connection import wait
    ctx = mp.get_context("fork")
    csize = 1 if len(payload) <= 200 else max(1, len(payload) // (njobs * 8))
    chunks = [list(range(k, min(k + csize, len(payload)))) for k in range(0, len(payload), csize)]
    results = [None] * len(payload)
    pending, running, retried = list(chunks), {}, {}
    while pending or running:
        while pending and len(running) < njobs:
            ch = pending.pop(0)
            rc, wc = ctx.Pipe(False)
            pr = ctx.Process(target=_child, args=([payload[i] for i in ch], wc))
            pr.start()
            wc.close()
            running[rc] = (pr, ch, time.time(), 0.0)
        ready = wait(list(running), timeout=0.5)
        now = time.time()
        for rc in list(running):
            pr, ch, t0, extra = running[rc]
            if rc in ready:
                try:
                    out = rc.recv()
                except (EOFError, OSError):
                    out = None
                if isinstance(out, tuple) and out and out[0] == "progress":
                    # generation finished: the solving phase has its own per-query limits; extend the deadline to cover it
                    extra = (out[1] / 3.0 + 2) * (3.2 * timeout_ms / 1000.0 + 12)
                    running[rc] = (pr, ch, now, extra)
                    continue
                if out is None and retried.get(tuple(ch), 0) < 2:
                    # the worker died (z3 occasionally segfaults): run the chunk again
                    retried[tuple(ch)] = retried.get(tuple(ch), 0) + 1
                    pr.join()
                    rc.close()
                    del running[rc]
                    pending.append(ch)
                    continue
                if out is None:
                    out = [dict(kind=payload[i][0], name=payload[i][1], status="crash",
                                message="worker died without a result (3 attempts)", obligations=[]) for i in ch]
                for i, r in zip(ch, out):
                    results[i] = r
                pr.join()
                rc.close()
                del running[rc]
            elif now - t0 > hard_s * max(1, len(ch) // 20) + extra:
                pr.kill()
                pr.join()
                rc.close()
                del running[rc]
                if retried.get(tuple(ch), 0) < 2:
                    retried[tuple(ch)] = retried.get(tuple(ch), 0) + 1     # a stuck solver call is timing dependent: up to 3 attempts
                    pending.append(ch)
                    continue
                for i in ch:
                    results[i] = dict(kind=payload[i][0], name=payload[i][1], status="undecided", obligations=[],
                                      message="hard time limit of %ds exceeded in 3 attempts (solver ignored its timeout)" % hard_s)
    return results


def summarize(args, prop, results, reg, known, kmap, seed, wall, timeout_ms):
    n_ob = n_dis = 0
    undecided, crashed, violations, known_hits = [], [], [], []
    backend = {}
    solver_time = 0.0
    samples = []
    units = []
    bounded_out = []
    clause_status = {}
    base_path = os.path.join(ROOT, "baseline", "%s.json" % prop)
    baseline = json.load(open(base_path)) if os.path.exists(base_path) else {}
    new_base = {}
    for r in results:
        if r["status"] == "crash":
            crashed.append((r["name"], r["message"]))
            continue
        if r["status"] == "undecided":
            b_unit = baseline.get(r["name"])
            changed = changed_functions(args.repo, b_unit) if (b_unit and "unsupported construct" in (r.get("message") or "")) else []
            if changed and b_unit.get("discharged"):
                # the unit verified completely for the recorded source; a function it is generated from has been changed
                # and the result is code this unit's contract can no longer be checked against: every clause of the unit is
                # an obligation that was discharged before and is not discharged now
                violations.append(dict(name=r["name"] + "/*", clause="*", unit=r["name"], witness=None, harness=None, model=None,
                                       kind="unverifiable-after-change",
                                       meta=dict(text="all %d clauses of this unit were discharged for the baseline source; the "
                                                      "changed source (%s) can no longer be verified against the contract: %s"
                                                      % (len(b_unit["discharged"]), ", ".join(changed), r.get("message")))))
                continue
            undecided.append((r["name"], r["message"]))
            continue
        if r["kind"] == "bounded":
            b = r.get("bounded", {})
            b["name"] = r["name"]
            bounded_out.append(b)
            kc = b.get("known_class")
            if kc and kc.get("count", 0) > 0:
                listed = [k for k in known.get("known", []) if k.get("id") == kc["id"] and k.get("property") == prop]
                if listed:
                    print("KNOWN-FINDING: property=%s %s [%s; %d inputs in the explored bound, e.g. %r]"
                          % (prop, listed[0]["what"], r["name"], kc["count"], kc.get("samples", [])[:3]))
                    b["known_finding"] = listed[0]["id"]
                else:
                    violations.append(dict(name=r["name"], clause="bounded", unit=r["name"],
                                           witness=dict(inputs=kc.get("samples")), model=None,
                                           meta=dict(text="bounded stand-in found counterexamples (class %s)" % kc["id"]),
                                           bounded=True))
            for v in b.get("violations", []):
                violations.append(dict(name=r["name"], clause="bounded", unit=r["name"], witness=v, model=None,
                                       meta=dict(text="bounded stand-in found a counterexample"), bounded=True))
            if b.get("status") == "undecided":
                undecided.append((r["name"], b.get("message", "")))
            continue
        if r["status"] != "ok":
            (undecided if r["status"] == "undecided" else crashed).append((r["name"], r["message"]))
            continue
        if getattr(args, "v", False):
            print("   [unit %s: gen %.1fs, wall %.1fs, %d obligations]" % (r["name"], r.get("gen_time", 0), r.get("wall", 0), len(r["obligations"])), r.get("vacuity"))
        if r["kind"] == "unit":
            units.append(dict(qualname=r["name"], paths=r["paths"], inlined=r["inlined"], vacuity=r["vacuity"],
                              node_kinds=r["node_kinds"], **r["src"]))
            if not r["obligations"]:
                crashed.append((r["name"], "unit generated zero obligations"))
        if r["kind"] == "unit":
            new_base[r["name"]] = dict(fingerprint=r.get("fingerprint"), fn_hashes=r.get("fn_hashes"),
                                       discharged=sorted({o["name"] for o in r["obligations"]} -
                                                         {o["name"] for o in r["obligations"] if o["verdict"] != "unsat"}))
        b_unit = baseline.get(r["name"]) if r["kind"] == "unit" else None
        src_changed = bool(b_unit) and b_unit.get("fingerprint") not in (None, r.get("fingerprint"))
        for ob in r["obligations"]:
            n_ob += 1
            solver_time += ob["time"]
            cs = clause_status.setdefault(ob["name"], dict(total=0, unsat=0, sat=[], unknown=0, prop=ob["prop"], kind=ob["kind"]))
            cs["total"] += 1
            if ob["verdict"] == "unsat":
                n_dis += 1
                cs["unsat"] += 1
                backend[ob["backend"]] = backend.get(ob["backend"], 0) + 1
                if len(samples) < 4 and "smt2" in ob:
                    samples.append(dict(obligation=ob["name"], kind=ob["kind"], verdict="unsat (discharged)",
                                        text=ob["meta"].get("text"), smt2=ob["smt2"][:1500]))
            elif ob["verdict"] == "sat":
                cs["sat"].append(ob)
            else:
                cs["unknown"] += 1
                # (a baseline is only recorded by a fully green run: every obligation of a unit it lists was discharged.
                #  The automatic clause families - atomicity on raising paths, frames, raised-only-if-specified - belong
                #  to the contract whether or not the unchanged code produced an instance of them: a raising path that
                #  had written nothing needed no `atomic:` instance. An instance that appears only for the changed source
                #  and is not discharged is therefore an obligation that held before and does not hold now.)
                auto_family = ob["clause"].startswith(("atomic:", "frame:", "raises-only:", "raises-iff:"))
                if src_changed and (ob["name"] in b_unit.get("discharged", []) or (auto_family and b_unit.get("discharged"))):
                    # this obligation was discharged for the recorded (unchanged) source of this function and is not
                    # discharged for the changed source: a failed obligation without a counter-model
                    ob2 = dict(ob)
                    ob2["meta"] = dict(ob["meta"], solver="unknown within %d ms (z3, retried with 2 seeds, then cvc5); "
                                       "discharged for the baseline source of this unit, whose fingerprint differs" % timeout_ms)
                    cs.setdefault("failed", []).append(ob2)
                else:
                    undecided.append((ob["name"], "solver returned unknown within %d ms" % timeout_ms))
    # classify refuted clauses
    for cname, cs in clause_status.items():
        if not cs["sat"] and cs.get("failed"):
            ob = cs["failed"][0]
            violations.append(dict(name=cname, clause=ob["clause"], unit=cname.rsplit("/", 1)[0], witness=None, harness=None,
                                   model=None, meta=ob["meta"], smt2=ob.get("smt2"), kind=ob["kind"]))
            continue
        if not cs["sat"]:
            continue
        kfs = kmap.get(cname, [])
        if kfs:
            known_hits.append((cname, kfs))
            continue
        ob = cs["sat"][0]
        violations.append(dict(name=cname, clause=ob["clause"], unit=cname.rsplit("/", 1)[0], witness=ob.get("witness"),
                               harness=ob.get("replay_harness"),
                               model=ob.get("model"), meta=ob["meta"], smt2=ob.get("smt2"), kind=ob["kind"]))
    # output
    for cname, kfs in known_hits:
        for kf in kfs:
            print("KNOWN-FINDING: property=%s %s [%s]" % (prop, kf["what"], cname))
    rc = 0
    if crashed:
        for n, m in crashed:
            print("CHECKER-ERROR %s: %s" % (n, m))
        rc = 3
    if undecided and rc == 0:
        rc = 2
    for n, m in undecided:
        print("UNDECIDED %s: %s" % (n, m))
    if violations:
        rc = 1
        os.makedirs(os.path.join(ROOT, "replays", prop), exist_ok=True)
        from pyvc import replay as RP
        for v in violations:
            path, confirmed = RP.write_and_run(ROOT, prop, v, args.repo)
            suffix = "" if confirmed else " no-failing-input-found"
            print("VIOLATION property=%s replay=%s clause=%s%s" % (prop, path, v["name"], suffix))
    print("%s: %d obligations, %d discharged, %d refuted clause(s), %d known finding(s), %d undecided, %d units, %.1fs"
          % (prop, n_ob, n_dis, len(violations), len(known_hits), len(undecided), len(units), wall))
    if getattr(args, "v", False):
        for cname, cs in sorted(clause_status.items()):
            print("   %-90s %d/%d %s" % (cname, cs["unsat"], cs["total"], "PROP" if cs["prop"] else ""))
    selftest = None
    if args.tier == "thorough" and not args.unit and args.repo == "/repo" and rc == 0 and not os.environ.get("PYVC_IN_SELFTEST"):
        selftest = mutation_selftest(prop, args)
        for sid, st in selftest.items():
            if st.get("expected_detected") and not st.get("detected"):
                print("SELFTEST-REGRESSION %s: the seeded change %s is no longer reported by this check (exit %s)"
                      % (prop, sid, st.get("rc")))
                rc = max(rc, 3)
    if getattr(args, "write_baseline", False) and rc == 0 and not args.unit and args.repo == "/repo":
        os.makedirs(os.path.join(ROOT, "baseline"), exist_ok=True)
        json.dump(new_base, open(base_path, "w"), indent=0, sort_keys=True)
    if not args.unit and args.repo == "/repo":
        write_evidence(args, prop, reg, units, n_ob, n_dis, backend, solver_time, samples, bounded_out,
                       violations, known_hits, undecided, seed, wall, clause_status, selftest, results)
    return rc


def mutation_selftest(prop, args):
    """Thorough tier only - a self-test of the machinery, not evidence for the property: every seeded breaking change of
    this property that the quick check is recorded to report (seeded/RESULTS.json) is applied to a scratch COPY of
    /repo's working tree (outside /repo and /verif, removed afterwards) and must be reported again."""
    import shutil
    import tempfile
    out = {}
    respath = os.path.join(ROOT, "seeded", "RESULTS.json")
    if not os.path.exists(respath):
        return out
    res = json.load(open(respath))
    for sid, r in sorted(res.items()):
        own = r.get("checks", {}).get(prop)
        if not own or own.get("rc") != 1:
            continue
        patch = os.path.join(ROOT, "seeded", sid, "patch.diff")
        if not os.path.exists(patch):
            continue
        scratch = tempfile.mkdtemp(prefix="pyvc_mut_")
        try:
            shutil.copytree(os.path.join(args.repo, "nixio"), os.path.join(scratch, "nixio"),
                            ignore=shutil.ignore_patterns("__pycache__", "*.pyc", "test"))
            a = subprocess.run(["git", "apply", "-C1", patch], cwd=scratch, capture_output=True, text=True)
            if a.returncode != 0:
                out[sid] = dict(expected_detected=False, note="patch does not apply to the current tree")
                continue
            r2 = subprocess.run([os.path.join(ROOT, "check"), prop, "--tier", "quick", "--repo", scratch, "--jobs", str(args.jobs)],
                                cwd=ROOT, capture_output=True, text=True, env=dict(os.environ, PYVC_IN_SELFTEST="1"))
            lines = [ln[:300] for ln in r2.stdout.splitlines() if ln.startswith("VIOLATION")]
            out[sid] = dict(expected_detected=True, detected=(r2.returncode == 1 and bool(lines)), rc=r2.returncode,
                            reported=lines[:3])
        finally:
            shutil.rmtree(scratch, ignore_errors=True)
    return out


def write_evidence(args, prop, reg, units, n_ob, n_dis, backend, solver_time, samples, bounded_out,
                   violations, known_hits, undecided, seed, wall, clause_status, selftest=None, results=None):
    assumed = sorted(qn for qn, c in reg.contracts.items() if c.assumed and (prop in c.props or not c.props))
    trusted = ["z3 %s (SMT back end); cvc5 1.0.3 for z3 'unknown'" % __import__("z3").get_version_string(),
               "pyvc symbolic executor + VC generator (/verif/pyvc), encoding assumptions of DESIGN.md section 2 "
               "(int = mathematical integers, float = reals, str = code-point sequences)"]
    trusted += ["assumed contract: " + a for a in assumed]
    ev = {
        "property_id": prop, "tier": args.tier if args.tier in ("quick", "thorough") else "quick", "seed": seed,
        "level": "proof",
        "coverage": {
            "obligations": n_ob, "discharged": n_dis,
            "checker_cmd": "./check %s --tier %s" % (prop, args.tier),
            "trusted_base": trusted,
            "functions_under_contract": units,
            "backend_counts": backend, "solver_time_s": round(solver_time, 3),
            "clauses": {k: dict(paths=v["total"], discharged=v["unsat"], property_clause=v["prop"], kind=v["kind"])
                        for k, v in sorted(clause_status.items())},
            "bounded": bounded_out,
            "known_findings_excluded": [dict(clause=c, findings=[k["what"] for k in kfs]) for c, kfs in known_hits],
            "undecided": [list(u) for u in undecided],
            "samples": samples or [dict(note="no sample recorded")],
            "second_solver": second_solver_counts(results),
            "mutation_selftest": selftest if selftest is not None else "thorough tier only",
        },
        "assumptions": trusted + PROP_ASSUMPTIONS.get(prop, []),
        "wall_s": round(wall, 2),
        "violations": len(violations),
    }
    compact_instances(ev["coverage"])
    os.makedirs(os.path.join(ROOT, "evidence"), exist_ok=True)
    with open(os.path.join(ROOT, "evidence", "%s.json" % prop), "w") as f:
        json.dump(ev, f, indent=1, default=str)


def compact_instances(cov):
    """Instance families (one unit per table entry, `name#table[k]`) are folded into one record per family so that the
    evidence file stays readable (C09 has 3900 instance units): counts are summed, the first instance is kept as the example."""
    import re
    fam = lambda n: re.sub(r"\[\d+\]", "[*]", n)
    units, seen = [], {}
    for u in cov["functions_under_contract"]:
        k = fam(u["qualname"])
        if k == u["qualname"]:
            units.append(u)
            continue
        if k not in seen:
            rec = dict(u, qualname=k, instances=0, example_instance=u["qualname"], paths=0)
            seen[k] = rec
            units.append(rec)
        seen[k]["instances"] += 1
        seen[k]["paths"] += u.get("paths", 0)
    cov["functions_under_contract"] = units
    clauses = {}
    for name, c in cov["clauses"].items():
        k = fam(name)
        if k not in clauses:
            clauses[k] = dict(c)
            if k != name:
                clauses[k]["instances"] = 1
        else:
            clauses[k]["paths"] += c["paths"]
            clauses[k]["discharged"] += c["discharged"]
            clauses[k]["instances"] = clauses[k].get("instances", 1) + 1
    cov["clauses"] = clauses
    cov["units_total"] = len(units) + sum(r["instances"] - 1 for r in seen.values())


def second_solver_counts(results):
    if not results:
        return "thorough tier only"
    c = {}
    for r in results:
        for ob in (r or {}).get("obligations", []):
            k = ob.get("second_solver")
            if k:
                c[k] = c.get(k, 0) + 1
    return c or "thorough tier only"


PROP_ASSUMPTIONS = {}
