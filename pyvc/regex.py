"""Python `re` for the regex subset used by nixio (assumed semantics: leftmost-first backtracking).

A pattern is parsed with CPython's own parser (re._parser). Matching against a symbolic string produces the
ORDERED list of alternatives (condition, end position, captures) that a backtracking matcher would try;
the match is the first alternative whose condition holds. Supported: literals, groups, ordered alternation,
`?` on a group, character classes, a greedy class repeat at the end of the pattern (or before `$`), `^`, `$`.
Patterns without named groups are decided through z3's regular-expression theory (language membership).
"""
import re._parser as sre_parse
import re._constants as sre_c
import z3

from .vals import *      # noqa: F401,F403
from . import vals as V
from .symexec import Unsupported


class VRegex(SV):
    def __init__(self, pattern):
        self.pattern = pattern
        self.tree = sre_parse.parse(pattern)
        self.groupindex = dict(self.tree.state.groupdict)


class VMatch(SV):
    def __init__(self, cond, alts, subject, regex):
        self.cond, self.alts, self.subject, self.regex = cond, alts, subject, regex


def _class_re(items):
    """z3 regex for a character class (list of IN items)"""
    parts = []
    for op, av in items:
        if op == sre_c.LITERAL:
            parts.append(z3.Re(chr(av)))
        elif op == sre_c.RANGE:
            parts.append(z3.Range(chr(av[0]), chr(av[1])))
        elif op == sre_c.CATEGORY and av == sre_c.CATEGORY_DIGIT:
            parts.append(z3.Range("0", "9"))
        else:
            raise Unsupported("regex class item %s" % (op,))
    return parts[0] if len(parts) == 1 else z3.Union(*parts)


def to_z3re(items):
    """language of a parsed (sub)pattern; anchors are ignored here (handled by the caller)"""
    seq = []
    for op, av in items:
        if op == sre_c.LITERAL:
            seq.append(z3.Re(chr(av)))
        elif op == sre_c.SUBPATTERN:
            seq.append(to_z3re(av[3]))
        elif op == sre_c.BRANCH:
            seq.append(z3.Union(*[to_z3re(b) for b in av[1]]) if len(av[1]) > 1 else to_z3re(av[1][0]))
        elif op == sre_c.MAX_REPEAT:
            lo, hi, sub = av
            r = to_z3re(sub)
            if (lo, hi) == (0, 1):
                seq.append(z3.Option(r))
            elif lo == 0 and hi == sre_c.MAXREPEAT:
                seq.append(z3.Star(r))
            elif lo == 1 and hi == sre_c.MAXREPEAT:
                seq.append(z3.Plus(r))
            else:
                raise Unsupported("regex repeat {%s,%s}" % (lo, hi))
        elif op == sre_c.IN:
            seq.append(_class_re(av))
        elif op == sre_c.AT:
            continue
        elif op == sre_c.ANY:
            seq.append(z3.AllChar(z3.ReSort(StrS)))
        else:
            raise Unsupported("regex construct %s" % (op,))
    if not seq:
        return z3.Re("")
    return seq[0] if len(seq) == 1 else z3.Concat(*seq)


ANY = None


def sigma_star():
    return z3.Full(z3.ReSort(StrS))


def anchored(tree):
    items = list(tree)
    beg = bool(items) and items[0][0] == sre_c.AT and items[0][1] == sre_c.AT_BEGINNING
    end = bool(items) and items[-1][0] == sre_c.AT and items[-1][1] == sre_c.AT_END
    return beg, end


class Matcher:
    """ordered alternatives of a backtracking match of `items` on string term s from position pos.
    Positions are python ints while they are concrete; literal tests that fall into a concrete prefix of the
    subject are decided immediately (pruning the enumeration)."""

    def __init__(self, ex, p, s):
        self.ex, self.p, self.s = ex, p, s
        self.n = z3.Length(s)
        ss = z3.simplify(s)
        self.prefix = ""
        self.whole = None
        if z3.is_string_value(ss):
            self.prefix = ss.as_string()
            self.whole = self.prefix
        elif z3.is_app(ss) and ss.decl().kind() == z3.Z3_OP_SEQ_CONCAT and z3.is_string_value(ss.arg(0)):
            self.prefix = ss.arg(0).as_string()
        self.run_end = {}

    def _z(self, pos):
        return z3.IntVal(pos) if isinstance(pos, int) else pos

    def _add(self, pos, k):
        return pos + k if isinstance(pos, int) else z3.simplify(pos + k)

    def _lit(self, pos, lit):
        """condition for `lit` at pos: False / True / z3 Bool"""
        if isinstance(pos, int):
            k = min(len(lit), max(0, len(self.prefix) - pos))
            if self.prefix[pos:pos + k] != lit[:k]:
                return False
            if k == len(lit):
                return True
            if self.whole is not None:
                return False              # subject ends before the literal does
        return z3.SubString(self.s, self._z(pos), len(lit)) == z3.StringVal(lit)

    def _run_end(self, pos, cls):
        """end of the longest run of class characters starting at pos (a total, uniquely defined ghost value)"""
        key = (str(pos), str(cls))
        if key not in self.run_end:
            e = V.fresh("re_end", IntS)
            zp = self._z(pos)
            run = z3.SubString(self.s, zp, e - zp)
            self.p.assume(z3.And(
                e >= zp,
                z3.Implies(zp <= self.n, z3.And(e <= self.n, z3.InRe(run, z3.Star(cls)),
                                                z3.Or(e == self.n, z3.Not(z3.InRe(z3.SubString(self.s, e, 1), cls))))),
                z3.Implies(zp > self.n, e == zp)))
            self.run_end[key] = e
        return self.run_end[key]

    def alts(self, items, pos, caps):
        """returns list of (conds list, pos, caps dict) in priority order"""
        if not items:
            return [([], pos, caps)]
        (op, av), rest = items[0], items[1:]
        out = []
        if op == sre_c.LITERAL:
            lit = chr(av)
            k = 1
            while k < len(items) and items[k][0] == sre_c.LITERAL:
                lit += chr(items[k][1])
                k += 1
            c = self._lit(pos, lit)
            if c is False:
                return []
            for cs, e, cp in self.alts(items[k:], self._add(pos, len(lit)), caps):
                out.append((cs if c is True else [c] + cs, e, cp))
            return out
        if op == sre_c.AT:
            if av == sre_c.AT_BEGINNING:
                c = (pos == 0) if isinstance(pos, int) else (pos == 0)
            else:
                c = (pos == len(self.whole)) if (isinstance(pos, int) and self.whole is not None) else (self._z(pos) == self.n)
            if c is False:
                return []
            for cs, e, cp in self.alts(rest, pos, caps):
                out.append((cs if c is True else [c] + cs, e, cp))
            return out
        if op == sre_c.IN:
            zp = self._z(pos)
            c = z3.And(zp < self.n, z3.InRe(z3.SubString(self.s, zp, 1), _class_re(av)))
            if isinstance(pos, int) and pos < len(self.prefix):
                c = z3.simplify(z3.InRe(z3.StringVal(self.prefix[pos]), _class_re(av)))
                if z3.is_false(c):
                    return []
            for cs, e, cp in self.alts(rest, self._add(pos, 1), caps):
                out.append(([c] + cs, e, cp))
            return out
        if op == sre_c.SUBPATTERN:
            gid, _, _, sub = av
            for cs, e, cp in self.alts(list(sub), pos, caps):
                cp2 = dict(cp)
                if gid is not None:
                    cp2[gid] = (pos, e)
                for cs2, e2, cp3 in self.alts(rest, e, cp2):
                    out.append((cs + cs2, e2, cp3))
            return out
        if op == sre_c.BRANCH:
            for br in av[1]:
                for cs, e, cp in self.alts(list(br), pos, caps):
                    for cs2, e2, cp3 in self.alts(rest, e, cp):
                        out.append((cs + cs2, e2, cp3))
            return out
        if op == sre_c.MAX_REPEAT:
            lo, hi, sub = av
            if (lo, hi) == (0, 1):
                for cs, e, cp in self.alts(list(sub), pos, caps):
                    for cs2, e2, cp3 in self.alts(rest, e, cp):
                        out.append((cs + cs2, e2, cp3))
                out.extend(self.alts(rest, pos, caps))      # greedy: the empty alternative comes last
                return out
            if hi == sre_c.MAXREPEAT and len(sub) == 1 and sub[0][0] == sre_c.IN and \
                    (not rest or (len(rest) == 1 and rest[0][0] == sre_c.AT)):
                # greedy class repeat with nothing (or only `$`) after it: the longest run is the only candidate
                cls = _class_re(sub[0][1])
                e = self._run_end(pos, cls)
                c = e >= self._z(pos) + lo
                for cs, e2, cp in self.alts(rest, e, caps):
                    out.append(([c] + cs, e2, cp))
                return out
            raise Unsupported("regex repeat in group-extracting match")
        raise Unsupported("regex construct %s in match" % (op,))


def do_match(ex, p, rx, subject, mode):
    """mode: 'match' (anchored at 0) | 'search'"""
    s = subject.t
    tree = list(rx.tree)
    beg, end = anchored(tree)
    if not rx.groupindex:
        lang = to_z3re(tree)
        if mode == "match" or beg:
            r = lang if end else z3.Concat(lang, sigma_star())
        else:
            r = z3.Concat(sigma_star(), lang) if end else z3.Concat(sigma_star(), lang, sigma_star())
        return VMatch(z3.InRe(s, r), None, subject, rx)
    if mode != "match":
        raise Unsupported("search() with named groups")
    m = Matcher(ex, p, s)
    alts = []
    for cs, e, cp in m.alts(tree, 0, {}):
        c = z3.simplify(z3.And(*cs)) if cs else z3.BoolVal(True)
        if z3.is_false(c):
            continue
        alts.append((c, e, cp))
    cond = z3.Or(*[c for c, _, _ in alts]) if alts else z3.BoolVal(False)
    return VMatch(cond, alts, subject, rx)


def match_group(ex, p, m, key):
    if m.alts is None:
        raise Unsupported("group() on a membership-only match")
    if isinstance(key, VStr):
        name = z3.simplify(key.t).as_string()
        gid = m.regex.groupindex[name]
    else:
        gid = z3.simplify(key.t).as_long()
    s = m.subject.t
    vals = []
    for c, e, cp in m.alts:
        zz = lambda x: z3.IntVal(x) if isinstance(x, int) else x     # noqa: E731
        if gid == 0:
            a, b = z3.IntVal(0), zz(e)
        elif gid in cp:
            a, b = zz(cp[gid][0]), zz(cp[gid][1])
        else:
            vals.append((c, None))
            continue
        vals.append((c, z3.simplify(z3.SubString(s, a, b - a))))
    if any(v is None for _, v in vals):
        raise Unsupported("group that did not participate in the match")
    acc = vals[-1][1]
    for c, v in reversed(vals[:-1]):
        acc = z3.If(c, v, acc)
    return VStr(acc)
