"""Operators, attribute access, subscripts: Python semantics on symbolic values."""
import ast
import z3

from .vals import *      # noqa: F401,F403
from . import vals as V
from .symexec import Unsupported, Outcome


def slice_indices(sl, n):
    """CPython PySlice_AdjustIndices / slice.indices(n) for a SliceDT term and Int n.
    Returns (start, stop, step, step_is_zero) as z3 terms."""
    a, b, c = SliceDT.sl_start(sl), SliceDT.sl_stop(sl), SliceDT.sl_step(sl)
    step = z3.If(OptI.is_NoneI(c), z3.IntVal(1), OptI.iv(c))
    neg = step < 0
    lower = z3.If(neg, z3.IntVal(-1), z3.IntVal(0))
    upper = z3.If(neg, n - 1, n)

    def clamp(x, dflt):
        v = OptI.iv(x)
        w = z3.If(v < 0, z3.If(v + n < lower, lower, v + n), z3.If(v > upper, upper, v))
        return z3.If(OptI.is_NoneI(x), dflt, w)
    start = clamp(a, z3.If(neg, upper, lower))
    stop = clamp(b, z3.If(neg, lower, upper))
    return start, stop, step, step == 0


def range_len(lo, hi, step):
    """len(range(lo, hi, step)) for step != 0."""
    pos = z3.If(hi > lo, (hi - lo - 1) / step + 1, 0)
    ns = -step
    negl = z3.If(lo > hi, (lo - hi - 1) / ns + 1, 0)
    return z3.If(step > 0, pos, negl)


class OpsMixin:

    # ---------------- numeric helpers ----------------
    def num_pair(self, a, b):
        """Both VInt/VReal/VBool -> common representation ('int'|'real', ta, tb)."""
        def as_int(x):
            return z3.If(x.t, 1, 0) if isinstance(x, VBool) else x.t
        if isinstance(a, (VInt, VBool)) and isinstance(b, (VInt, VBool)):
            return "int", as_int(a), as_int(b)
        return "real", to_real(a), to_real(b)

    def is_num(self, v):
        return isinstance(v, (VInt, VReal, VBool))

    def binop(self, ex, p, op, a, b, node):
        a, b = ex.deref(p, a), ex.deref(p, b)
        if isinstance(a, VDyn) or isinstance(b, VDyn):
            if ex.spec:
                a2 = list(ex.narrow(p, a))[0][1]
                b2 = list(ex.narrow(p, b))[0][1]
                if isinstance(a2, VDyn) or isinstance(b2, VDyn):
                    a2 = self.spec_num(a2)
                    b2 = self.spec_num(b2)
                yield from self.binop(ex, p, op, a2, b2, node)
                return
            for p1, a1 in ex.narrow(p, a):
                for p2, b1 in ex.narrow(p1, b):
                    yield from self.binop(ex, p2, op, a1, b1, node)
            return
        # numpy vectors (sequences a contract marked `ndarray`): arithmetic with a scalar is elementwise (broadcasting)
        for vec, sca, swapped in ((a, b, False), (b, a, True)):
            if isinstance(vec, VSeq) and vec.kind == "ndarray" and self.is_num(sca) and isinstance(op, (ast.Add, ast.Sub, ast.Mult)) \
                    and vec.elem in (Int, Real):
                yield p, self.np_elementwise(ex, p, op, vec, sca, swapped)
                return
        if self.is_num(a) and self.is_num(b):
            kind, x, y = self.num_pair(a, b)
            if isinstance(op, ast.Add):
                yield p, (VInt if kind == "int" else VReal)(x + y)
            elif isinstance(op, ast.Sub):
                yield p, (VInt if kind == "int" else VReal)(x - y)
            elif isinstance(op, ast.Mult):
                yield p, self.mul(ex, kind, x, y, p)
            elif isinstance(op, ast.Div):
                xr, yr = to_real(a), to_real(b)
                if ex.spec:
                    yield p, VReal(self.rdiv(ex, xr, yr))
                    return
                for p1, z in ex.branch(p, yr == 0):
                    if z:
                        ex.raise_(p1, "ZeroDivisionError", node)
                    else:
                        yield p1, VReal(self.rdiv(ex, xr, yr))
            elif isinstance(op, ast.FloorDiv) and kind == "int":
                if ex.spec:
                    yield p, VInt(self.floordiv(x, y))
                    return
                for p1, z in ex.branch(p, y == 0):
                    if z:
                        ex.raise_(p1, "ZeroDivisionError", node)
                    else:
                        yield p1, VInt(self.floordiv(x, y))
            elif isinstance(op, ast.Mod) and kind == "int":
                if ex.spec:
                    yield p, VInt(self.pymod(x, y))
                    return
                for p1, z in ex.branch(p, y == 0):
                    if z:
                        ex.raise_(p1, "ZeroDivisionError", node)
                    else:
                        yield p1, VInt(self.pymod(x, y))
            elif isinstance(op, ast.Pow):
                yield p, self.power(ex, p, kind, a, b, x, y)
            elif isinstance(op, (ast.BitOr, ast.BitAnd)) and isinstance(a, VBool) and isinstance(b, VBool):
                yield p, VBool(z3.Or(a.t, b.t) if isinstance(op, ast.BitOr) else z3.And(a.t, b.t))
            else:
                raise Unsupported("numeric op %s at line %s" % (type(op).__name__, getattr(node, "lineno", "?")))
            return
        if isinstance(a, VStr) and isinstance(b, VStr) and isinstance(op, ast.Add):
            yield p, VStr(z3.Concat(a.t, b.t), a.is_bytes)
            return
        if isinstance(a, VStr) and isinstance(op, ast.Mod):
            yield p, VStr(V.fresh("fmt", StrS))
            return
        if isinstance(a, (VTuple, VSeq)) and isinstance(b, (VTuple, VSeq)) and isinstance(op, ast.Add):
            if isinstance(a, VTuple) and isinstance(b, VTuple):
                yield p, VTuple(a.items + b.items, a.kind)
            else:
                if isinstance(a, VSeq) and isinstance(b, VSeq) and not same_sort(a.elem, b.elem):
                    elem = Real if {repr(a.elem), repr(b.elem)} == {"Int", "Real"} else Dyn
                    sa, sb = ex.coerce_to(p, a, SeqOf(elem)), ex.coerce_to(p, b, SeqOf(elem))
                else:
                    elem = a.elem if isinstance(a, VSeq) else b.elem
                    try:
                        sa, sb = tuple_to_seq(a, elem), tuple_to_seq(b, elem)
                    except TypeError:
                        elem = Dyn
                        sa = ex.coerce_to(p, tuple_to_seq(a) if isinstance(a, VTuple) else a, SeqOf(Dyn))
                        sb = ex.coerce_to(p, tuple_to_seq(b) if isinstance(b, VTuple) else b, SeqOf(Dyn))
                yield p, VSeq(z3.Concat(sa.t, sb.t), elem, sa.kind)
            return
        if isinstance(a, (VTuple, VSeq)) and isinstance(b, (VInt,)) and isinstance(op, ast.Mult):
            yield p, self.seq_repeat(ex, p, a, b)
            return
        if isinstance(a, VOpaque) or isinstance(b, VOpaque):
            yield p, self.opaque_binop(ex, p, op, a, b, node)
            return
        if not ex.spec:
            ex.raise_(p, "TypeError", node)
            return
        raise Unsupported("binop %s on %r, %r" % (type(op).__name__, a, b))

    def spec_num(self, v):
        if isinstance(v, VDyn):
            t = v.t
            return VReal(z3.If(Val.is_VInt(t), z3.ToReal(Val.i(t)),
                               z3.If(Val.is_VBool(t), z3.If(Val.b(t), z3.RealVal(1), z3.RealVal(0)), Val.r(t))))
        return v

    def mul(self, ex, kind, x, y, p=None):
        xs, ys = z3.simplify(x), z3.simplify(y)
        lin = z3.is_int_value(xs) or z3.is_rational_value(xs) or z3.is_int_value(ys) or z3.is_rational_value(ys)
        if lin:
            return (VInt if kind == "int" else VReal)(x * y)
        if kind == "int":
            # symbolic product: the same uninterpreted rmul term as for reals (+ integrality of the product)
            t = self.rmul(ex, z3.ToReal(x), z3.ToReal(y))
            if p is not None:
                p.assume(t == z3.ToReal(z3.ToInt(t)))
            return VInt(z3.ToInt(t))
        return VReal(self.rmul(ex, x, y))

    # non-linear real operations are abstracted by uninterpreted functions (sound);
    # their meaning is available to lemmas through ex.nonlinear_defs
    RMUL = z3.Function("rmul", RealS, RealS, RealS)
    RDIV = z3.Function("rdiv", RealS, RealS, RealS)
    RPOW = z3.Function("rpow", RealS, IntS, RealS)

    def rmul(self, ex, x, y):
        return self.RMUL(x, y)

    def _const_ite(self, t, depth=0):
        """if-then-else tree whose leaves are numerals (table lookups): division by it stays exact"""
        if z3.is_rational_value(t) or z3.is_int_value(t):
            return True
        if depth < 40 and z3.is_app(t) and t.decl().kind() == z3.Z3_OP_ITE:
            return self._const_ite(t.arg(1), depth + 1) and self._const_ite(t.arg(2), depth + 1)
        return False

    def rdiv(self, ex, x, y):
        ys = z3.simplify(y)
        if self._const_ite(ys):
            return x / y
        return self.RDIV(x, y)

    def floordiv(self, x, y):
        # Python floor division; z3 `/` on Int is Euclidean-ish (rounds so that remainder >= 0)
        return z3.If(y > 0, x / y, z3.If(x % y == 0, x / y, x / y - 1))

    def pymod(self, x, y):
        r = x % y      # z3: 0 <= r < |y|
        return z3.If(z3.And(r != 0, y < 0), r + y, r)

    def power(self, ex, p, kind, a, b, x, y):
        ys = z3.simplify(y)
        if kind == "int" and z3.is_int_value(ys) and 0 <= ys.as_long() <= 4:
            r = z3.IntVal(1)
            for _ in range(ys.as_long()):
                r = r * x
            return VInt(r)
        if isinstance(b, (VInt, VBool)):
            return VReal(self.RPOW(to_real(a), b.t if isinstance(b, VInt) else z3.If(b.t, 1, 0)))
        raise Unsupported("power with non-integer exponent")

    def np_elementwise(self, ex, p, op, vec, sca, swapped):
        """r[j] = vec[j] op sca (or sca op vec[j]) for every j; reals unless both are integers"""
        as_int = vec.elem is Int and isinstance(sca, VInt)
        if as_int and isinstance(op, ast.Mult) and not z3.is_int_value(z3.simplify(sca.t)):
            as_int = False        # a symbolic product is the (real-valued) `rmul` abstraction: keep the vector in the reals
        elem = Int if as_int else Real
        r = V.fresh("npv", z3.SeqSort(elem.z))
        j = V.fresh("nj", IntS)
        x = vec.t[j] if as_int or vec.elem is Real else z3.ToReal(vec.t[j])
        y = sca.t if as_int else to_real(sca)
        if isinstance(op, ast.Add):
            val = x + y
        elif isinstance(op, ast.Mult):
            # (the same abstraction of symbolic products as for scalars: `rmul`, operands in source order)
            val = self.mul(ex, "int" if as_int else "real", y if swapped else x, x if swapped else y, None).t
        else:
            val = (y - x) if swapped else (x - y)
        p.assume(z3.Length(r) == z3.Length(vec.t))
        p.assume(z3.ForAll([j], z3.Implies(z3.And(j >= 0, j < z3.Length(vec.t)), r[j] == val), patterns=[r[j]]))
        return VSeq(r, elem, "ndarray")

    REPEAT = {}

    def repeat_fn(self, elem):
        key = repr(elem)
        if key not in self.REPEAT:
            self.REPEAT[key] = z3.Function("seq_repeat_" + key, elem.z, IntS, z3.SeqSort(elem.z))
        return self.REPEAT[key]

    def repeat_term(self, p, elem, x, n):
        """n copies of x (n <= 0: empty): a total spec function with instance-wise defining axioms."""
        r = self.repeat_fn(elem)(x, n)
        j = z3.Int("rj")
        p.assume(z3.Length(r) == z3.If(n > 0, n, 0))
        p.assume(z3.ForAll([j], z3.Implies(z3.And(j >= 0, j < n), r[j] == x)))
        return r

    def seq_repeat(self, ex, p, a, n):
        ns = z3.simplify(n.t)
        if isinstance(a, VTuple) and z3.is_int_value(ns):
            return VTuple(a.items * max(0, ns.as_long()), a.kind)
        s = tuple_to_seq(a)
        if isinstance(a, VTuple) and len(a.items) == 1:
            x = elem_to_term(a.items[0], s.elem)
            return VSeq(self.repeat_term(p, s.elem, x, n.t), s.elem, s.kind)
        raise Unsupported("sequence repetition")

    def opaque_binop(self, ex, p, op, a, b, node):
        f = z3.Function("np_" + type(op).__name__, Val, Val, IntS)
        return VOpaque(f(box(a), box(b)), "np")

    # ---------------- comparison ----------------
    def compare(self, ex, p, op, a, b, node):
        a, b = ex.deref(p, a), ex.deref(p, b)
        if isinstance(op, (ast.Is, ast.IsNot)):
            r = self.identical(ex, p, a, b)
            yield p, VBool(r if isinstance(op, ast.Is) else z3.Not(r))
            return
        if isinstance(op, (ast.In, ast.NotIn)):
            for p1, r in self.contains(ex, p, b, a, node):
                yield p1, VBool(r if isinstance(op, ast.In) else z3.Not(r))
            return
        if isinstance(op, (ast.Eq, ast.NotEq)):
            for p1, r in self.equal(ex, p, a, b, node):
                yield p1, VBool(r if isinstance(op, ast.Eq) else z3.Not(r))
            return
        # ordering
        if isinstance(a, VDyn) or isinstance(b, VDyn):
            if ex.spec:
                a2 = list(ex.narrow(p, a))[0][1]
                b2 = list(ex.narrow(p, b))[0][1]
                if isinstance(a2, VDyn) or isinstance(b2, VDyn):
                    ok = z3.BoolVal(True)
                    for x in (a2, b2):
                        if isinstance(x, VDyn):
                            ok = z3.And(ok, z3.Or(Val.is_VInt(x.t), Val.is_VReal(x.t), Val.is_VBool(x.t)))
                    for p1, r in self.compare(ex, p, op, self.spec_num(a2), self.spec_num(b2), node):
                        yield p1, VBool(z3.And(ok, r.t))
                    return
                yield from self.compare(ex, p, op, a2, b2, node)
                return
            for p1, a1 in ex.narrow(p, a):
                for p2, b1 in ex.narrow(p1, b):
                    yield from self.compare(ex, p2, op, a1, b1, node)
            return
        if self.is_num(a) and self.is_num(b):
            _, x, y = self.num_pair(a, b)
            yield p, VBool(self._ord(op, x, y))
            return
        if isinstance(a, VStr) and isinstance(b, VStr):
            if isinstance(op, ast.Lt):
                yield p, VBool(a.t < b.t)
            elif isinstance(op, ast.LtE):
                yield p, VBool(a.t <= b.t)
            elif isinstance(op, ast.Gt):
                yield p, VBool(b.t < a.t)
            else:
                yield p, VBool(b.t <= a.t)
            return
        if isinstance(a, VSeq) and a.kind == "ndarray" and self.is_num(b):
            # numpy broadcasting of an ordering against a scalar: elementwise boolean array
            r = V.fresh("cmp", z3.SeqSort(BoolS))
            i = V.fresh("ci", IntS)
            tb = to_real(b) if a.elem is Real else (b.t if isinstance(b, VInt) else None)
            ta = a.t[i]
            if tb is None:
                ta, tb = z3.ToReal(a.t[i]), to_real(b)
            p.assume(z3.Length(r) == z3.Length(a.t))
            p.assume(z3.ForAll([i], z3.Implies(z3.And(i >= 0, i < z3.Length(a.t)), r[i] == self._ord(op, ta, tb))))
            res = VSeq(r, Bool, "ndarray")
            res.pointwise = (lambda k, a=a, tb=tb, op=op: self._ord(
                op, (a.t[k] if (a.elem is Real or isinstance(b, VInt)) else z3.ToReal(a.t[k])), tb))
            yield p, res
            return
        if isinstance(a, (VTuple, VSeq)) and isinstance(b, (VTuple, VSeq)):
            yield p, VBool(self.lex_compare(ex, p, op, a, b))
            return
        if isinstance(a, VOpaque) or isinstance(b, VOpaque):
            f = z3.Function("np_cmp_" + type(op).__name__, Val, Val, IntS)
            yield p, VOpaque(f(box(a), box(b)), "np")
            return
        if ex.spec:
            raise Unsupported("ordering of %r and %r" % (a, b))
        ex.raise_(p, "TypeError", node)

    def _ord(self, op, x, y):
        if isinstance(op, ast.Lt):
            return x < y
        if isinstance(op, ast.LtE):
            return x <= y
        if isinstance(op, ast.Gt):
            return x > y
        if isinstance(op, ast.GtE):
            return x >= y
        raise Unsupported("compare op")

    def lex_compare(self, ex, p, op, a, b):
        """Lexicographic ordering of concrete-length numeric tuples (version triples)."""
        def items(x):
            if isinstance(x, VTuple):
                return x.items
            n = z3.simplify(z3.Length(x.t))
            if not z3.is_int_value(n):
                for k in range(0, 8):
                    if ex.implied(p, z3.Length(x.t) == k):
                        n = z3.IntVal(k)
                        break
                else:
                    raise Unsupported("ordering of sequences with unknown length")
            return [term_to_elem(x.t[k], x.elem) for k in range(n.as_long())]
        xs, ys = items(a), items(b)
        strict = isinstance(op, (ast.Lt, ast.Gt))
        less = isinstance(op, (ast.Lt, ast.LtE))
        # result when all compared equal: depends on lengths
        if len(xs) == len(ys):
            acc = z3.BoolVal(not strict)
        elif len(xs) < len(ys):
            acc = z3.BoolVal(less)
        else:
            acc = z3.BoolVal(not less)
        for x, y in reversed(list(zip(xs, ys))):
            x, y = list(ex.narrow(p, x))[0][1], list(ex.narrow(p, y))[0][1]
            _, tx, ty = self.num_pair(x, y)
            lt = tx < ty if less else tx > ty
            acc = z3.If(tx == ty, acc, lt)
        return acc

    def identical(self, ex, p, a, b):
        if isinstance(a, VNone) or isinstance(b, VNone):
            o = b if isinstance(a, VNone) else a
            if isinstance(o, VNone):
                return z3.BoolVal(True)
            if isinstance(o, VDyn):
                return Val.is_VNone(o.t)
            return z3.BoolVal(False)
        if isinstance(a, VEnum) and isinstance(b, VEnum):
            return z3.BoolVal(False) if a.name != b.name else a.t == b.t
        if isinstance(a, VObj) and isinstance(b, VObj):
            return a.t == b.t
        if isinstance(a, VBool) and isinstance(b, VBool):
            return a.t == b.t
        if isinstance(a, VEllipsis) or isinstance(b, VEllipsis):
            o = b if isinstance(a, VEllipsis) else a
            if isinstance(o, VEllipsis):
                return z3.BoolVal(True)
            if isinstance(o, VDyn):
                return Val.is_VEllipsis(o.t)
            return z3.BoolVal(False)
        if isinstance(a, VDyn) and isinstance(b, VEnum):
            return a.t == box(b)
        if isinstance(b, VDyn) and isinstance(a, VEnum):
            return b.t == box(a)
        if isinstance(a, VClass) and isinstance(b, VClass):
            return z3.BoolVal(a.names == b.names)
        raise Unsupported("identity test of %r and %r" % (a, b))

    def equal(self, ex, p, a, b, node):
        """yields (path, z3 Bool) for a == b."""
        if isinstance(a, VObj) and not ex.spec:
            kind, ci, fi = ex.repo.find_member(a.cls, "__eq__")
            if kind == "method":
                for p1, r in ex.call_function(p, fi, [b], {}, node, self_val=a):
                    yield p1, ex.truth(p1, r)
                return
        if isinstance(a, VObj) and isinstance(b, VObj):
            yield p, a.t == b.t
            return
        if isinstance(a, VNone) or isinstance(b, VNone):
            o = b if isinstance(a, VNone) else a
            if isinstance(o, VNone):
                yield p, z3.BoolVal(True)
            elif isinstance(o, VDyn):
                yield p, Val.is_VNone(o.t)
            else:
                yield p, z3.BoolVal(False)
            return
        if self.is_num(a) and self.is_num(b):
            _, x, y = self.num_pair(a, b)
            yield p, x == y
            return
        if isinstance(a, VStr) and isinstance(b, VStr):
            yield p, (a.t == b.t) if a.is_bytes == b.is_bytes else z3.BoolVal(False)
            return
        if isinstance(a, VEnum) and isinstance(b, VEnum):
            yield p, (a.t == b.t) if a.name == b.name else z3.BoolVal(False)
            return
        if isinstance(a, VSlice) and isinstance(b, VSlice):
            yield p, a.t == b.t
            return
        if isinstance(a, (VTuple, VSeq)) and isinstance(b, (VTuple, VSeq)):
            if isinstance(a, VTuple) and isinstance(b, VTuple):
                if len(a.items) != len(b.items) or a.kind != b.kind:
                    yield p, z3.BoolVal(False)
                    return
                acc = z3.BoolVal(True)
                for x, y in zip(a.items, b.items):
                    rs = list(self.equal(ex, p, x, y, node))
                    if len(rs) != 1:
                        raise Unsupported("forking element equality")
                    acc = z3.And(acc, rs[0][1])
                yield p, acc
                return
            elem = a.elem if isinstance(a, VSeq) else b.elem
            oe = (b.elem if isinstance(b, VSeq) else None) if isinstance(a, VSeq) else None
            if oe is not None and not same_sort(elem, oe):
                if {repr(elem), repr(oe)} == {"Int", "Real"}:
                    sa = ex.coerce_to(p, a, SeqOf(Real))
                    sb = ex.coerce_to(p, b, SeqOf(Real))
                    yield p, sa.t == sb.t
                    return
                raise Unsupported("equality of sequences of %r and %r" % (elem, oe))
            try:
                sa, sb = tuple_to_seq(a, elem), tuple_to_seq(b, elem)
            except TypeError:
                yield p, z3.BoolVal(False)
                return
            yield p, sa.t == sb.t
            return
        if isinstance(a, VDyn) or isinstance(b, VDyn):
            try:
                ta, tb = box(a), box(b)
            except TypeError:
                if ex.spec:
                    yield p, V.fresh("eq_unknown", BoolS)      # not expressible: an unconstrained truth value
                    return
                raise Unsupported("equality of %r and %r" % (a, b))
            if ex.spec:
                yield p, ta == tb          # contract language: structural equality of boxed values
                return
            # int/real/bool numeric equality across constructors
            na = z3.Or(Val.is_VInt(ta), Val.is_VReal(ta), Val.is_VBool(ta))
            nb = z3.Or(Val.is_VInt(tb), Val.is_VReal(tb), Val.is_VBool(tb))
            yield p, z3.If(z3.And(na, nb), self.spec_num(VDyn(ta)).t == self.spec_num(VDyn(tb)).t, ta == tb)
            return
        if isinstance(a, VClass) and isinstance(b, VClass):
            yield p, z3.BoolVal(a.names == b.names)
            return
        if isinstance(a, VOpaque) and isinstance(b, VOpaque):
            yield p, a.t == b.t
            return
        if isinstance(a, VOpaque) or isinstance(b, VOpaque):
            f = z3.Function("opaque_eq", Val, Val, BoolS)
            yield p, f(box(a), box(b))
            return
        if type(a) is not type(b):
            yield p, z3.BoolVal(False)
            return
        raise Unsupported("equality of %r and %r" % (a, b))

    def contains(self, ex, p, container, item, node):
        """yields (path, z3 Bool) for item in container."""
        c = ex.deref(p, container)
        if isinstance(c, VDyn):
            for p1, c1 in ex.narrow(p, c):
                if isinstance(c1, VDyn):
                    raise Unsupported("membership in dynamic value")
                yield from self.contains(ex, p1, c1, item, node)
            return
        if isinstance(c, VTuple):
            acc = z3.BoolVal(False)
            for x in c.items:
                rs = list(self.equal(ex, p, item, x, node))
                acc = z3.Or(acc, rs[0][1])
            yield p, acc
            return
        if isinstance(c, VSeq):
            item = ex.deref(p, item)
            if isinstance(item, VDyn) and c.elem is not Dyn:
                ok = is_sort_cond(item.t, c.elem)
                yield p, z3.And(ok, z3.Contains(c.t, z3.Unit(elem_to_term(unbox(item.t, c.elem), c.elem))))
                return
            try:
                t = elem_to_term(item, c.elem)
            except TypeError:
                yield p, z3.BoolVal(False)
                return
            yield p, z3.Contains(c.t, z3.Unit(t))
            return
        if isinstance(c, VStr) and isinstance(item, VStr):
            yield p, z3.Contains(c.t, item.t)
            return
        if isinstance(c, VClass):
            # `x in EnumClass`
            if isinstance(item, VEnum) and c.names[0] == item.name:
                yield p, z3.BoolVal(True)
                return
        if isinstance(c, VObj):
            yield from self.obj_contains(ex, p, c, item, node)
            return
        if isinstance(c, VOpaque):
            ct = self.opaque_contract(ex, c, "__contains__")
            if ct is None:
                raise Unsupported("membership test in opaque %s at line %s" % (c.tag, getattr(node, "lineno", "?")))
            for p1, r in ex.apply_contract(p, ct, [item], {}, node, self_val=c):
                yield p1, ex.truth(p1, r)
            return
        if isinstance(c, VDict):
            acc = z3.BoolVal(False)
            for k, _ in c.items:
                acc = z3.Or(acc, list(self.equal(ex, p, item, k, node))[0][1])
            yield p, acc
            return
        raise Unsupported("membership test in %r at line %s" % (c, getattr(node, "lineno", "?")))

    # ---------------- subscripts ----------------
    def subscript(self, ex, p, v, idx, node):
        v, idx = ex.deref(p, v), ex.deref(p, idx)
        if isinstance(v, VDyn):
            for p1, v1 in ex.narrow(p, v):
                if isinstance(v1, VDyn):
                    raise Unsupported("subscript of dynamic value at line %s" % getattr(node, "lineno", "?"))
                yield from self.subscript(ex, p1, v1, idx, node)
            return
        if isinstance(idx, VDyn):
            for p1, i1 in ex.narrow(p, idx):
                if isinstance(i1, VDyn):
                    raise Unsupported("dynamic subscript index")
                yield from self.subscript(ex, p1, v, i1, node)
            return
        if isinstance(v, VDict):
            # merged lookup: one value (if-then-else over the keys) + one KeyError path
            conds = [list(self.equal(ex, p, idx, k, node))[0][1] for k, _ in v.items]
            if not v.items:
                if not ex.spec:
                    ex.raise_(p, "KeyError", node)
                return
            acc = v.items[-1][1]
            for c, (k, x) in reversed(list(zip(conds[:-1], v.items[:-1]))):
                acc = ite(c, x, acc)
            if ex.spec:
                yield p, acc
                return
            for p1, hit in ex.branch(p, z3.Or(*conds)):
                if hit:
                    yield p1, acc
                else:
                    ex.raise_(p1, "KeyError", node)
            return
        if isinstance(v, VTuple) and isinstance(idx, (VInt, VBool)):
            it = z3.simplify(idx.t if isinstance(idx, VInt) else z3.If(idx.t, 1, 0))
            n = len(v.items)
            if z3.is_int_value(it):
                k = it.as_long()
                if -n <= k < n:
                    yield p, v.items[k]
                elif ex.spec:
                    raise Unsupported("spec index out of range")
                else:
                    ex.raise_(p, "IndexError", node)
                return
            # symbolic index into concrete tuple
            if ex.spec:
                acc = v.items[-1] if n else None
                if n == 0:
                    raise Unsupported("index into empty tuple")
                for k in range(n - 2, -1, -1):
                    acc = ite(z3.Or(it == k, it == k - n), v.items[k], acc)
                yield p, acc
                return
            for k in range(n):
                for p1, tv in ex.branch(p.fork(), z3.Or(it == k, it == k - n)):
                    if tv:
                        yield p1, v.items[k]
            for p1, tv in ex.branch(p, z3.Or(it >= n, it < -n)):
                if tv:
                    ex.raise_(p1, "IndexError", node)
            return
        if isinstance(v, VTuple) and isinstance(idx, VSlice):
            s = z3.simplify(idx.t)
            n = len(v.items)
            st, sp, se, _ = slice_indices(s, z3.IntVal(n))
            st, sp, se = z3.simplify(st), z3.simplify(sp), z3.simplify(se)
            if all(z3.is_int_value(x) for x in (st, sp, se)):
                yield p, VTuple(v.items[slice(st.as_long(), sp.as_long(), se.as_long())], v.kind)
                return
            yield from self.subscript(ex, p, tuple_to_seq(v), idx, node)
            return
        if isinstance(v, VSeq) and isinstance(idx, (VInt, VBool)):
            it = idx.t if isinstance(idx, VInt) else z3.If(idx.t, 1, 0)
            n = z3.Length(v.t)
            if ex.spec:
                # contract language: s[j] is the j-th element (no negative indexing): clean quantifier triggers
                yield p, term_to_elem(v.t[z3.simplify(it)], v.elem)
                return
            for p1, ok in ex.branch(p, z3.And(it >= -n, it < n)):
                if ok:
                    yield p1, term_to_elem(v.t[z3.If(it < 0, it + n, it)], v.elem)
                else:
                    ex.raise_(p1, "IndexError", node)
            return
        if isinstance(v, VSeq) and isinstance(idx, VSlice):
            n = z3.Length(v.t)
            st, sp, se, _ = slice_indices(idx.t, n)
            if not ex.implied(p, se == 1):
                raise Unsupported("sequence slicing with step != 1 at line %s" % getattr(node, "lineno", "?"))
            st, sp = z3.simplify(st), z3.simplify(sp)
            # contextual simplification: an explicit bound that is known to lie in [0, n] is used as is
            for which in ("start", "stop"):
                comp = z3.simplify(SliceDT.sl_start(idx.t) if which == "start" else SliceDT.sl_stop(idx.t))
                if z3.is_app(comp) and comp.decl().name() == "SomeI":
                    val = comp.arg(0)
                    cur = st if which == "start" else sp
                    if not z3.is_int_value(cur) and ex.implied(p, z3.And(val >= 0, val <= n)):
                        if which == "start":
                            st = val
                        else:
                            sp = val
            ln = z3.simplify(z3.If(sp > st, sp - st, 0))
            if ex.implied(p, sp >= st):
                ln = z3.simplify(sp - st)
            sub = z3.SubSeq(v.t, st, ln)
            if not ex.spec:
                # pointwise facts about the extracted sub-sequence (st, sp are clamped into [0, n])
                j = V.fresh("sj", IntS)
                p.assume(z3.Length(sub) == ln)
                p.assume(z3.ForAll([j], z3.Implies(z3.And(j >= 0, j < ln), sub[j] == v.t[st + j])))
            yield p, VSeq(sub, v.elem, v.kind)
            return
        if isinstance(v, VStr) and isinstance(idx, (VInt,)):
            n = z3.Length(v.t)
            it = idx.t
            if ex.spec:
                yield p, VStr(z3.SubString(v.t, z3.If(it < 0, it + n, it), 1), v.is_bytes)
                return
            for p1, ok in ex.branch(p, z3.And(it >= -n, it < n)):
                if ok:
                    yield p1, VStr(z3.SubString(v.t, z3.If(it < 0, it + n, it), 1), v.is_bytes)
                else:
                    ex.raise_(p1, "IndexError", node)
            return
        if isinstance(v, VStr) and isinstance(idx, VSlice):
            n = z3.Length(v.t)
            st, sp, se, _ = slice_indices(idx.t, n)
            if not ex.implied(p, se == 1):
                raise Unsupported("string slicing with step != 1")
            ln = z3.If(sp > st, sp - st, 0)
            yield p, VStr(z3.SubString(v.t, st, ln), v.is_bytes)
            return
        if isinstance(v, VObj):
            yield from self.obj_getitem(ex, p, v, idx, node)
            return
        if isinstance(v, VOpaque):
            yield from self.opaque_getitem(ex, p, v, idx, node)
            return
        raise Unsupported("subscript %r[%r] at line %s" % (v, idx, getattr(node, "lineno", "?")))
