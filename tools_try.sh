#!/bin/sh
# usage: tools_try.sh <worktree> <diff> <prop> [extra check args]
# brings the scratch worktree to /repo's HEAD, applies the diff there, runs the check with --repo, reverts.
WT=$1; DIFF=$2; PROP=$3; shift 3
git -C $WT checkout -q -- . && git -C $WT checkout -q --detach $(git -C /repo rev-parse HEAD) || exit 9
git -C $WT apply $DIFF || { echo "diff does not apply"; exit 9; }
/verif/check $PROP --repo $WT "$@"
echo "exit=$?"
git -C $WT checkout -q -- .
