#!/bin/sh
# usage: tools_try.sh <seeded-id e.g. C06-2 | path/to.diff> <prop> [extra check args]
# brings the scratch worktree /tmp/wt/try to /repo's HEAD, applies the diff there, runs the check with --repo, reverts.
WT=/tmp/wt/try; D=$1; PROP=$2; shift 2
[ -f "$D" ] || D=/verif/seeded/$D/patch.diff
[ -d $WT ] || git -C /repo worktree add -q --detach $WT HEAD
git -C $WT checkout -q -- . && git -C $WT checkout -q --detach $(git -C /repo rev-parse HEAD) || exit 9
git -C $WT apply -C1 $D || { echo "diff does not apply"; exit 9; }
/verif/check $PROP --repo $WT "$@"
echo "exit=$?"
git -C $WT checkout -q -- .
