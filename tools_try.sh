#!/bin/sh
# usage: tools_try.sh <worktree> <diff> <prop> [extra check args]   -- applies diff in scratch worktree, runs check --repo, reverts
WT=$1; DIFF=$2; PROP=$3; shift 3
git -C $WT checkout -q -- . && git -C $WT apply $DIFF || exit 9
/verif/check $PROP --repo $WT "$@"
echo "exit=$?"
git -C $WT checkout -q -- .
