#!/bin/sh
# usage: tools_confirm_mutant.sh <Cxx> <k> ; confirms a sub-agent mutant in its own scratch worktree /tmp/wt/<Cxx>_<k>
# at /repo's HEAD: demo passes without, fails with; test suite has the same pass/fail sets as the unchanged HEAD.
P=$1; K=$2; SRC=/tmp/wt/$P/out; WT=/tmp/wt/${P}_$K; OUT=/tmp/wt/confirm_${P}_$K.txt
DIFF=$SRC/mut$K.diff; [ -f $SRC/mut${K}_rebased.diff ] && DIFF=$SRC/mut${K}_rebased.diff
git -C /repo worktree add -q --detach $WT HEAD 2>/dev/null || git -C $WT checkout -q --detach $(git -C /repo rev-parse HEAD)
{
echo "mutant $P/$K diff=$DIFF head=$(git -C /repo rev-parse --short HEAD)"
cd $WT && git checkout -q -- . 
PYTHONPATH=$WT /venv/bin/python $SRC/demo$K.py > /dev/null 2>&1; echo "demo_without=$?"
git apply -C1 $DIFF || { echo "APPLY_FAILED"; exit 0; }
PYTHONPATH=$WT /venv/bin/python $SRC/demo$K.py > /tmp/wt/demo_${P}_$K.out 2>&1; echo "demo_with=$?"
/venv/bin/python -m pytest -q -p no:cacheprovider --timeout=900 nixio/test 2>&1 | grep -E "^(FAILED|ERROR)" | sed 's/ - .*//' | sort > /tmp/wt/failed_${P}_$K.txt
echo "n_failed=$(wc -l < /tmp/wt/failed_${P}_$K.txt)"
if diff -q /tmp/wt/failed_HEAD.txt /tmp/wt/failed_${P}_$K.txt > /dev/null; then echo "tests_same_as_head=yes"; else echo "tests_same_as_head=NO"; diff /tmp/wt/failed_HEAD.txt /tmp/wt/failed_${P}_$K.txt | head -5; fi
git checkout -q -- . ; rm -f dataframe.nix lenna.png
} > $OUT 2>&1
cd / && git -C /repo worktree remove --force $WT
