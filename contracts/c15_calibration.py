"""C15 - calibration on every read, never on the stored values (nixio/data_array.py, util/util.py).

Property clauses (from the statement): a read returns polynomial(raw - origin) in double precision exactly when a
calibration (coefficients and/or a non-zero origin) is set, with the SAME index expression passed to the raw read
(so calibration commutes with slicing, given that the polynomial is elementwise); otherwise the stored values in the
stored type. Setting the calibration never writes the `data` dataset.

numpy is assumed (trusted base): arrays are opaque values; np.array / astype / `-` / polyval / `a[:] = b` are
uninterpreted functions with the few facts stated in the assumed contracts below.
"""
import z3
from pyvc.vals import *          # noqa: F401,F403
from pyvc import vals as V
from pyvc.builtins import lib_const

REG = globals().get("REG")

NP_ARRAY = z3.Function("np_array", Val, IntS)
NP_SHAPE = z3.Function("np_shape", IntS, z3.SeqSort(IntS))
NP_RESHAPE = z3.Function("np_reshape", IntS, z3.SeqSort(IntS), IntS)
NP_ASTYPE = z3.Function("np_astype", IntS, Val, IntS)
NP_ISDOUBLE = z3.Function("np_is_double", IntS, BoolS)
NP_SUB = z3.Function("np_Sub", Val, Val, IntS)          # the executor's model of `a - b` on library objects
NP_POLYVAL = z3.Function("np_polyval", Val, Val, IntS)
NP_SETALL = z3.Function("np_setall", IntS, Val, IntS)
NP_SIZE = z3.Function("np_size", IntS, IntS)


def _o(t):
    return VOpaque(t, "np")


def _k(ex, p, a):
    """array identity term of an opaque or dynamic value"""
    a = ex.deref(p, a)
    return a.t if isinstance(a, VOpaque) else Val.ok(box(a))


@REG.specfunc()
def np_array(ex, p, x):
    return _o(NP_ARRAY(box(ex.deref(p, x))))


@REG.specfunc()
def np_shape(ex, p, a):
    return VSeq(NP_SHAPE(_k(ex, p, a)), Int)


@REG.specfunc()
def np_reshape(ex, p, a, s):
    s = ex.deref(p, s)
    st = tuple_to_seq(s, Int).t if isinstance(s, VTuple) else s.t
    return _o(NP_RESHAPE(_k(ex, p, a), st))


@REG.specfunc()
def np_astype(ex, p, a, dt):
    return _o(NP_ASTYPE(_k(ex, p, a), box(ex.deref(p, dt))))


@REG.specfunc()
def np_is_double(ex, p, a):
    return VBool(NP_ISDOUBLE(_k(ex, p, a)))


@REG.specfunc()
def np_sub(ex, p, a, b):
    return _o(NP_SUB(box(ex.deref(p, a)), box(ex.deref(p, b))))


@REG.specfunc()
def np_polyval(ex, p, x, c):
    return _o(NP_POLYVAL(box(ex.deref(p, x)), box(ex.deref(p, c))))


@REG.specfunc()
def np_setall(ex, p, a, b):
    return _o(NP_SETALL(_k(ex, p, a), box(ex.deref(p, b))))


@REG.specfunc()
def is_full_slice(ex, p, idx):
    t = box(ex.deref(p, idx))
    none3 = SliceDT.mk_slice(OptI.NoneI, OptI.NoneI, OptI.NoneI)
    return VBool(z3.And(Val.is_VSliceV(t), Val.sl(t) == none3))


@REG.specfunc()
def is_np_s(ex, p, a):
    """the index-expression helper np.s_ (np.s_[a:b] is slice(a, b))"""
    return VBool(bool(z3.simplify(_k(ex, p, a)).eq(z3.simplify(lib_const("np.s_").t))))      # syntactic: np.s_ is used literally


@REG.specfunc()
def opq(ex, p, x):
    """a dynamic value known to be a library array, as an opaque value"""
    x = ex.deref(p, x)
    return x if isinstance(x, VOpaque) else _o(Val.ok(box(x)))


@REG.specfunc()
def truthy(ex, p, x):
    return VBool(ex.truth(p, x))


# ---- assumed numpy contracts (trusted base) ---------------------------------------------------------------------
REG.contract("opaque.shape", assumed=True, note="property", params=dict(self=OpaqueT), result=SeqOf(Int),
             ensures=["result == np_shape(self)"])
REG.contract("opaque.size", assumed=True, note="property", params=dict(self=OpaqueT), result=Int,
             ensures=["result == uf_int('np.size', self)"])
REG.contract("opaque.dtype", assumed=True, note="property", params=dict(self=OpaqueT), result=OpaqueT,
             ensures=["result == opq(uf('np.dtype', self))"])
REG.contract("opaque.kind", assumed=True, note="property", params=dict(self=OpaqueT), result=Str,
             ensures=["result == uf_str('np.dtype.kind', self)"])
REG.contract("opaque.ndim", assumed=True, note="property", params=dict(self=OpaqueT), result=Int,
             ensures=["result == len(np_shape(self))"])
REG.contract("opaque.shape.setter", assumed=True, params=dict(self=OpaqueT, shape=SeqOf(Int)), result=OpaqueT,
             ensures=["result == np_reshape(self, shape)", "np_shape(result) == shape",
                      "np_is_double(result) == np_is_double(self)"],
             note="ndarray.shape = s: the same elements under a new shape (in place)")
REG.contract("opaque.reshape", assumed=True, params=dict(self=OpaqueT, shape=SeqOf(Int)), result=OpaqueT,
             ensures=["result == np_reshape(self, shape)", "np_shape(result) == shape",
                      "np_is_double(result) == np_is_double(self)"],
             note="ndarray.reshape(shape): the same elements under a new shape")
REG.contract("opaque.astype", assumed=True, params=dict(self=OpaqueT, dtype=Dyn), result=OpaqueT,
             ensures=["result == np_astype(self, dtype)", "np_shape(result) == np_shape(self)",
                      "(dtype == boxed(DataType.Double)) implies np_is_double(result)"],
             note="ndarray.astype(dtype): a new array of that element type, same shape, converted elementwise")
REG.contract("opaque.__getitem__", assumed=True, params=dict(self=OpaqueT, idx=Dyn), result=Dyn,
             result_expr="ite_(is_np_s(self), idx, ite_(is_full_slice(idx), boxed(self), uf('np.getitem', self, idx)))",
             note="a[:] denotes all elements of a (same shape, same type)")
REG.contract("opaque.__setitem__", assumed=True, params=dict(self=OpaqueT, idx=Dyn, value=Dyn), result=OpaqueT,
             requires=["is_full_slice(idx)"],
             ensures=["result == np_setall(self, value)", "np_shape(result) == np_shape(self)",
                      "np_is_double(result) == np_is_double(self)",
                      # a double array takes an elementwise double result of its own shape as it is
                      "np_is_double(self) implies result == opq(value)"],
             note="a[:] = b: every element of a is replaced by the corresponding element of b (converted to a's element "
                  "type: no conversion for a double array receiving results computed from double data)")
REG.contract("np.polynomial.polynomial.polyval", assumed=True, params=dict(x=Dyn, c=Dyn), result=OpaqueT,
             ensures=["result == np_polyval(x, c)"],
             note="polyval(x, c) = sum_k c[k] * x**k, elementwise over x, in double precision")


@REG.specfunc()
def uf_str(ex, p, name, *args):
    nm = z3.simplify(name.t).as_string()
    f = z3.Function("ufs_" + nm.replace(".", "_"), *([Val] * len(args) + [StrS]))
    return VStr(f(*[box(ex.deref(p, a)) for a in args]))


@REG.specfunc()
def uf_int(ex, p, name, *args):
    nm = z3.simplify(name.t).as_string()
    f = z3.Function("ufi_" + nm.replace(".", "_"), *([Val] * len(args) + [IntS]))
    return VInt(f(*[box(ex.deref(p, a)) for a in args]))


# ---- the calibration polynomial (spec function written from the property statement) -------------------------------
@REG.specfunc()
def calibrated(ex, p, x, coeff, origin):
    """polynomial(x - origin) with the given coefficients; without coefficients the documented default (0, 1),
    i.e. x - origin"""
    x, coeff, origin = ex.deref(p, x), ex.deref(p, coeff), ex.deref(p, origin)
    shifted = NP_SUB(box(x), box(origin))
    has = ex.truth(p, coeff)
    return _o(z3.If(has, NP_POLYVAL(Val.VOpaque(shifted), box(coeff)), shifted))


REG.contract(
    "nixio.util.util.apply_polynomial", props=["C15"],
    params=dict(coefficients=SeqOf(Real), origin=Dyn, data=OpaqueT), mutates=["data"],
    requires=["np_is_double(data)", "is_int(origin) or is_real(origin) or is_bool(origin)"],
    ensures=[("poly", "data__final == calibrated(data, coefficients, origin)", "prop"),
             ("poly.shape", "np_shape(data__final) == np_shape(data)", "helper")],
    prop_clauses=["poly"])

# ---- the stored calibration ------------------------------------------------------------------------------------------
COEFF_OK = "link(obj(self), 'polynom_coefficients') == 0 or is_realseq(ddata(link(obj(self), 'polynom_coefficients')))"
COEFF = ("ite_(link(obj(self), 'polynom_coefficients') == 0, as_realseq(boxed(EMPTY_REALS)), "
         "as_realseq(ddata(link(obj(self), 'polynom_coefficients'))))")

REG.contract(
    "nixio.data_array.DataArray.polynom_coefficients", props=["C15", "C02"],
    params=dict(self=Obj("DataArray")), result=SeqOf(Real),
    requires=["obj(self) != 0", COEFF_OK],
    ensures=[("get", "seq_eq(result, %s)" % COEFF, "prop")], prop_clauses=["get"])

ORIGIN = "dec(attr(obj(self), 'expansion_origin'))"
# format invariant: a stored origin is a number
ORIGIN_OK = "is_none({0}) or is_int({0}) or is_real({0})".format(ORIGIN)

REG.contract(
    "nixio.data_array.DataArray._read_data#c15", props=["C15", "C06"], note="np.array:opaque",
    params=dict(self=Obj("DataArray"), sl=Dyn), result=Dyn,
    requires=["obj(self) != 0", "dataset_of(self) != 0", COEFF_OK, ORIGIN_OK],
    let="coeff = %s; origin = %s; raw = np_array(raw_read(dataset_of(self), sl)); "
        "r0 = ite_(len(np_shape(raw)) == 0, np_reshape(raw, (1,)), raw); "
        "calib = len(coeff) > 0 or truthy(origin); o = ite_(truthy(origin), origin, boxed(0.0))" % (COEFF, ORIGIN),
    raises={"IndexError": ("h5_refuses(dataset_of(self), sl)", "helper")},
    ensures=[
        # the SAME index expression reaches the raw read, and the polynomial is applied to that selection afterwards
        ("cal.on", "calib implies result == boxed(calibrated(np_astype(r0, DataType.Double), coeff, o))", "prop"),
        # no calibration set: the stored values in the stored type
        ("cal.off", "(not calib) implies result == boxed(r0)", "prop"),
        # a single value is returned as an array of shape (1,), everything else keeps NumPy's shape
        ("rd.shape1", "(not calib and len(np_shape(raw)) == 0) implies seq_eq(np_shape(opq(result)), (1,))", "prop"),
        ("rd.shape", "(not calib and len(np_shape(raw)) != 0) implies np_shape(opq(result)) == np_shape(raw)", "prop")],
    prop_clauses=["cal.on", "cal.off", "rd.shape", "rd.shape1"])

# ---- setting the calibration never writes the data --------------------------------------------------------------------
UPD15 = ("same(sigma('attr'), ite_term(field(field(self, '_file'), '_auto_update_timestamps'), "
         "attr_set(old(sigma('attr')), old(obj(self)), 'updated_at', ts_text(old(clock()))), old(sigma('attr'))))")

REG.contract(
    "nixio.data_array.DataArray.polynom_coefficients.setter", props=["C15", "C02", "C19", "C12"],
    params=dict(self=Obj("DataArray"), coeff=Dyn),
    requires=["is_none(coeff) or is_realseq(coeff) or is_intseq(coeff)",
              "(link(obj(self), 'polynom_coefficients') != 0 and okind(link(obj(self), 'polynom_coefficients')) == 2) implies "
              "ddtype(link(obj(self), 'polynom_coefficients')) == DataType.Double",
              "link(obj(self), 'polynom_coefficients') < freshid()",
              # the calibration dataset is not the data dataset (distinct link names of one group denote distinct objects)
              "link(obj(self), 'data') != 0 and link(obj(self), 'data') < freshid() and "
              "link(obj(self), 'data') != link(obj(self), 'polynom_coefficients')"],
    modifies=["attr", "clock", "link", "ord", "kind", "fresh", "data", "dshape", "dtype"],
    let="o = obj(self); had = link(o, 'polynom_coefficients') != 0 and okind(link(o, 'polynom_coefficients')) == 2; "
        "empty = is_none(coeff) or seq_empty(coeff); d = old(link(o, 'data'))",
    raises={"TypeError#conv": ("False", "helper")},
    ensures=[("upd", UPD15, "prop"),
             ("set.data", "(not empty) implies (link(o, 'polynom_coefficients') != 0 and "
                          "ddata(link(o, 'polynom_coefficients')) == stored_as(coeff, DataType.Double))", "prop"),
             ("set.clear", "empty implies link(o, 'polynom_coefficients') == ite_(had, 0, old(link(o, 'polynom_coefficients')))",
              "prop"),
             # C15: the stored values are untouched (still linked, same content, same extent, same type)
             ("data.kept", "link(o, 'data') == d and ddata(d) == old(ddata(d)) and dshape(d) == old(dshape(d)) and "
                           "ddtype(d) == old(ddtype(d))", "prop")],
    prop_clauses=["upd", "set.data", "set.clear", "data.kept"])
