"""C14 - validation reports exactly the catalogued inconsistencies (nixio/validator.py).

Per check function and catalogue entry: the entry is reported IF AND ONLY IF its condition holds for the object, and
nothing else is reported. Messages are identified by template and arguments (str.format is modelled as an injective
constructor). Covered: check_entity (and the block/group/source wrappers), check_property, check_feature,
check_sampled_dimension, check_range_dimension, tag_units_match_refs_units. check_data_array / check_tag /
check_multi_tag / check_file iterate over polymorphic containers and are not under contract (listed as not covered).
"""
import z3
from pyvc.vals import *          # noqa: F401,F403
from pyvc import vals as V

REG = globals().get("REG")

LISTS = TupleOf(SeqOf(Str), SeqOf(Str))
ATOMIC = "in_lang(as_str({0}), '^' + units.PREFIXES + '?' + units.UNITS + units.POWER + '?$')"
E, W = "result[0]", "result[1]"


def b2i(c):
    return "ite_(%s, 1, 0)" % c


def exactly(lst, entries):
    """clauses: each (msg, cond) is in lst iff cond; lst holds nothing else (its length is the number of true conds)"""
    out = []
    for k, (nm, msg, cond) in enumerate(entries):
        out.append((nm, "(%s in %s) == (%s)" % (msg, lst, cond), "prop"))
    total = " + ".join(b2i(c) for _, _, c in entries) if entries else "0"
    out.append(("only." + lst.replace("result", "r").replace("[", "").replace("]", ""),
                "len(%s) == %s" % (lst, total), "prop"))
    return out


# ---- sampled dimension -------------------------------------------------------------------------------------------------------
SI = "dec(attr(obj(dim), 'sampling_interval'))"
UNIT = "dec(attr(obj(dim), 'unit'))"
OFFS = "dec(attr(obj(dim), 'offset'))"
NUMN = "(is_none({0}) or is_int({0}) or is_real({0}))"
SD_REQ = ["obj(dim) != 0", NUMN.format(SI), NUMN.format(OFFS), "is_none(%s) or is_str(%s)" % (UNIT, UNIT)]
sd_entries_e = [
    ("e.nosi", "ValidationError.NoSamplingInterval.format(idx)", "not truthy(%s)" % SI),
    ("e.badsi", "ValidationError.InvalidSamplingInterval.format(idx)", "truthy({0}) and as_real({0}) < 0".format(SI)),
    ("e.unit", "ValidationError.InvalidDimensionUnit.format(idx)",
     ("truthy({0}) and not %s" % ATOMIC).format(UNIT)),
]
sd_entries_w = [("w.offset", "ValidationWarning.OffsetNoUnit.format(idx)", "(not truthy(%s)) and truthy(%s)" % (UNIT, OFFS))]
_cl = exactly(E, sd_entries_e) + exactly(W, sd_entries_w)
REG.contract(
    "nixio.validator.check_sampled_dimension", props=["C14"],
    params=dict(dim=Obj("SampledDimension"), idx=Int), result=LISTS, requires=SD_REQ,
    ensures=_cl, prop_clauses=[c[0] for c in _cl])


@REG.specfunc()
def atomic_spec(ex, p, u):
    """units.is_atomic as a function of the text (its contract's summary)"""
    f = z3.Function("spec_is_atomic", StrS, BoolS)
    return VBool(f(u.t))


@REG.specfunc()
def si_spec(ex, p, u):
    f = z3.Function("spec_is_si", StrS, BoolS)
    return VBool(f(u.t))


# ---- range dimension -----------------------------------------------------------------------------------------------------------
RUNIT = "range_unit(dim)"


@REG.specfunc()
def range_unit(ex, p, dim):
    """unit of a range dimension as stored / linked (summary of the unit getter)"""
    from sidecar_a_common import obj
    f = z3.Function("spec_range_unit", IntS, p.sigma["attr"].sort(), p.sigma["link"].sort(), Val)
    return VDyn(f(obj(ex, p, dim).t, p.sigma["attr"], p.sigma["link"]))


REG.contract(
    "nixio.dimensions.RangeDimension.unit", assumed=True, props=[],
    params=dict(self=Obj("RangeDimension")), result=Dyn, ensures=["result == range_unit(self)"],
    note="unit getter (own attribute, alias or DimensionLink): summary")

T = "range_ticks(dim)"
rd_entries_e = [
    ("e.noticks", "ValidationError.NoTicks.format(idx)", "len(%s) == 0" % T),
    ("e.unsorted", "ValidationError.UnsortedTicks.format(idx)",
     "len({0}) > 0 and not all({0}[j] < {0}[j + 1] for j in range(len({0}) - 1))".format(T)),
    ("e.unit", "ValidationError.InvalidDimensionUnit.format(idx)",
     ("truthy({0}) and not %s" % ATOMIC).format(RUNIT)),
]
_cl = exactly(E, rd_entries_e) + exactly(W, [])
REG.contract(
    "nixio.validator.check_range_dimension", props=["C14"],
    params=dict(dim=Obj("RangeDimension"), idx=Int), result=LISTS,
    requires=["obj(dim) != 0", "is_none(%s) or is_str(%s)" % (RUNIT, RUNIT)],
    ensures=_cl, prop_clauses=[c[0] for c in _cl])

# ---- entity / property / feature ---------------------------------------------------------------------------------------------------
ATTR = "dec(attr(obj(entity), '{0}'))"
ATTR2 = "dec(attr(obj({1}), '{0}'))"
ent_entries = [
    ("e.type", "ValidationError.NoType", "not truthy(%s)" % ATTR.format("type")),
    ("e.id", "ValidationError.NoID", "not truthy(%s)" % ATTR.format("entity_id")),
    ("e.name", "ValidationError.NoName", "not truthy(%s)" % ATTR.format("name")),
    ("e.date", "ValidationError.NoDate", "is_none(%s)" % ATTR.format("created_at")),
]
_cl = exactly("result", ent_entries)
REG.contract(
    "nixio.validator.check_entity", props=["C14"],
    params=dict(entity=Obj("Entity")), result=SeqOf(Str),
    requires=["obj(entity) != 0", "is_str(attr(obj(entity), 'created_at')) or is_bytes(attr(obj(entity), 'created_at')) or "
                                  "is_none(dec(attr(obj(entity), 'created_at')))"] +
             ["is_none({0}) or is_str({0})".format(ATTR.format(k)) for k in ("type", "entity_id", "name")],
    ensures=_cl, prop_clauses=[c[0] for c in _cl])

for _fn, _cls in (("check_block", "Block"), ("check_group", "Group"), ("check_source", "Source")):
    _arg = _fn.split("_")[1]
    REG.contract(
        "nixio.validator.%s" % _fn, props=["C14"], params={_arg: Obj(_cls)}, result=LISTS,
        requires=["obj(%s) != 0" % _arg, "is_str(attr(obj({0}), 'created_at')) or is_bytes(attr(obj({0}), 'created_at')) or "
                                         "is_none(dec(attr(obj({0}), 'created_at')))".format(_arg)] +
                 ["is_none({0}) or is_str({0})".format(ATTR2.format(k, _arg)) for k in ("type", "entity_id", "name")],
        ensures=[("same", "result[0] == result_of('check_entity') and arg_of('check_entity', 'entity') == %s" % _arg, "prop"),
                 ("nowarn", "len(result[1]) == 0", "prop")],
        prop_clauses=["same", "nowarn"])

# ---- property ---------------------------------------------------------------------------------------------------------------------
REG.contract(
    "nixio.hdf5.h5dataset.H5DataSet.get_attr", assumed=True,
    params=dict(self=Obj("H5DataSet"), name=Str), result=Dyn,
    ensures=["result == ite_(gid(self) == 0, boxed(None), dec(attr(gid(self), name)))"],
    note="h5py AttributeManager.get on the dataset; bytes decoded")
for _k in ("name", "unit", "definition"):
    REG.contract("nixio.property.Property.%s" % _k, props=["C14", "C02"], params=dict(self=Obj("Property")), result=Dyn,
                 requires=["field(self, '_h5dataset') == field(self, '_h5group')"],
                 ensures=[("get", "result == ite_(obj(self) == 0, boxed(None), dec(attr(obj(self), '%s')))" % _k, "prop")],
                 prop_clauses=["get"])

PATTR = "dec(attr(obj(prop), '{0}'))"
pe = [("e.id", "'property {}: {}'.format(idx, ValidationError.NoID)", "not truthy(%s)" % PATTR.format("entity_id")),
      ("e.name", "'property {}: {}'.format(idx, ValidationError.NoName)", "not truthy(%s)" % PATTR.format("name"))]
pw = [("w.unit", "'property {}: {}'.format(idx, ValidationWarning.NoUnit)", "not truthy(%s)" % PATTR.format("unit"))]
_cl = exactly(E, pe) + exactly(W, pw)
REG.contract(
    "nixio.validator.check_property", props=["C14"],
    params=dict(prop=Obj("Property"), idx=Int), result=LISTS,
    requires=["obj(prop) != 0", "field(prop, '_h5dataset') == field(prop, '_h5group')"] +
             ["is_none({0}) or is_str({0})".format(PATTR.format(k)) for k in ("entity_id", "name", "unit")],
    ensures=_cl, prop_clauses=[c[0] for c in _cl])

# ---- unit compatibility of a tag with its references --------------------------------------------------------------------------------
SCAL = z3.Function("spec_scalable", StrS, StrS, BoolS)


@REG.specfunc()
def scalable_spec(ex, p, a, b):
    return VBool(SCAL(a.t, b.t))


@REG.specfunc()
def pair_ok(ex, p, tu, ru):
    """one (tag unit, dimension unit) pair is compatible: both empty, or scalable"""
    return VBool(z3.Or(z3.And(tu.t == z3.StringVal(""), ru.t == z3.StringVal("")), SCAL(tu.t, ru.t)))


@REG.specfunc()
def row_ok(ex, p, tus, rus):
    """every compared pair of one reference is compatible (pairs up to the shorter length, like zip)"""
    f = z3.Function("spec_units_row_ok", z3.SeqSort(StrS), z3.SeqSort(StrS), BoolS)
    r = f(tus.t, rus.t)
    if ex.is_ground(tus.t, rus.t):
        i = V.fresh("ri", IntS)
        n = z3.If(z3.Length(tus.t) < z3.Length(rus.t), z3.Length(tus.t), z3.Length(rus.t))
        p.assume(r == z3.ForAll([i], z3.Implies(z3.And(i >= 0, i < n),
                                                z3.Or(z3.And(tus.t[i] == z3.StringVal(""), rus.t[i] == z3.StringVal("")),
                                                      SCAL(tus.t[i], rus.t[i])))))
    return VBool(r)


REG.contract(
    "nixio.validator.tag_units_match_refs_units", props=["C14"],
    params=dict(tag_units=SeqOf(Str), refs_units=SeqOf(SeqOf(Str))), result=Bool,
    # ReferenceUnitsIncompatible is reported exactly when some reference has some dimension whose unit is neither
    # "both empty" nor convertible
    ensures=[("match", "result == all(row_ok(tag_units, refs_units[j]) for j in range(len(refs_units)))", "prop")],
    loops={0: dict(var="k", inv=["all(row_ok(tag_units, refs_units[j]) for j in range(k))"],
                   reveal=["row_ok(tag_units, ref_units)"]),
           1: dict(var="m", inv=["all(pair_ok(tag_units[i], ref_units[i]) for i in range(m))"],
                   reveal=["row_ok(tag_units, ref_units)"])},
    prop_clauses=["match"])
