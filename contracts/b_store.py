"""Store layer: field declarations and contracts of nixio's HDF5 wrapper layer over the abstract store.

Handles: an H5Group / H5DataSet python object denotes the HDF5 object link[pgid][name] (`gid(h)`, 0 = not in the
file). `pgid` is a ghost field: the id of the (always existing) h5py parent group. The cached `_group` attribute of
H5Group is not modelled (stale-handle behaviour is outside what is verified, DESIGN section 8).
"""
import z3
from pyvc.vals import *          # noqa: F401,F403
from pyvc import vals as V

REG = globals().get("REG")

REG.fields("H5Group", pgid=Int, name=Str)
REG.fields("H5DataSet", pgid=Int, name=Str)
REG.fields("Entity", _h5group=Obj("H5Group"), _parent=Dyn, _file=Obj("File"))
REG.fields("DataArray", _sources=Dyn, _dimensions=Dyn)
REG.fields("DataSet", _h5group=Obj("H5Group"))
REG.fields("File", _auto_update_timestamps=Bool, _h5group=Obj("H5Group"), _root=Obj("H5Group"),
           _data=Obj("H5Group"), _metadata=Obj("H5Group"), _compr=Enum("Compression"), _blocks=Dyn,
           _sections=Dyn, mode=Dyn, _h5file=Dyn)

_DAREAD = z3.Function("spec_da_read", IntS, Val, Val, Val)       # (dataset object, stored content, index) -> values
_CALIB = z3.Function("spec_calibrate", Val, Val, Val, Val)          # (raw values, coefficients, origin) -> values
_WRITE = z3.Function("spec_ds_write", Val, Val, Val, Val)           # (old content, index, data) -> new content


@REG.specfunc()
def raw_read(ex, p, ds, idx):
    """h5py/NumPy selection `content[idx]` of the dataset object ds in the current store (assumed semantics)"""
    return VDyn(_DAREAD(ds.t, p.sigma["data"][ds.t], box(ex.deref(p, idx))))


def norm_sel(t):
    """`dataset[:]` and "no selection" (None) both address the whole dataset"""
    none3 = SliceDT.mk_slice(OptI.NoneI, OptI.NoneI, OptI.NoneI)
    return z3.If(z3.And(Val.is_VSliceV(t), Val.sl(t) == none3), Val.VNone, t)


@REG.specfunc()
def ds_write(ex, p, old, idx, data):
    """content after `content[idx] = data` (assumed h5py/NumPy assignment semantics)"""
    return VDyn(_WRITE(box(old), norm_sel(box(ex.deref(p, idx))), box(ex.deref(p, data))))


@REG.specfunc()
def calibrate(ex, p, raw, coeff, origin):
    return VDyn(_CALIB(box(raw), box(coeff), box(origin)))


@REG.specfunc()
def dataset_of(ex, p, e):
    """the 'data' dataset object of a data array entity"""
    from sidecar_a_common import obj
    o = obj(ex, p, e)
    return VInt(p.sigma["link"][o.t][z3.StringVal("data")])


# ---- assumed contracts (trust boundary: nixio.hdf5 wrappers over h5py) -------------------------------------
REG.contract(
    "nixio.hdf5.h5group.H5Group.get_dataset", assumed=True,
    params=dict(self=Obj("H5Group"), name=Str), result=Obj("H5DataSet"),
    raises={"KeyError": ("gid(self) == 0 or link(gid(self), name) == 0", "helper")},
    ensures=["field(result, 'pgid') == gid(self)", "field(result, 'name') == name",
             "gid(result) == link(gid(self), name)"],
    note="h5py Group.__contains__/__getitem__; H5DataSet.create_from_h5obj re-opens parent[name]")

REG.contract(
    "nixio.hdf5.h5dataset.H5DataSet.shape", assumed=True, note="property",
    params=dict(self=Obj("H5DataSet")), result=SeqOf(Int),
    ensures=["result == dshape(gid(self))", "all(x >= 0 for x in result)"])

REG.contract(
    "nixio.hdf5.h5dataset.H5DataSet.read_data", assumed=True,
    params=dict(self=Obj("H5DataSet"), slc=Dyn), defaults=dict(slc=NONE), result=Dyn,
    raises={"IndexError": ("h5_refuses(gid(self), slc)", "helper")},
    ensures=["result == raw_read(gid(self), slc)"],
    note="dataset[slc]; h5py ValueError/TypeError for unusable selections are mapped to IndexError")

REG.contract(
    "nixio.hdf5.h5dataset.H5DataSet.write_data", assumed=True,
    params=dict(self=Obj("H5DataSet"), data=Dyn, slc=Dyn), defaults=dict(slc=NONE),
    modifies=["data"],
    raises={"TypeError#conv": ("h5_refuses_write(gid(self), slc, data)", "helper")},
    ensures=["same(sigma('data'), store_data(old(sigma('data')), gid(self), ds_write(old(ddata(gid(self))), slc, data)))"],
    note="dataset[slc] = data (slc None: dataset[:] = data)")


@REG.specfunc()
def dec(ex, p, v):
    """bytes attribute values are decoded to text by get_attr"""
    t = box(ex.deref(p, v))
    return VDyn(z3.If(Val.is_VBytes(t), Val.VStr(Val.bs(t)), t))


REG.contract(
    "nixio.hdf5.h5group.H5Group.get_attr", assumed=True,
    params=dict(self=Obj("H5Group"), name=Str), result=Dyn,
    ensures=["result == ite_(gid(self) == 0, boxed(None), dec(attr(gid(self), name)))"],
    note="h5py AttributeManager.get; None when the group does not exist or the attribute is absent")

REG.fields("Dimension", _h5group=Obj("H5Group"), dim_index=Int, _parent=Dyn, _file=Obj("File"))


# ---------------------------------------------------------------------------------------------------------
# canonical handles: an H5Group python object carries no state besides (pgid, name) in this model, so all
# handles for the same (parent object, link name) are identified with one canonical ghost object HID(p, n)
# ---------------------------------------------------------------------------------------------------------
HID = z3.Function("handle_id", IntS, StrS, IntS)


@REG.specfunc()
def child(ex, p, g, n):
    """the H5Group / H5DataSet handle for link name n below the HDF5 object g"""
    h = HID(g.t, n.t)
    pg = ex.bi.heap_array(p, "pgid", Int)
    nm = ex.bi.heap_array(p, "name", Str)
    if ex.is_ground(g.t, n.t):
        p.assume(z3.And(h > 0, pg[h] == g.t, nm[h] == n.t))
    else:
        # used under a quantifier: the defining facts of canonical handles for all (group, name) pairs. Canonical handles
        # are ghost objects below the allocation frontier of the unit, so the initial field arrays describe them.
        pg0 = z3.Const("heap0_pgid", pg.sort())
        nm0 = z3.Const("heap0_name", nm.sort())
        a, b = z3.Int("hid_g"), z3.String("hid_n")
        ax = z3.ForAll([a, b], z3.And(HID(a, b) > 0, HID(a, b) < z3.Int("alloc0"), pg0[HID(a, b)] == a, nm0[HID(a, b)] == b),
                       patterns=[HID(a, b)])
        p.assume(ax)
    return VObj(h, "H5Group")


def _norm_attr(v):
    """what set_attr stores for a value: None deletes (absent = VNone)"""
    return v


@REG.specfunc()
def attr_set(ex, p, amap, o, k, v):
    """attribute map after `attrs[k] = v` (v None: the attribute is deleted) on object o"""
    a = amap.t
    return VOpaqueTerm(z3.Store(a, o.t, z3.Store(a[o.t], k.t, box(ex.deref(p, v)))))


from sidecar_a_common import VOpaqueTerm      # noqa: E402

H5G_OK = "gid(self) != 0"

REG.contract(
    "nixio.hdf5.h5group.H5Group.set_attr", assumed=True,
    params=dict(self=Obj("H5Group"), name=Str, value=Dyn),
    modifies=["attr", "link", "ord", "kind", "fresh"],
    raises={"TypeError#h5": ("not storable(value)", "helper")},
    ensures=["same(sigma('attr'), attr_set(ens('attr', self), ens_gid(self), name, value))",
             "same(sigma('link'), ens('link', self)) and same(sigma('ord'), ens('ord', self)) and "
             "same(sigma('kind'), ens('kind', self)) and freshid() == ens_fresh(self)"],
    note="_create_h5obj (creates the group if it is not in the file yet), then h5py attrs[name] = value / "
         "del attrs[name] for None; raises for values h5py cannot store")

_STORABLE = z3.Function("h5_storable", Val, BoolS)


@REG.specfunc()
def storable(ex, p, v):
    """h5py can store the value as an attribute (assumed true for None, numbers, text, bytes and flat sequences of them)"""
    t = box(ex.deref(p, v))
    basic = z3.Or(Val.is_VNone(t), Val.is_VInt(t), Val.is_VReal(t), Val.is_VBool(t), Val.is_VStr(t), Val.is_VBytes(t),
                  Val.is_VIntSeq(t), Val.is_VRealSeq(t), Val.is_VStrSeq(t))
    return VBool(z3.Or(basic, _STORABLE(t)))


# ---- clock and timestamp text --------------------------------------------------------------------------------
REG.contract(
    "nixio.util.util.now_int", assumed=True, params=dict(), result=Int,
    modifies=["clock"],
    ensures=["result == old(clock())", "clock() >= old(clock())"],
    note="reads the system clock (monotone for the purposes of C19: 'while the clock does not move backwards')")


@REG.specfunc()
def clock(ex, p):
    return VInt(p.sigma["clock"])


# ---------------------------------------------------------------------------------------------------------
# links and datasets
# ---------------------------------------------------------------------------------------------------------
@REG.specfunc()
def link_set(ex, p, lmap, g, k, o):
    """link map after `group[k] = object o` (o == 0: the link is removed)"""
    a = lmap.t
    return VOpaqueTerm(z3.Store(a, g.t, z3.Store(a[g.t], k.t, o.t)))


@REG.specfunc()
def ord_without(ex, p, names, k):
    """creation-order sequence with the name k removed (total spec function; defining facts per instance)"""
    f = z3.Function("spec_ord_without", z3.SeqSort(StrS), StrS, z3.SeqSort(StrS))
    r = f(names.t, k.t)
    if ex.is_ground(names.t, k.t):
        i = z3.IndexOf(names.t, z3.Unit(k.t), 0)
        n = z3.Length(names.t)
        p.assume(z3.If(z3.Contains(names.t, z3.Unit(k.t)),
                       r == z3.Concat(z3.SubSeq(names.t, 0, i), z3.SubSeq(names.t, i + 1, n - i - 1)),
                       r == names.t))
    return VSeq(r, Str)


@REG.specfunc()
def ord_set(ex, p, omap, g, names):
    return VOpaqueTerm(z3.Store(omap.t, g.t, names.t))


@REG.specfunc()
def wf(ex, p):
    """well-formed store (assumed invariant of HDF5 groups): link names of a group = its creation-order list
    (no repeats); linked objects are older than the allocation counter"""
    link, ordr, fresh = p.sigma["link"], p.sigma["ord"], p.sigma["fresh"]
    g, n = V.fresh("wg", IntS), V.fresh("wn", StrS)
    return VBool(z3.And(fresh > 0,
                        z3.ForAll([g, n], z3.And((link[g][n] != 0) == z3.Contains(ordr[g], z3.Unit(n)),
                                                 link[g][n] < fresh, link[g][n] >= 0))))


REG.contract(
    "nixio.hdf5.h5group.H5Group.__contains__", assumed=True,
    params=dict(self=Obj("H5Group"), item=Dyn), result=Bool,
    ensures=["result == (gid(self) != 0 and is_str(item) and link(gid(self), as_str(item)) != 0)"],
    note="h5py Group.__contains__ on link names; False when the group does not exist")

REG.contract(
    "nixio.hdf5.h5group.H5Group.__len__", assumed=True,
    params=dict(self=Obj("H5Group")), result=Int,
    ensures=["result == ite_(gid(self) == 0, 0, len(order(gid(self))))", "result >= 0"])

REG.contract(
    "nixio.hdf5.h5group.H5Group.__delitem__", assumed=True,
    params=dict(self=Obj("H5Group"), key=Str),
    requires=[H5G_OK], modifies=["link", "ord"], let="g = gid(self)",
    raises={"KeyError": ("link(g, key) == 0", "helper")},
    ensures=["same(sigma('link'), link_set(old(sigma('link')), g, key, 0))",
             "same(sigma('ord'), ord_set(old(sigma('ord')), g, ord_without(old(order(g)), key)))"],
    note="del group[key]: unlinks; the object itself is untouched")

REG.contract(
    "nixio.hdf5.h5group.H5Group.create_link", assumed=True,
    params=dict(self=Obj("H5Group"), target=Dyn, name=Str),
    requires=[H5G_OK, "is_obj(target)", "target_obj(target) != 0"],
    modifies=["link", "ord"], let="g = gid(self); tobj = target_obj(target)",
    ensures=["same(sigma('link'), link_set(old(sigma('link')), g, name, tobj))",
             "same(sigma('ord'), ord_set(old(sigma('ord')), g, ord_without(old(order(g)), name) + (name,)))"],
    note="group[name] = target's HDF5 object (a hard link: the SAME object, not a copy); an existing link of that "
         "name is removed first, so the name moves to the end of the creation order")


@REG.specfunc()
def target_obj(ex, p, t):
    """HDF5 object of an entity passed as a dynamic value"""
    from sidecar_a_common import gid
    tt = box(ex.deref(p, t))
    h5 = ex.bi.heap_array(p, "_h5group", Obj("H5Group"))
    return gid(ex, p, VObj(h5[Val.ref(tt)], "H5Group"))


REG.contract(
    "nixio.hdf5.h5group.H5Group.open_group", assumed=True,
    params=dict(self=Obj("H5Group"), name=Str, create=Bool), result=Obj("H5Group"),
    modifies=["link", "ord", "kind", "fresh", "attr"],
    let="g = ens_gid(self); f = ens_fresh(self)",
    ensures=["result == child(g, name)",
             "same(sigma('link'), open_link(self, name, create)) and same(sigma('ord'), open_ord(self, name, create)) and "
             "same(sigma('kind'), open_kind(self, name, create)) and same(sigma('attr'), open_attr(self, name, create)) and "
             "freshid() == open_fresh(self, name, create)"],
    note="_create_h5obj on self (creates the group itself if missing), then H5Group(self.group, name, create): "
         "creates an empty, creation-order-tracked child group iff create and absent")


def _open_state(ex, p, h, name, create):
    st, g = _ens_state(ex, _oldp(ex, p), h)
    c = ex.truth(p, create)
    n = name.t
    isnew = z3.And(c, st["link"][g][n] == 0)
    f = st["fresh"]
    out = dict(st)
    out["link"] = z3.If(isnew, z3.Store(z3.Store(st["link"], g, z3.Store(st["link"][g], n, f)), f, z3.K(StrS, z3.IntVal(0))),
                        st["link"])
    out["ord"] = z3.If(isnew, z3.Store(z3.Store(st["ord"], g, z3.Concat(st["ord"][g], z3.Unit(n))), f,
                                       z3.Empty(z3.SeqSort(StrS))), st["ord"])
    out["kind"] = z3.If(isnew, z3.Store(st["kind"], f, z3.IntVal(1)), st["kind"])
    out["attr"] = z3.If(isnew, z3.Store(st["attr"], f, z3.K(StrS, Val.VNone)), st["attr"])
    out["fresh"] = z3.If(isnew, f + 1, f)
    return out


for _c in ("link", "ord", "kind", "attr"):
    def _mk(c):
        def fn(ex, p, h, name, create):
            return VOpaqueTerm(_open_state(ex, p, h, name, create)[c])
        return fn
    REG.specfuncs["open_" + _c] = _mk(_c)


@REG.specfunc()
def open_fresh(ex, p, h, name, create):
    return VInt(_open_state(ex, p, h, name, create)["fresh"])


@REG.specfunc()
def freshid(ex, p):
    return VInt(p.sigma["fresh"])


@REG.specfunc()
def attr_clear(ex, p, amap, o):
    return VOpaqueTerm(z3.Store(amap.t, o.t, z3.K(StrS, Val.VNone)))


@REG.specfunc()
def all_kinds_kept(ex, p, o):
    se = ex.lookup(p, "__specenv__")
    oldp = se.old if se.old is not None else se.p
    return VBool(p.sigma["kind"] == z3.Store(oldp.sigma["kind"], o.t, z3.IntVal(1)))


REG.contract(
    "nixio.hdf5.h5group.H5Group.has_data", assumed=True,
    params=dict(self=Obj("H5Group"), name=Str), result=Bool, requires=[H5G_OK],
    ensures=["result == (link(gid(self), name) != 0 and okind(link(gid(self), name)) == 2)"])

REG.contract(
    "nixio.hdf5.h5group.H5Group.get_data", assumed=True,
    params=dict(self=Obj("H5Group"), name=Str), result=Dyn, requires=[H5G_OK],
    ensures=["result == ite_(link(gid(self), name) == 0, boxed(()), ddata(link(gid(self), name)))"],
    note="dataset[:] of the named child, [] when absent (the empty list is modelled as the empty sequence)")


@REG.specfunc()
def stored_as(ex, p, data, dtype):
    """content of a dataset after writing `data` with element type dtype (assumed h5py conversion: real
    sequences are stored as they are for Double; text sequences as they are for String)"""
    f = z3.Function("h5_convert", Val, Val, Val)
    d = box(ex.deref(p, data))
    t = box(ex.deref(p, dtype))
    r = f(d, t)
    if ex.is_ground(d, t):
        p.assume(z3.Implies(z3.Or(Val.is_VRealSeq(d), Val.is_VStrSeq(d)), r == d))
    return VDyn(r)


REG.contract(
    "nixio.hdf5.h5group.H5Group.write_data", assumed=True,
    params=dict(self=Obj("H5Group"), name=Str, data=Dyn, dtype=Dyn, compression=Bool),
    requires=[H5G_OK],
    modifies=["link", "ord", "kind", "fresh", "data", "dshape", "dtype"], raise_dirty=True,
    let="g = gid(self); had = link(g, name) != 0 and okind(link(g, name)) == 2; "
        "d = ite_(had, link(g, name), freshid())",
    raises={"IndexError": ("(not had) and is_none(dtype) and seq_empty(data)", "helper"),
            "TypeError#conv": ("not h5_convertible(data, ite_(had, ddtype(link(g, name)), dtype))", "helper")},
    ensures=["same(sigma('data'), store_data(old(sigma('data')), d, stored_as(data, ite_(had, old(ddtype(d)), dtype))))",
             "had implies (unchanged('link') and unchanged('ord') and unchanged('kind') and unchanged('fresh') "
             "and unchanged('dtype'))",
             "only_changed_at('dshape', d) and only_changed_at('dtype', d)",
             "(not had) implies (same(sigma('link'), link_set(old(sigma('link')), g, name, d)) and "
             "same(sigma('ord'), ord_set(old(sigma('ord')), g, old(order(g)) + (name,))) and "
             "freshid() == old(freshid()) + 1 and okind(d) == 2 and ddtype(d) == ite_(is_none(dtype), "
             "uf('dtype_of_first', data), dtype))"],
    note="creates (shape = np.shape(data), given dtype or the dtype of data[0]) or resizes the named dataset and "
         "writes data; a conversion failure happens AFTER the resize (raise_dirty)")


@REG.specfunc()
def only_changed_at(ex, p, comp, o):
    """store component `comp` differs from its pre-state value at most at object o"""
    nm = z3.simplify(comp.t).as_string()
    old = _oldp(ex, p)
    return VBool(p.sigma[nm] == z3.Store(old.sigma[nm], o.t, p.sigma[nm][o.t]))


@REG.specfunc()
def seq_empty(ex, p, v):
    t = box(ex.deref(p, v))
    return VBool(z3.Or(z3.And(Val.is_VRealSeq(t), z3.Length(Val.rseq(t)) == 0),
                       z3.And(Val.is_VIntSeq(t), z3.Length(Val.iseq(t)) == 0),
                       z3.And(Val.is_VStrSeq(t), z3.Length(Val.sseq(t)) == 0),
                       z3.And(Val.is_VValSeq(t), z3.Length(Val.vseq(t)) == 0)))


_CONVOK = z3.Function("h5_convertible", Val, Val, BoolS)


@REG.specfunc()
def h5_convertible(ex, p, data, dtype):
    """h5py can convert data to the dataset's element type (assumed: numbers -> Double, text -> String always)"""
    d, t = box(ex.deref(p, data)), box(ex.deref(p, dtype))
    if ex.is_ground(d, t):
        from pyvc.builtins import lib_const
        dbl = box(lib_const("np.double"))
        numeric = z3.Or(Val.is_VRealSeq(d), Val.is_VIntSeq(d), Val.is_VReal(d), Val.is_VInt(d))
        numvals = z3.And(Val.is_VValSeq(d), z3.Length(Val.vseq(d)) == 1,
                         z3.Or(Val.is_VInt(Val.vseq(d)[0]), Val.is_VReal(Val.vseq(d)[0])))
        p.assume(z3.Implies(z3.And(t == dbl, z3.Or(numeric, numvals)), _CONVOK(d, t)))
    return VBool(_CONVOK(d, t))



# ---------------------------------------------------------------------------------------------------------
# lazy creation: every mutating H5Group method first makes sure its own group exists (_create_h5obj)
# ---------------------------------------------------------------------------------------------------------
def _ens_state(ex, oldp, h):
    """store components after `h._create_h5obj()` in state oldp; returns (dict, gid term)"""
    pgA = ex.bi.heap_array(oldp, "pgid", Int)
    nmA = ex.bi.heap_array(oldp, "name", Str)
    pg, nm = pgA[h.t], nmA[h.t]
    S = oldp.sigma
    g0 = S["link"][pg][nm]
    isnew = g0 == 0
    f = S["fresh"]
    out = dict(S)
    out["link"] = z3.If(isnew, z3.Store(z3.Store(S["link"], pg, z3.Store(S["link"][pg], nm, f)), f, z3.K(StrS, z3.IntVal(0))),
                        S["link"])
    out["ord"] = z3.If(isnew, z3.Store(z3.Store(S["ord"], pg, z3.Concat(S["ord"][pg], z3.Unit(nm))), f,
                                       z3.Empty(z3.SeqSort(StrS))), S["ord"])
    out["kind"] = z3.If(isnew, z3.Store(S["kind"], f, z3.IntVal(1)), S["kind"])
    out["attr"] = z3.If(isnew, z3.Store(S["attr"], f, z3.K(StrS, Val.VNone)), S["attr"])
    out["fresh"] = z3.If(isnew, f + 1, f)
    return out, z3.If(isnew, f, g0)


def _oldp(ex, p):
    se = ex.lookup(p, "__specenv__")
    return se.old if se.old is not None else se.p


@REG.specfunc()
def ens(ex, p, comp, h):
    """store component `comp` of the PRE-state after making sure the group of handle h exists"""
    nm = z3.simplify(comp.t).as_string()
    st, _ = _ens_state(ex, _oldp(ex, p), h)
    return VOpaqueTerm(st[nm])


@REG.specfunc()
def ens_gid(ex, p, h):
    _, g = _ens_state(ex, _oldp(ex, p), h)
    return VInt(g)


@REG.specfunc()
def ens_fresh(ex, p, h):
    st, _ = _ens_state(ex, _oldp(ex, p), h)
    return VInt(st["fresh"])
