"""Store layer: field declarations and contracts of nixio's HDF5 wrapper layer over the abstract store.

Handles: an H5Group / H5DataSet python object denotes the HDF5 object link[pgid][name] (`gid(h)`, 0 = not in the
file). `pgid` is a ghost field: the id of the (always existing) h5py parent group. The cached `_group` attribute of
H5Group is not modelled (stale-handle behaviour is outside what is verified, DESIGN section 8).
"""
import z3
from pyvc.vals import *          # noqa: F401,F403
from pyvc import vals as V

REG = globals().get("REG")

REG.fields("H5Group", pgid=Int, name=Str)
REG.fields("H5DataSet", pgid=Int, name=Str)
REG.fields("Entity", _h5group=Obj("H5Group"), _parent=Dyn, _file=Obj("File"))
REG.fields("DataArray", _sources=Dyn, _dimensions=Dyn)
REG.fields("DataSet", _h5group=Obj("H5Group"))
REG.fields("File", _auto_update_timestamps=Bool, _h5group=Obj("H5Group"), _root=Obj("H5Group"),
           _data=Obj("H5Group"), _metadata=Obj("H5Group"), _compr=Enum("Compression"), _blocks=Dyn,
           _sections=Dyn, mode=Dyn, _h5file=Dyn)

_DAREAD = z3.Function("spec_da_read", IntS, Val, Val, Val)       # (dataset object, stored content, index) -> values
_CALIB = z3.Function("spec_calibrate", Val, Val, Val, Val)          # (raw values, coefficients, origin) -> values
_WRITE = z3.Function("spec_ds_write", Val, Val, Val, Val)           # (old content, index, data) -> new content


@REG.specfunc()
def raw_read(ex, p, ds, idx):
    """h5py/NumPy selection `content[idx]` of the dataset object ds in the current store (assumed semantics)"""
    return VDyn(_DAREAD(ds.t, p.sigma["data"][ds.t], box(ex.deref(p, idx))))


@REG.specfunc()
def ds_write(ex, p, old, idx, data):
    """content after `content[idx] = data` (assumed h5py/NumPy assignment semantics)"""
    return VDyn(_WRITE(box(old), box(ex.deref(p, idx)), box(ex.deref(p, data))))


@REG.specfunc()
def calibrate(ex, p, raw, coeff, origin):
    return VDyn(_CALIB(box(raw), box(coeff), box(origin)))


@REG.specfunc()
def dataset_of(ex, p, e):
    """the 'data' dataset object of a data array entity"""
    from sidecar_a_common import obj
    o = obj(ex, p, e)
    return VInt(p.sigma["link"][o.t][z3.StringVal("data")])


# ---- assumed contracts (trust boundary: nixio.hdf5 wrappers over h5py) -------------------------------------
REG.contract(
    "nixio.hdf5.h5group.H5Group.get_dataset", assumed=True,
    params=dict(self=Obj("H5Group"), name=Str), result=Obj("H5DataSet"),
    raises={"KeyError": ("gid(self) == 0 or link(gid(self), name) == 0", "helper")},
    ensures=["field(result, 'pgid') == gid(self)", "field(result, 'name') == name",
             "gid(result) == link(gid(self), name)"],
    note="h5py Group.__contains__/__getitem__; H5DataSet.create_from_h5obj re-opens parent[name]")

REG.contract(
    "nixio.hdf5.h5dataset.H5DataSet.shape", assumed=True, note="property",
    params=dict(self=Obj("H5DataSet")), result=SeqOf(Int),
    ensures=["result == dshape(gid(self))", "all(x >= 0 for x in result)"])

REG.contract(
    "nixio.hdf5.h5dataset.H5DataSet.read_data", assumed=True,
    params=dict(self=Obj("H5DataSet"), slc=Dyn), defaults=dict(slc=NONE), result=Dyn,
    raises={"IndexError": ("h5_refuses(gid(self), slc)", "helper")},
    ensures=["result == raw_read(gid(self), slc)"],
    note="dataset[slc]; h5py ValueError/TypeError for unusable selections are mapped to IndexError")

REG.contract(
    "nixio.hdf5.h5dataset.H5DataSet.write_data", assumed=True,
    params=dict(self=Obj("H5DataSet"), data=Dyn, slc=Dyn), defaults=dict(slc=NONE),
    modifies=["data"],
    raises={"TypeError#conv": ("h5_refuses_write(gid(self), slc, data)", "helper")},
    ensures=["same(sigma('data'), store_data(old(sigma('data')), gid(self), ds_write(old(ddata(gid(self))), slc, data)))"],
    note="dataset[slc] = data (slc None: dataset[:] = data)")


@REG.specfunc()
def dec(ex, p, v):
    """bytes attribute values are decoded to text by get_attr"""
    t = box(ex.deref(p, v))
    return VDyn(z3.If(Val.is_VBytes(t), Val.VStr(Val.bs(t)), t))


REG.contract(
    "nixio.hdf5.h5group.H5Group.get_attr", assumed=True,
    params=dict(self=Obj("H5Group"), name=Str), result=Dyn,
    ensures=["result == ite_(gid(self) == 0, boxed(None), dec(attr(gid(self), name)))"],
    note="h5py AttributeManager.get; None when the group does not exist or the attribute is absent")

REG.fields("Dimension", _h5group=Obj("H5Group"), dim_index=Int, _parent=Dyn, _file=Obj("File"))
