"""C19 - adding a dimension sets the ARRAY's update time (iff automatic timestamps are on) and never its creation time.

Cell-level clauses on the array's own timestamp attributes; the descriptor constructors and the descriptor-side
setters enter as assumed summaries whose only relevant content is their frame: they write attributes of the new
descriptor object only.
"""
import z3
from pyvc.vals import *          # noqa: F401,F403
from pyvc import vals as V

REG = globals().get("REG")

NEW_DIM_MODS = ["attr", "link", "ord", "kind", "fresh", "data", "dshape", "dtype", "heap._h5group@new", "heap.dim_index@new",
                "heap._parent@new", "heap._file@new"]


@REG.specfunc()
def attrs_same(ex, p, o):
    """object o has exactly the attributes it had in the pre-state"""
    se = ex.lookup(p, "__specenv__")
    oldp = se.old if se.old is not None else se.p
    return VBool(p.sigma["attr"][o.t] == oldp.sigma["attr"][o.t])


DIM_NEW_ENS = ["obj(result) != 0 and obj(result) != old(obj(data_array))", "attrs_same(old(obj(data_array)))",
               "obj(data_array) == old(obj(data_array))",
               # the new descriptor is a (grand)child of the array: not the group the array's own handle hangs on, and not linked yet
               "field(field(data_array, '_h5group'), 'pgid') != obj(result)", "link(obj(result), 'link') == 0"]
DIM_NEW_NOTE = ("fresh_result; summary (cf. the verified SampledDimension.create_new): creates / opens the descriptor group "
                "dimensions/<index> below the array and writes only that group's attributes and datasets")
REG.contract("nixio.dimensions.RangeDimension.create_new", assumed=True, props=[],
             params=dict(cls=Cls("RangeDimension"), data_array=Obj("DataArray"), index=Int, ticks=Dyn),
             result=Obj("RangeDimension"), modifies=NEW_DIM_MODS, ensures=DIM_NEW_ENS, note=DIM_NEW_NOTE)
REG.contract("nixio.dimensions.SetDimension.create_new", assumed=True, props=[],
             params=dict(cls=Cls("SetDimension"), data_array=Obj("DataArray"), index=Int),
             result=Obj("SetDimension"), modifies=NEW_DIM_MODS, ensures=DIM_NEW_ENS, note=DIM_NEW_NOTE)

# descriptor-side setters: they never write an attribute of the array (frame only)
SELF_ONLY = ["all_attrs_kept_except(obj(self))"]


@REG.specfunc()
def all_attrs_kept_except(ex, p, x):
    """every object other than x has exactly its old attributes"""
    se = ex.lookup(p, "__specenv__")
    oldp = se.old if se.old is not None else se.p
    o = V.fresh("ko", IntS)
    return VBool(z3.ForAll([o], z3.Implies(o != x.t, p.sigma["attr"][o] == oldp.sigma["attr"][o]),
                           patterns=[p.sigma["attr"][o]]))


REG.contract("nixio.dimensions.RangeDimension.unit.setter", assumed=True, props=[],
             params=dict(self=Obj("RangeDimension"), unit=Dyn), modifies=["attr"],
             requires=["link(obj(self), 'link') == 0"],
             raises={"InvalidAttrType": ("not is_none(unit) and not is_str(unit)", "helper")}, ensures=SELF_ONLY,
             note="an unlinked range dimension stores its unit on its own group")
REG.contract("nixio.dimensions.RangeDimension.label.setter", assumed=True, props=[],
             params=dict(self=Obj("RangeDimension"), label=Dyn), modifies=["attr"],
             requires=["link(obj(self), 'link') == 0"],
             raises={"InvalidAttrType": ("not is_none(label) and not is_str(label)", "helper")}, ensures=SELF_ONLY,
             note="an unlinked range dimension stores its label on its own group")
REG.contract("nixio.dimensions.RangeDimension.ticks.setter", assumed=True, props=[],
             params=dict(self=Obj("RangeDimension"), ticks=Dyn), modifies=["link", "ord", "kind", "fresh", "data", "dshape", "dtype"],
             raises={"ValueError": ("uf_bool('ticks.unsorted', ticks)", "helper"),
                     "TypeError": ("uf_bool('ticks.bad', ticks)", "helper")}, raise_dirty=True,
             ensures=["only_changed_at('link', old(obj(self)))"],
             note="writes the `ticks` dataset of the dimension (and drops a link); no attribute of any object")
REG.contract("nixio.dimensions.SetDimension.labels.setter", assumed=True, props=[],
             params=dict(self=Obj("SetDimension"), labels=Dyn), modifies=["link", "ord", "kind", "fresh", "data", "dshape", "dtype"],
             raises={"ValueError": ("uf_bool('labels.bad', labels)", "helper"),
                     "TypeError": ("uf_bool('labels.bad2', labels)", "helper")}, raise_dirty=True,
             ensures=["only_changed_at('link', old(obj(self)))"],
             note="writes the `labels` dataset of the dimension; no attribute of any object")


@REG.specfunc()
def uf_bool(ex, p, name, *args):
    nm = z3.simplify(name.t).as_string()
    f = z3.Function("ufb_" + nm.replace(".", "_"), *([Val] * len(args) + [BoolS]))
    return VBool(f(*[box(ex.deref(p, a)) for a in args]))


AUTO19 = "field(field(self, '_file'), '_auto_update_timestamps')"
TS_CLAUSES = [
    # C19: the array's update time follows the change iff automatic timestamps are on ...
    ("upd.array", "attr(o, 'updated_at') == ite_(%s, boxed(ts_text(old(clock()))), old(attr(o, 'updated_at')))" % AUTO19, "prop"),
    # ... and its creation time (and every other attribute of the array) is not a side effect of anything
    ("created.kept", "attr(o, 'created_at') == old(attr(o, 'created_at'))", "prop"),
    ("array.only", "same(attrs_of(o), amap_set(old(attrs_of(o)), 'updated_at', attr(o, 'updated_at')))", "prop"),
]
APP_REQ = ["obj(self) != 0", "field(field(self, '_h5group'), 'pgid') != obj(self)"]
APP_MODS = NEW_DIM_MODS + ["clock"]

REG.contract(
    "nixio.data_array.DataArray.append_set_dimension", props=["C19"],
    params=dict(self=Obj("DataArray"), labels=Dyn), result=Obj("SetDimension"), note="fresh_result",
    requires=APP_REQ, modifies=APP_MODS, unexpected_ok=["ValueError", "TypeError"], let="o = obj(self)",
    ensures=TS_CLAUSES, prop_clauses=[c[0] for c in TS_CLAUSES])

REG.contract(
    "nixio.data_array.DataArray.append_range_dimension", props=["C19"],
    params=dict(self=Obj("DataArray"), ticks=Dyn, label=Dyn, unit=Dyn), result=Obj("RangeDimension"), note="fresh_result",
    requires=APP_REQ + ["is_none(label) or is_str(label)", "is_none(unit) or is_str(unit)"],
    modifies=APP_MODS, unexpected_ok=["ValueError", "TypeError"], let="o = obj(self)",
    ensures=TS_CLAUSES, prop_clauses=[c[0] for c in TS_CLAUSES])

