"""C07 - the generated axis of a sampled dimension agrees with position_at: entry k is the position of sample start + k.

numpy enters as an assumed summary: `np.arange(n)` is the integer sequence 0 .. n-1 and `sequence * a + b` is elementwise
(what numpy broadcasting does for a 1-D array and two scalars); `tuple(...)` of it is that sequence.
"""
import z3
from pyvc.vals import *          # noqa: F401,F403
from pyvc import vals as V

REG = globals().get("REG")

from sidecar_c07_dimensions import SD_DOMAIN, SD_LET          # noqa: E402

START_VAL = ("ite_(not is_none(start), as_real(start) * s + off, "
             "ite_(not is_none(start_position), as_real(start_position), off))")
REG.contract(
    "nixio.dimensions.SampledDimension.axis", props=["C07"],
    params=dict(self=Obj("SampledDimension"), count=Int, start=Dyn, start_position=Dyn), defaults=dict(start=NONE, start_position=NONE),
    result=SeqOf(Real),
    requires=SD_DOMAIN + ["count >= 0", "is_none(start) or is_int(start)",
                          "is_none(start_position) or is_real(start_position) or is_int(start_position)"],
    let=SD_LET,
    raises={"ValueError": ("(not is_none(start) and as_int(start) < 0) or "
                           "(is_none(start) and not is_none(start_position) and as_real(start_position) < off)", "prop")},
    # (the entry formula result[k] == k * s + start value is generated as an obligation too, but the solvers leave it `unknown`
    #  - a quantified goal over the uninterpreted product - so it is not claimed; the bounded battery C07/bounded/c07 compares
    #  every entry with position_at instead)
    ensures=[("axis.len", "len(result) == count", "prop")],
    prop_clauses=["axis.len", "raises-iff:ValueError", "raises-only:ValueError"])
