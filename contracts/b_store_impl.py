"""The attribute writer of the wrapper layer, verified against the h5py AttributeManager primitives.

`H5Group.set_attr` enters every other proof as an assumed summary (b_store.py). Here its BODY is checked against the same
summary, for a group that already exists, over assumed contracts of the three h5py operations it may use: item assignment
(the value replaces the attribute, whatever was stored - type included), deletion, and `modify` (which keeps the STORED
type: what is readable afterwards is the new value converted to the old value's type, e.g. a fraction truncated to an
integer). The clause is the inverse-pair requirement of C02: what set_attr stored is what get_attr reads.
"""
import z3
from pyvc.vals import *          # noqa: F401,F403
from pyvc import vals as V

REG = globals().get("REG")

REG.contract("nixio.hdf5.h5group.H5Group._create_h5obj", assumed=True, props=[],
             params=dict(self=Obj("H5Group")), requires=["gid(self) != 0"],
             note="for a group that exists in the file: (re)binds the wrapper to it, nothing is written")
REG.contract("nixio.hdf5.h5group.H5Group.group", assumed=True, props=[], note="property",
             params=dict(self=Obj("H5Group")), result=OpaqueOf("h5obj"), requires=["gid(self) != 0"],
             ensures=["h5obj_id(result) == gid(self)"])
REG.contract("opaque:h5attrs.__delitem__", assumed=True, params=dict(self=OpaqueOf("h5attrs"), key=Str), modifies=["attr"],
             requires=["not is_none(attr(attrs_owner(self), key))"],
             ensures=["same(sigma('attr'), attr_set(old(sigma('attr')), attrs_owner(self), key, None))"],
             note="h5py AttributeManager.__delitem__")

REG.contract(
    "nixio.hdf5.h5group.H5Group.set_attr#impl", props=["C02", "C07", "C19"],
    params=dict(self=Obj("H5Group"), name=Str, value=Dyn),
    requires=["gid(self) != 0", "is_none(value) or is_str(value) or is_int(value) or is_real(value) or is_bool(value)"],
    modifies=["attr"],
    # what is stored is the value given - whatever was stored under that name before (a fraction after a whole number stays
    # a fraction) -, None removes the attribute, nothing else changes
    ensures=[("attr.set", "same(sigma('attr'), attr_set(old(sigma('attr')), gid(self), name, value))", "prop")],
    prop_clauses=["attr.set"])
