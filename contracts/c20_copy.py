"""C20 - copies: name handling, refusal before the copy, what is handed to the HDF5 copy, id regeneration.

Completeness and independence of the copy itself are H5Ocopy facts (assumed). nixio contributes: the destination name
(given name, else the source's), the refusal of an existing destination name BEFORE anything is copied, the arguments
of the copy (source path, destination, class container, id policy), and - when ids are not kept - a fresh id for
EVERY copied object that carries one (groups and datasets alike).
"""
import z3
from pyvc.vals import *          # noqa: F401,F403
from pyvc import vals as V

REG = globals().get("REG")

_ATTRS_OWNER = z3.Function("h5py_attrs_owner", IntS, IntS)


@REG.specfunc()
def attrs_owner(ex, p, a):
    a = ex.deref(p, a)
    return VInt(_ATTRS_OWNER(a.t if isinstance(a, VOpaque) else Val.ok(box(a))))


REG.contract("opaque:h5obj.attrs", assumed=True, note="property", params=dict(self=OpaqueOf("h5obj")), result=OpaqueOf("h5attrs"),
             ensures=["attrs_owner(result) == h5obj_id(self)"])
REG.contract("opaque:h5attrs.__contains__", assumed=True, params=dict(self=OpaqueOf("h5attrs"), key=Str), result=Bool,
             ensures=["result == (not is_none(attr(attrs_owner(self), key)))"])
_MODIFIED = z3.Function("h5_modify_converted", Val, Val, Val)


@REG.specfunc()
def modified_value(ex, p, stored, new):
    """what is readable after AttributeManager.modify: the new value converted to the type of the STORED value (identical
    to the new value when both have the same kind; otherwise some conversion of it, e.g. a fraction truncated to an integer)"""
    a, b = box(ex.deref(p, stored)), box(ex.deref(p, new))
    same_kind = z3.Or(*[z3.And(t(a), t(b)) for t in (Val.is_VInt, Val.is_VReal, Val.is_VBool, Val.is_VStr, Val.is_VBytes)])
    text = lambda v: z3.If(Val.is_VBytes(v), Val.bs(v), Val.s(v))
    both_text = z3.And(z3.Or(Val.is_VStr(a), Val.is_VBytes(a)), z3.Or(Val.is_VStr(b), Val.is_VBytes(b)))
    # text over text keeps the characters (in the stored flavour: fixed bytes or variable-length text)
    as_stored_text = z3.If(Val.is_VStr(a), Val.VStr(text(b)), Val.VBytes(text(b)))
    return VDyn(z3.If(same_kind, b, z3.If(both_text, as_stored_text, _MODIFIED(a, b))))


REG.contract("opaque:h5attrs.modify", assumed=True, params=dict(self=OpaqueOf("h5attrs"), key=Str, value=Dyn),
             modifies=["attr"],
             ensures=["same(sigma('attr'), attr_set(old(sigma('attr')), attrs_owner(self), key, "
                      "modified_value(old(attr(attrs_owner(self), key)), value)))"],
             note="AttributeManager.modify: overwrites an existing attribute IN PLACE, keeping its stored type")
REG.contract("np.bytes_", assumed=True, params=dict(s=Str), result=Bytes, result_expr="as_bytes(s)")
REG.contract("nixio.util.util.create_id", assumed=True, params=dict(), result=Str, modifies=["fresh"],
             ensures=["uuid_text(result)", "freshid() == old(freshid())"], note="str(uuid4()): well-formed UUID text "
             "(uniqueness is probabilistic and assumed)")


@REG.specfunc()
def as_bytes(ex, p, s):
    return VStr(s.t, True)


REG.contract(
    "nixio.hdf5.h5group.H5Group.copy.<locals>.change_id", props=["C20"],
    params=dict(_=Dyn, igrp=OpaqueOf("h5obj")), modifies=["attr", "fresh"],
    # type invariant of the input: an id, where present, is stored as text (the in-place `modify` keeps the stored type)
    requires=["is_none(attr(h5obj_id(igrp), 'entity_id')) or is_bytes(attr(h5obj_id(igrp), 'entity_id')) or "
              "is_str(attr(h5obj_id(igrp), 'entity_id'))"],
    let="o = h5obj_id(igrp); has = not is_none(attr(o, 'entity_id'))",
    ensures=[
        # EVERY visited object that carries an id - group or dataset (properties are datasets) - gets a fresh one
        ("regen", "has implies ((is_bytes(attr(o, 'entity_id')) or is_str(attr(o, 'entity_id'))) and "
                  "uuid_text(dec(attr(o, 'entity_id'))))", "prop"),
        ("regen.only", "has implies same(sigma('attr'), attr_set(old(sigma('attr')), o, 'entity_id', attr(o, 'entity_id')))", "prop"),
        ("skip", "(not has) implies unchanged('attr')", "prop")],
    prop_clauses=["regen", "regen.only", "skip"])


# ---- what a copy is asked to do ---------------------------------------------------------------------------------------------------------------
REG.contract(
    "nixio.hdf5.h5group.H5Group.copy", assumed=True, props=[],
    params=dict(self=Obj("H5Group"), source=Str, dest=Obj("H5Group"), name=Dyn, cls=Dyn, shallow=Bool, keep_id=Bool),
    defaults=dict(name=NONE, cls=NONE, shallow=VBool(False), keep_id=VBool(True)), result=OpaqueOf("h5obj"),
    modifies=["link", "ord", "kind", "fresh", "attr", "data", "dshape", "dtype"],
    note="ASSUMED (H5Ocopy + h5py visititems): a complete, independent deep copy of self/<source> is linked at "
         "dest/<cls>/<name>; links internal to the copied subtree point into the copy; its `name` attribute is set to name; "
         "with keep_id False the root and (given the verified change_id callback) every object below it that carries an id "
         "gets a fresh one; nothing at or below the source is written; returns the h5py group of the copy")
REG.contract("opaque.attrs", assumed=True, note="property", params=dict(self=OpaqueT), result=OpaqueOf("h5attrs"),
             ensures=["attrs_owner(result) == h5obj_id(self)"])
REG.contract("opaque:h5attrs.__getitem__", assumed=True, params=dict(self=OpaqueOf("h5attrs"), key=Str), result=Dyn,
             ensures=["result == dec(attr(attrs_owner(self), key))"])

SRC_NAME = "as_str(dec(attr(hobj(obj), 'name')))"


@REG.specfunc()
def as_entity(ex, p, x):
    return VObj(Val.ref(box(ex.deref(p, x))), "Entity")


@REG.specfunc()
def is_cls(ex, p, x, cname):
    """a dynamic value that is an object of exactly that repository class"""
    t = box(ex.deref(p, x))
    cid = V.CLASSES.id(z3.simplify(cname.t).as_string())
    return VBool(z3.And(Val.is_VObj(t), Val.cls(t) == cid))

REG.contract(
    "nixio.block.Block._copy_objects", props=["C20", "C12"],
    params=dict(self=Obj("Block"), obj=Obj("Entity"), clsname=Str, keep_id=Bool, name=Str), result=Dyn,
    requires=["hobj(obj) != 0", "is_str(dec(attr(hobj(obj), 'name')))", "is_cls(field(obj, '_parent'), 'Block')",
              "link(hobj(self), clsname) != 0 and link(hobj(self), clsname) < freshid() and okind(link(hobj(self), clsname)) == 1",
              "field(field(self, '_h5group'), 'pgid') != hobj(self)"],
    modifies=["link", "ord", "kind", "fresh", "attr", "data", "dshape", "dtype"],
    let="dname = ite_(len(name) == 0, %s, name); cont = old(link(hobj(self), clsname))" % SRC_NAME,
    # an existing name at the destination is refused without side effects (automatic atomic obligations)
    raises={"NameError": ("link(cont, dname) != 0", "prop")},
    ensures=[("copy.name", "arg_of('H5Group.copy', 'name') == boxed(dname)", "prop"),           # supplied name, else the source's
             ("copy.ids", "arg_of('H5Group.copy', 'keep_id') == keep_id", "prop"),              # id policy as requested
             ("copy.dest", "arg_of('H5Group.copy', 'dest') == field(self, '_h5group') and "
                           "arg_of('H5Group.copy', 'cls') == boxed(clsname)", "prop"),
             ("copy.once", "n_calls('H5Group.copy') == 1", "prop"),
             # what is returned identifies the COPY (its unique destination name), not an id the original may share
             ("copy.result", "result == boxed(dname)", "prop")],
    prop_clauses=["copy.name", "copy.ids", "copy.dest", "copy.once", "copy.result", "raises-iff:NameError", "raises-only:NameError"])


# ---- a public copy call: kind check, delegation, and the handle returned denotes the COPY ---------------------------------------------------
REG.fields("Block", _tags=Dyn, _data_arrays=Dyn, _multi_tags=Dyn, _groups=Dyn, _sources=Dyn, _data_frames=Dyn)
REG.inline("nixio.block.Block.tags")
CF_NAME = "as_str(dec(attr(hobj(copy_from), 'name')))"

REG.contract(
    "nixio.block.Block.create_tag#copy", props=["C20", "C12"], wip=True,
    params=dict(self=Obj("Block"), name=Str, type_=Str, position=Dyn, copy_from=Dyn, keep_copy_id=Bool),
    result=Obj("Entity"), note="fresh_result",
    requires=["is_obj(copy_from)", "is_none(field(self, '_tags'))", "not uuid_text(dname_)" .replace("dname_", "ite_(len(name) == 0, %s, name)" % "as_str(dec(attr(target_obj(copy_from), 'name')))"),
              "is_str(dec(attr(target_obj(copy_from), 'name')))", "target_obj(copy_from) != 0",
              "is_cls(field(as_entity(copy_from), '_parent'), 'Block')",
              "link(hobj(self), 'tags') != 0 and link(hobj(self), 'tags') < freshid() and okind(link(hobj(self), 'tags')) == 1"],
    modifies=["link", "ord", "kind", "fresh", "attr", "data", "dshape", "dtype", "heap._tags@self", "heap._h5group@new",
              "heap._parent@new", "heap._file@new", "heap._backend@new", "heap._itemclass@new", "heap._name@new"],
    let="dname = ite_(len(name) == 0, as_str(dec(attr(target_obj(copy_from), 'name'))), name)",
    raises={"TypeError": ("not is_cls(copy_from, 'Tag')", "prop"),
            "NameError": ("False", "helper")},
    unexpected_ok=["NameError", "KeyError"],
    ensures=[("cp.delegates", "n_calls('_copy_objects') == 1 and arg_of('_copy_objects', 'clsname') == 'tags' and "
                              "arg_of('_copy_objects', 'keep_id') == keep_copy_id and arg_of('_copy_objects', 'name') == name and "
                              "boxed(arg_of('_copy_objects', 'obj')) == copy_from", "prop"),
             # the handle returned denotes the copy: the object linked in this block's tag list under the destination name
             ("cp.handle", "hobj(result) == link(link(hobj(self), 'tags'), dname)", "prop")],
    prop_clauses=["cp.delegates", "cp.handle", "raises-iff:TypeError", "raises-only:TypeError"])

REG.contract(
    "nixio.file.File.create_block#copy", props=["C20", "C12"], prefix=True,
    params=dict(self=Obj("File"), name=Str, type_=Str, compression=Enum("Compression"), copy_from=Dyn, keep_copy_id=Bool),
    requires=["is_obj(copy_from)", "target_obj(copy_from) != 0", "is_str(dec(attr(target_obj(copy_from), 'name')))",
              "gid(field(self, '_data')) != 0"],
    modifies=["link", "ord", "kind", "fresh", "attr", "data", "dshape", "dtype"],
    let="dname = ite_(len(name) == 0, as_str(dec(attr(target_obj(copy_from), 'name'))), name)",
    # an object of the wrong kind and an existing destination NAME (nothing else) are refused before anything is copied
    raises={"TypeError": ("not is_cls(copy_from, 'Block')", "prop"),
            "NameError": ("is_cls(copy_from, 'Block') and link(gid(field(self, '_data')), dname) != 0", "prop")},
    prop_clauses=["raises-only:TypeError", "raises-only:NameError", "refused-before-cut:TypeError", "refused-before-cut:NameError"])

REG.contract(
    "nixio.file.File.copy_section", props=["C20", "C12"], prefix=True,
    params=dict(self=Obj("File"), obj=Dyn, children=Bool, keep_id=Bool, name=Str),
    requires=["is_obj(obj)", "target_obj(obj) != 0", "is_str(dec(attr(target_obj(obj), 'name')))",
              "gid(field(self, '_metadata')) != 0"],
    modifies=["link", "ord", "kind", "fresh", "attr", "data", "dshape", "dtype"],
    let="dname = ite_(len(name) == 0, as_str(dec(attr(target_obj(obj), 'name'))), name)",
    # the destination container of a file-level section copy is the metadata root: an existing name THERE is refused
    raises={"TypeError": ("not is_cls(obj, 'Section')", "prop"),
            "NameError": ("is_cls(obj, 'Section') and link(gid(field(self, '_metadata')), dname) != 0", "prop")},
    prop_clauses=["raises-only:TypeError", "raises-only:NameError", "refused-before-cut:TypeError", "refused-before-cut:NameError"])

REG.contract(
    "nixio.section.Section.copy_section", props=["C20", "C12"], prefix=True,
    params=dict(self=Obj("Section"), obj=Dyn, children=Bool, keep_id=Bool, name=Str),
    requires=["is_obj(obj)", "target_obj(obj) != 0", "is_str(dec(attr(target_obj(obj), 'name')))", "hobj(self) != 0",
              "link(hobj(self), 'sections') != 0 and link(hobj(self), 'sections') < freshid() and okind(link(hobj(self), 'sections')) == 1",
              "field(field(self, '_h5group'), 'pgid') != hobj(self)"],
    modifies=["link", "ord", "kind", "fresh", "attr", "data", "dshape", "dtype"],
    let="dname = ite_(len(name) == 0, as_str(dec(attr(target_obj(obj), 'name'))), name); cont = link(hobj(self), 'sections')",
    # refused exactly when the DESTINATION name (the supplied one, else the source's) is taken in this section
    raises={"TypeError": ("not is_cls(obj, 'Section')", "prop"),
            "NameError": ("is_cls(obj, 'Section') and link(cont, dname) != 0", "prop")},
    prop_clauses=["raises-only:TypeError", "raises-only:NameError", "refused-before-cut:TypeError", "refused-before-cut:NameError"])
