"""Timestamps (property C19): util.time_to_str / str_to_time / now_int and the entity timestamp accessors."""
import z3
from pyvc.vals import *          # noqa: F401,F403
from pyvc import vals as V

REG = globals().get("REG")

FMT = "%Y%m%dT%H%M%S"
_DT = z3.Function("dt_utcfromtimestamp", IntS, IntS)
_YMD = z3.Function("dt_ymd", IntS, IntS, IntS, IntS)
_STRF = z3.Function("dt_strftime", IntS, StrS, StrS)
_STRP = z3.Function("dt_strptime", StrS, StrS, IntS)
_SUB = z3.Function("np_Sub", Val, Val, IntS)         # the executor's model of `a - b` on library objects
_SECS = z3.Function("td_total_seconds", IntS, RealS)


@REG.specfunc()
def dt_of(ex, p, t):
    return VOpaque(_DT(t.t), "datetime")


@REG.specfunc()
def dt_ymd(ex, p, y, m, d):
    return VOpaque(_YMD(y.t, m.t, d.t), "datetime")


@REG.specfunc()
def strf(ex, p, d, f):
    return VStr(_STRF(d.t, f.t))


@REG.specfunc()
def strp(ex, p, s, f):
    return VOpaque(_STRP(s.t, f.t), "datetime")


@REG.specfunc()
def dt_sub(ex, p, a, b):
    return VOpaque(_SUB(box(a), box(b)), "timedelta")


@REG.specfunc()
def total_secs(ex, p, d):
    return VReal(_SECS(d.t))


@REG.specfunc()
def ts_text(ex, p, t):
    """the stored text for POSIX second t: strftime(FMT) of the UTC datetime, as bytes"""
    return VStr(_STRF(_DT(t.t), z3.StringVal(FMT)), True)


@REG.specfunc()
def ts_parse(ex, p, s):
    """POSIX seconds of a stored timestamp text (bytes or str)"""
    t = box(ex.deref(p, s))
    txt = z3.If(Val.is_VBytes(t), Val.bs(t), Val.s(t))
    d = _SUB(Val.VOpaque(_STRP(txt, z3.StringVal(FMT))), Val.VOpaque(_YMD(z3.IntVal(1970), z3.IntVal(1), z3.IntVal(1))))
    r = _SECS(d)
    fl = z3.ToInt(r)
    return VInt(z3.If(r >= 0, fl, z3.If(z3.ToReal(fl) == r, fl, fl + 1)))


# ---- assumed datetime semantics (whole seconds, 1970..2100; additionally checked exhaustively on the two
#      independent factors day x second-of-day by the bounded stand-in C19/bounded/datetime-roundtrip) ---------
REG.contract("datetime.datetime.utcfromtimestamp", assumed=True, params=dict(t=Int), result=OpaqueT,
             ensures=["result == dt_of(t)",
                      "total_secs(dt_sub(result, dt_ymd(1970, 1, 1))) == t"],
             note="utcfromtimestamp(t) is the epoch plus t seconds")
REG.contract("datetime.datetime", assumed=True, params=dict(y=Int, m=Int, d=Int), result=OpaqueT,
             ensures=["result == dt_ymd(y, m, d)"])
REG.contract("opaque.strftime", assumed=True, params=dict(self=OpaqueT, fmt=Str), result=Str,
             ensures=["result == strf(self, fmt)", "strp(result, fmt) == self"],
             note="strptime(strftime(d, f), f) == d for a format with year..second fields")
REG.contract("datetime.datetime.strptime", assumed=True, params=dict(s=Str, fmt=Str), result=OpaqueT,
             ensures=["result == strp(s, fmt)"])
REG.contract("opaque.total_seconds", assumed=True, params=dict(self=OpaqueT), result=Real,
             ensures=["result == total_secs(self)"])

REG.contract(
    "nixio.util.util.time_to_str", props=["C19"],
    params=dict(time=Int), result=Bytes,
    ensures=[("fmt", "result == ts_text(time)", "prop")], prop_clauses=["fmt"])

REG.contract(
    "nixio.util.util.str_to_time", props=["C19"],
    params=dict(time_str=Dyn), result=Int,
    requires=["is_str(time_str) or is_bytes(time_str)"],
    ensures=[("parse", "result == ts_parse(time_str)", "prop")], prop_clauses=["parse"])


@REG.lemma("C19/lemma/timestamp-roundtrip", ["C19"])
def lemma_roundtrip():
    """str_to_time(time_to_str(t)) == t from the two verified contracts and the assumed datetime facts"""
    t = z3.Int("t")
    d = _DT(t)
    text = _STRF(d, z3.StringVal(FMT))
    hyps = [_STRP(text, z3.StringVal(FMT)) == d,                                   # opaque.strftime (assumed)
            _SECS(_SUB(Val.VOpaque(d), Val.VOpaque(_YMD(z3.IntVal(1970), z3.IntVal(1), z3.IntVal(1))))) == z3.ToReal(t)]
    back = _SECS(_SUB(Val.VOpaque(_STRP(text, z3.StringVal(FMT))),
                      Val.VOpaque(_YMD(z3.IntVal(1970), z3.IntVal(1), z3.IntVal(1)))))
    fl = z3.ToInt(back)
    res = z3.If(back >= 0, fl, z3.If(z3.ToReal(fl) == back, fl, fl + 1))
    return [("roundtrip", hyps, res == t)]
