"""C12 / C03 - creating calls: an invalid or duplicate name (or an empty type) is refused BEFORE anything is created.

Prefix verification (see c16_data_frame.py): each create_* method is executed symbolically up to the point where it
hands over to <Class>.create_new (not under contract); proved for all inputs: whenever the name is illegal (empty or
containing '/'), the type is empty, or an entity of that name already exists in the target container, the call has
been refused with the stated error before that point and the store is unchanged; and these errors are raised only
then. (DuplicateName on an existing name is also the C03 clause "a second entity under an existing name is refused".)
"""
import z3
from pyvc.vals import *          # noqa: F401,F403

REG = globals().get("REG")
REG.inline("nixio.util.util.check_entity_name", "nixio.util.names.check")

BAD = "(not name_ok(name)) or len(type_) == 0"


def creator(qn, cls, cont, extra_params=None, type_arg="type_", via=None, check_first=True, requires=()):
    params = dict(self=Obj(cls), name=Str)
    params[type_arg] = Str
    params.update(extra_params or {})
    g = "link(obj(self), '%s')" % cont if via is None else via
    bad = BAD.replace("type_", type_arg)
    dup = "%s != 0 and link(%s, name) != 0" % (g, g)
    raises = {"DuplicateName": (("(not (%s)) and " % bad if check_first else "") + dup, "prop")}
    if check_first:
        raises["ValueError"] = (bad, "prop")
    REG.contract(
        qn, props=["C12", "C03"], prefix=True, params=params,
        requires=["is_none(copy_from)"] * ("copy_from" in params) + list(requires),
        modifies=["link", "ord", "kind", "fresh", "attr", "clock", "data", "dshape", "dtype"],
        raises=raises,
        prop_clauses=["raises-only:DuplicateName", "refused-before-cut:DuplicateName"] +
                     (["raises-only:ValueError", "refused-before-cut:ValueError"] if check_first else []))


COPY = dict(copy_from=Dyn, keep_copy_id=Bool)
creator("nixio.block.Block.create_tag", "Block", "tags", dict(position=Dyn, **COPY))
creator("nixio.block.Block.create_multi_tag", "Block", "multi_tags", dict(positions=Dyn, **COPY))
creator("nixio.block.Block.create_group", "Block", "groups")
creator("nixio.block.Block.create_source", "Block", "sources")
creator("nixio.section.Section.create_section", "Section", "sections", dict(oid=Dyn))
creator("nixio.source.Source.create_source", "Source", "sources")
creator("nixio.file.File.create_block", "File", None, dict(compression=Enum("Compression"), **COPY), check_first=False,
        via="gid(field(self, '_data'))")
