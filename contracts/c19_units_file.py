"""C19 / C14 / C02 - BaseTag.units setter and the file-level forced timestamps.

units: a non-empty list is stored (each entry sanitised) in the `units` dataset, an empty one / None removes the
dataset - also a list of empty strings IS a list - and in every case the tag's update time follows the change iff
automatic timestamps are on (no early exit skips it).
"""
import z3
from pyvc.vals import *          # noqa: F401,F403
from pyvc import vals as V

REG = globals().get("REG")

_SAN = z3.Function("spec_unit_sanitized", StrS, StrS)


@REG.specfunc()
def sanitized(ex, p, u):
    return VStr(_SAN(u.t))


REG.contract("nixio.util.units.sanitizer", assumed=True, props=[], params=dict(unit=Str), result=Str,
             ensures=["result == sanitized(unit)"], note="summary (a chain of str.replace; idempotence is checked bounded under C09)")

UPD_T = ("same(sigma('attr'), ite_term(field(field(self, '_file'), '_auto_update_timestamps'), "
         "attr_set(old(sigma('attr')), old(obj(self)), 'updated_at', ts_text(old(clock()))), old(sigma('attr'))))")
KEY = "units"
REG.contract(
    "nixio.tag.BaseTag.units.setter", props=["C19", "C14", "C02", "C12"],
    params=dict(self=Obj("BaseTag"), units=Dyn),
    requires=["obj(self) != 0", "is_none(units) or is_strseq(units) or is_valseq(units)",
              "is_valseq(units) implies all(is_str(as_valseq(units)[j]) for j in range(len(as_valseq(units))))",
              "(link(obj(self), 'units') != 0 and okind(link(obj(self), 'units')) == 2) implies "
              "ddtype(link(obj(self), 'units')) == DataType.String",
              "link(obj(self), 'units') < freshid()", "field(field(self, '_h5group'), 'pgid') != obj(self)"],
    modifies=["attr", "clock", "link", "ord", "kind", "fresh", "data", "dshape", "dtype"],
    let="o = obj(self); had = link(o, 'units') != 0 and okind(link(o, 'units')) == 2; "
        "n = ite_(is_none(units), 0, ite_(is_strseq(units), len(as_strseq(units)), len(as_valseq(units)))); empty = n == 0",
    raises={"InvalidAttrType": ("False", "helper")},
    # h5py's refusal to convert the data (after the dataset exists) cannot happen for a list of text: outside this contract
    unexpected_ok=["TypeError"],
    ensures=[("upd", UPD_T, "prop"),                                    # C19: on EVERY path, also when the units are cleared
             ("set.data", "(not empty) implies (link(o, 'units') != 0 and okind(link(o, 'units')) == 2)", "prop"),
             ("set.clear", "empty implies link(o, 'units') == ite_(had, 0, old(link(o, 'units')))", "prop"),
             ("set.len", "(not empty) implies len(as_strseq(arg_of('H5Group.write_data', 'data'))) == n", "prop")],
    loops={0: dict(var="k", cells=dict(sanitized=Str), vars=dict(unit=Str), inv=["len(sanitized) == k"])},
    prop_clauses=["upd", "set.data", "set.clear", "set.len"])


# ---- file-level timestamps ---------------------------------------------------------------------------------------------------------
REG.contract("opaque:h5attrs.__setitem__", assumed=True, params=dict(self=OpaqueOf("h5attrs"), key=Str, value=Dyn),
             modifies=["attr"],
             ensures=["same(sigma('attr'), attr_set(old(sigma('attr')), attrs_owner(self), key, value))"],
             note="h5py AttributeManager.__setitem__")
FILE_TS_REQ = ["is_opaque(field(self, '_h5file'))", "not is_bool(time)"]
for _which in ("created_at", "updated_at"):
    REG.contract(
        "nixio.file.File.force_%s" % _which, props=["C19", "C02", "C12"],
        params=dict(self=Obj("File"), time=Dyn), requires=FILE_TS_REQ, modifies=["attr", "clock"],
        let="fo = h5obj_id(field(self, '_h5file'))",
        raises={"InvalidAttrType": ("not is_none(time) and not is_int(time)", "prop")},
        # forcing a timestamp stores exactly that second - 0 (1970-01-01) included; only this one attribute changes
        ensures=[("force", "same(sigma('attr'), attr_set(old(sigma('attr')), fo, '%s', "
                           "ts_text(ite_(is_none(time), old(clock()), as_int(time)))))" % _which, "prop")],
        prop_clauses=["force", "raises-iff:InvalidAttrType", "raises-only:InvalidAttrType"])
    REG.contract(
        "nixio.file.File.%s" % _which, props=["C19", "C02"], params=dict(self=Obj("File")), result=Int,
        requires=["is_opaque(field(self, '_h5file'))",
                  "is_str(attr(h5obj_id(field(self, '_h5file')), '%s')) or is_bytes(attr(h5obj_id(field(self, '_h5file')), '%s'))"
                  % (_which, _which)],
        ensures=[("get", "result == ts_parse(attr(h5obj_id(field(self, '_h5file')), '%s'))" % _which, "prop")],
        prop_clauses=["get"])
