"""Spec functions shared by all sidecar contract files (loaded first: file name sorts first).

Spec functions are Python callables (ex, p, *args) over symbolic values; they are total
and never fork. They are part of the specification language, not of the verified code.
"""
import z3
from pyvc.vals import *          # noqa: F401,F403
from pyvc import vals as V
from pyvc.ops import slice_indices

REG = globals().get("REG")


def _b(ex, p, v):
    return ex.truth(p, v)


@REG.specfunc()
def implies(ex, p, a, b):
    return VBool(z3.Implies(_b(ex, p, a), _b(ex, p, b)))


@REG.specfunc()
def iff(ex, p, a, b):
    return VBool(_b(ex, p, a) == _b(ex, p, b))


@REG.specfunc()
def ite_(ex, p, c, a, b):
    return ite(_b(ex, p, c), a, b)


@REG.specfunc()
def indices(ex, p, sl, n):
    st, sp, se, _ = slice_indices(sl.t, n.t)
    return VTuple([VInt(st), VInt(sp), VInt(se)])


@REG.specfunc()
def mk_slice(ex, p, a, b, c):
    return VSlice.make(a, b, c)


@REG.specfunc()
def istart(ex, p, sl):
    return VInt(OptI.iv(SliceDT.sl_start(sl.t)))


@REG.specfunc()
def istop(ex, p, sl):
    return VInt(OptI.iv(SliceDT.sl_stop(sl.t)))


@REG.specfunc()
def istep(ex, p, sl):
    """step with None read as 1"""
    c = SliceDT.sl_step(sl.t)
    return VInt(z3.If(OptI.is_NoneI(c), z3.IntVal(1), OptI.iv(c)))


@REG.specfunc()
def has_bounds(ex, p, sl):
    """start and stop are ints (not None)"""
    return VBool(z3.And(OptI.is_SomeI(SliceDT.sl_start(sl.t)), OptI.is_SomeI(SliceDT.sl_stop(sl.t))))


@REG.specfunc()
def step_is(ex, p, sl, k):
    c = SliceDT.sl_step(sl.t)
    return VBool(z3.And(OptI.is_SomeI(c), OptI.iv(c) == k.t))


@REG.specfunc()
def is_none(ex, p, x):
    x = ex.deref(p, x)
    if isinstance(x, VNone):
        return VBool(True)
    if isinstance(x, VDyn):
        return VBool(Val.is_VNone(x.t))
    return VBool(False)


def _tagtest(name):
    def f(ex, p, x):
        x = ex.deref(p, x)
        if isinstance(x, VDyn):
            return VBool(getattr(Val, "is_" + name)(x.t))
        return VBool(getattr(Val, "is_" + name)(box(x)))
    return f


for _n, _t in [("is_int", "VInt"), ("is_real", "VReal"), ("is_bool", "VBool"), ("is_str", "VStr"),
               ("is_bytes", "VBytes"), ("is_slice", "VSliceV"), ("is_ellipsis", "VEllipsis"),
               ("is_valseq", "VValSeq"), ("is_intseq", "VIntSeq"), ("is_obj", "VObj"), ("is_opaque", "VOpaque"),
               ("is_sliceseq", "VSliceSeq"), ("is_strseq", "VStrSeq"), ("is_realseq", "VRealSeq")]:
    REG.specfuncs[_n] = _tagtest(_t)


@REG.specfunc()
def as_int(ex, p, x):
    x = ex.deref(p, x)
    return x if isinstance(x, VInt) else VInt(Val.i(box(x)))


@REG.specfunc()
def as_real(ex, p, x):
    x = ex.deref(p, x)
    if isinstance(x, VReal):
        return x
    if isinstance(x, VInt):
        return VReal(z3.ToReal(x.t))
    return unbox(box(x), Real)


@REG.specfunc()
def as_str(ex, p, x):
    x = ex.deref(p, x)
    return x if isinstance(x, VStr) else VStr(Val.s(box(x)))


@REG.specfunc()
def as_bool(ex, p, x):
    x = ex.deref(p, x)
    return x if isinstance(x, VBool) else VBool(Val.b(box(x)))


@REG.specfunc()
def as_slice(ex, p, x):
    x = ex.deref(p, x)
    return x if isinstance(x, VSlice) else VSlice(Val.sl(box(x)))


@REG.specfunc()
def as_valseq(ex, p, x):
    x = ex.deref(p, x)
    return x if isinstance(x, VSeq) else VSeq(Val.vseq(box(x)), Dyn)


@REG.specfunc()
def as_intseq(ex, p, x):
    x = ex.deref(p, x)
    return x if isinstance(x, VSeq) else VSeq(Val.iseq(box(x)), Int)


@REG.specfunc()
def as_realseq(ex, p, x):
    x = ex.deref(p, x)
    return x if isinstance(x, VSeq) else VSeq(Val.rseq(box(x)), Real)


@REG.specfunc()
def as_strseq(ex, p, x):
    x = ex.deref(p, x)
    return x if isinstance(x, VSeq) else VSeq(Val.sseq(box(x)), Str)


@REG.specfunc()
def as_sliceseq(ex, p, x):
    x = ex.deref(p, x)
    return x if isinstance(x, VSeq) else VSeq(Val.slseq(box(x)), Slice)


@REG.specfunc()
def boxed(ex, p, x):
    return VDyn(box(ex.deref(p, x)))


@REG.specfunc()
def is_intlike(ex, p, x):
    """int or bool (numbers.Integral)"""
    t = box(ex.deref(p, x))
    return VBool(z3.Or(Val.is_VInt(t), Val.is_VBool(t)))


@REG.specfunc()
def intval(ex, p, x):
    t = box(ex.deref(p, x))
    return VInt(z3.If(Val.is_VBool(t), z3.If(Val.b(t), 1, 0), Val.i(t)))


@REG.specfunc()
def floor_(ex, p, x):
    return VInt(z3.ToInt(to_real(x)))


@REG.specfunc()
def ceil_(ex, p, x):
    t = to_real(x)
    f = z3.ToInt(t)
    return VInt(z3.If(z3.ToReal(f) == t, f, f + 1))


@REG.specfunc()
def field(ex, p, obj, name):
    """Raw heap field read (no property dispatch)."""
    nm = z3.simplify(name.t).as_string()
    srt = ex.bi.field_sort(ex, obj.cls, nm)
    arr = ex.bi.heap_array(p, nm, srt)
    return term_to_elem(arr[obj.t], srt)


# --------------------------------------------------------------------------
# abstract HDF5 store accessors (read the store of the state being evaluated)
# --------------------------------------------------------------------------
@REG.specfunc()
def attr(ex, p, o, k):
    return VDyn(p.sigma["attr"][o.t][k.t])


@REG.specfunc()
def link(ex, p, o, k):
    return VInt(p.sigma["link"][o.t][k.t])


@REG.specfunc()
def order(ex, p, o):
    return VSeq(p.sigma["ord"][o.t], Str)


@REG.specfunc()
def dshape(ex, p, o):
    return VSeq(p.sigma["dshape"][o.t], Int)


@REG.specfunc()
def ddtype(ex, p, o):
    return VDyn(p.sigma["dtype"][o.t])


@REG.specfunc()
def ddata(ex, p, o):
    return VDyn(p.sigma["data"][o.t])


@REG.specfunc()
def okind(ex, p, o):
    return VInt(p.sigma["kind"][o.t])


@REG.specfunc()
def gid(ex, p, h):
    """HDF5 object denoted by an H5Group / H5DataSet handle: link[pgid][name] (0: not in file)."""
    pg = field(ex, p, h, VStr("pgid"))
    nm = field(ex, p, h, VStr("name"))
    return VInt(p.sigma["link"][pg.t][nm.t])


@REG.specfunc()
def sigma(ex, p, comp):
    """whole store component as an opaque comparable value"""
    nm = z3.simplify(comp.t).as_string()
    return VOpaqueTerm(p.sigma[nm])


class VOpaqueTerm(SV):
    """wraps an arbitrary z3 term so that == works in spec expressions"""

    def __init__(self, t):
        self.t = t


@REG.specfunc()
def same(ex, p, a, b):
    return VBool(a.t == b.t)


@REG.specfunc()
def unchanged(ex, p, comp):
    """store component identical to its value in the pre-state (only meaningful in ensures)"""
    nm = z3.simplify(comp.t).as_string()
    se = ex.lookup(p, "__specenv__")
    oldp = se.old if se.old is not None else se.p
    return VBool(p.sigma[nm] == oldp.sigma[nm])


@REG.specfunc()
def seq_eq(ex, p, a, b):
    """Sequence equality. As a goal it is proved pointwise (extensionality, applied as a proof rule);
    as an assumption it is the term equality (plus the pointwise facts)."""
    a, b = ex.deref(p, a), ex.deref(p, b)
    if isinstance(a, VTuple):
        a = tuple_to_seq(a, b.elem if isinstance(b, VSeq) else None)
    if isinstance(b, VTuple):
        b = tuple_to_seq(b, a.elem)
    j = V.fresh("xj", IntS)
    pw = z3.And(z3.Length(a.t) == z3.Length(b.t),
                z3.ForAll([j], z3.Implies(z3.And(j >= 0, j < z3.Length(a.t)), a.t[j] == b.t[j])))
    se = ex.lookup(p, "__specenv__")
    if se.proving:
        return VBool(z3.Or(a.t == b.t, pw))
    return VBool(z3.And(a.t == b.t, pw))


@REG.specfunc()
def repeat(ex, p, x, n):
    x = ex.deref(p, x)
    srt = sort_of_sv(x)
    return VSeq(ex.bi.repeat_term(p, srt, term_of(x), n.t), srt)


@REG.specfunc()
def window(ex, p, sl):
    """normalised view window in one dimension: int bounds, step 1, 0 <= start <= stop"""
    t = sl.t
    a, b, c = SliceDT.sl_start(t), SliceDT.sl_stop(t), SliceDT.sl_step(t)
    return VBool(z3.And(OptI.is_SomeI(a), OptI.is_SomeI(b), OptI.is_SomeI(c), OptI.iv(c) == 1,
                        0 <= OptI.iv(a), OptI.iv(a) <= OptI.iv(b)))


def opaque_spec(name, argsorts, ressort, body, res_wrap):
    """Opaque spec function: an uninterpreted symbol whose definition `body(*z3args)` is revealed only for
    ground argument tuples (instance-wise), so that quantified invariants stay small (opaque / reveal)."""
    F = z3.Function("spec_" + name, *([srt for srt in argsorts] + [ressort]))

    def fn(ex, p, *args):
        ts = [box(a) if srt == Val else term_of(ex.deref(p, a)) for a, srt in zip(args, argsorts)]
        app = F(*ts)
        if ex.is_ground(*ts):
            p.assume(app == body(*ts))
        return res_wrap(app)
    fn.__name__ = name
    REG.specfuncs[name] = fn
    return F


_UF = {}


@REG.specfunc()
def uf(ex, p, name, *args):
    """uninterpreted library function over boxed arguments (result: a dynamic value)"""
    nm = z3.simplify(name.t).as_string()
    key = (nm, len(args))
    if key not in _UF:
        _UF[key] = z3.Function("uf_" + nm.replace(".", "_"), *([Val] * len(args) + [Val]))
    return VDyn(_UF[key](*[box(ex.deref(p, a)) for a in args]))


@REG.specfunc()
def obj(ex, p, e):
    """HDF5 object of an entity / data view: gid(e._h5group)"""
    h = field(ex, p, e, VStr("_h5group"))
    return gid(ex, p, h)


_H5REF = z3.Function("h5_refuses", IntS, z3.SeqSort(IntS), Val, BoolS)
_H5REFW = z3.Function("h5_refuses_write", IntS, z3.SeqSort(IntS), Val, Val, Val, BoolS)


@REG.specfunc()
def h5_refuses(ex, p, ds, idx):
    """h5py raises for this selection on this dataset (depends on the shape; assumed: never for in-range
    ints and slices of step >= 1 with 0 <= start, stop <= extent)"""
    return VBool(_H5REF(ds.t, p.sigma["dshape"][ds.t], box(ex.deref(p, idx))))


@REG.specfunc()
def h5_refuses_write(ex, p, ds, idx, data):
    from sidecar_b_store import norm_sel
    return VBool(_H5REFW(ds.t, p.sigma["dshape"][ds.t], p.sigma["dtype"][ds.t], norm_sel(box(ex.deref(p, idx))),
                         box(ex.deref(p, data))))


@REG.specfunc()
def store_data(ex, p, arr, o, v):
    return VOpaqueTerm(z3.Store(arr.t, o.t, box(v)))


@REG.specfunc()
def arg_of(ex, p, callee, argname):
    """value passed for parameter `argname` in the LAST call (on this path) of a contracted function whose qualified
    name ends with `callee` (call-event postconditions: what exactly was handed to the callee)"""
    cs = z3.simplify(callee.t).as_string()
    an = z3.simplify(argname.t).as_string()
    for ev in reversed(p.events):
        if ev[0].endswith(cs):
            return ev[1][an]
    return VDyn(V.fresh("nocall", Val))        # no such call on this path: an arbitrary value


@REG.specfunc()
def result_of(ex, p, callee):
    """what the LAST call (on this path) of the contracted function `callee` returned"""
    cs = z3.simplify(callee.t).as_string()
    for ev in reversed(p.events):
        if ev[0].endswith(cs) and len(ev) > 2:
            return ev[2]
    return VDyn(V.fresh("nocall", Val))        # no such call on this path: an arbitrary value


@REG.specfunc()
def n_calls(ex, p, callee):
    cs = z3.simplify(callee.t).as_string()
    return VInt(len([1 for ev in p.events if ev[0].endswith(cs)]))


@REG.specfunc()
def was_called(ex, p, callee):
    cs = z3.simplify(callee.t).as_string()
    return VBool(any(ev[0].endswith(cs) for ev in p.events))


REG.specfuncs["hobj"] = obj        # alias for contracts whose function has a parameter called `obj`
