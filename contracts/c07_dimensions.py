"""Contracts for the dimension descriptors in nixio/dimensions.py (property C07; used by C08).

Floats are reals (FLOAT-AS-REAL). Division by the symbolic sampling interval is the uninterpreted `rdiv`
term; the property clauses are stated in scaled coordinates q = rdiv(position - offset, interval) and the
(non-linear) link between q and the sample coordinates is the separate lemma C07/lemma/scale.
"""
import z3
from pyvc.vals import *          # noqa: F401,F403
from pyvc import vals as V
from pyvc.ops import OpsMixin

REG = globals().get("REG")

ATOL, RTOL = z3.RealVal("1e-8") if False else z3.Q(1, 100000000), z3.Q(1, 100000)


def _abs(x):
    return z3.If(x >= 0, x, -x)


def isclose_term(a, b):
    return _abs(a - b) <= ATOL + RTOL * _abs(b)


def round_half_even(x):
    f = z3.ToInt(x + z3.Q(1, 2))
    tie = z3.ToReal(f) == x + z3.Q(1, 2)
    return z3.If(z3.And(tie, f % 2 != 0), f - 1, f)


# ---- assumed numpy semantics (over reals) ----------------------------------------------------------------
@REG.specfunc()
def np_isclose(ex, p, a, b):
    return VBool(isclose_term(to_real(ex.deref(p, a)), to_real(ex.deref(p, b))))


@REG.specfunc()
def np_round(ex, p, x):
    return VReal(z3.ToReal(round_half_even(to_real(ex.deref(p, x)))))


@REG.specfunc()
def np_floor(ex, p, x):
    return VReal(z3.ToReal(z3.ToInt(to_real(ex.deref(p, x)))))


@REG.specfunc()
def rhe(ex, p, x):
    return VInt(round_half_even(to_real(x)))


@REG.specfunc()
def rdiv(ex, p, a, b):
    return VReal(OpsMixin.RDIV(to_real(a), to_real(b)))


REG.contract("np.isclose", assumed=True, params=dict(a=Real, b=Real), result=Bool,
             ensures=["result == np_isclose(a, b)"], note="|a-b| <= 1e-8 + 1e-5*|b| over the reals")
REG.contract("np.round", assumed=True, params=dict(x=Real), result=Real,
             ensures=["result == np_round(x)"], note="round half to even")
REG.contract("np.floor", assumed=True, params=dict(x=Real), result=Real, ensures=["result == np_floor(x)"])

NUM_OR_NONE = "(is_none({0}) or is_real({0}) or is_int({0}))"

REG.contract("nixio.dimensions.SampledDimension.offset", props=["C07", "C02"],
             params=dict(self=Obj("SampledDimension")), result=Dyn,
             ensures=[("get", "result == ite_(obj(self) == 0, boxed(None), dec(attr(obj(self), 'offset')))", "prop")],
             prop_clauses=["get"])
REG.contract("nixio.dimensions.SampledDimension.sampling_interval", props=["C07", "C02"],
             params=dict(self=Obj("SampledDimension")), result=Dyn,
             ensures=[("get", "result == ite_(obj(self) == 0, boxed(None), dec(attr(obj(self), 'sampling_interval')))", "prop")],
             prop_clauses=["get"])

SD_DOMAIN = ["obj(self) != 0",
             NUM_OR_NONE.format("attr(obj(self), 'offset')"),
             "(is_real(attr(obj(self), 'sampling_interval')) or is_int(attr(obj(self), 'sampling_interval')))",
             "as_real(attr(obj(self), 'sampling_interval')) > 0"]
SD_LET = ("off = ite_(is_none(attr(obj(self), 'offset')), 0.0, as_real(attr(obj(self), 'offset'))); "
          "s = as_real(attr(obj(self), 'sampling_interval')); ")

REG.contract(
    "nixio.dimensions.SampledDimension.position_at", replay=dict(harness="c07_sampled"), props=["C07"],
    params=dict(self=Obj("SampledDimension"), index=Int), result=Real,
    requires=SD_DOMAIN, let=SD_LET,
    ensures=[("pos", "result == index * s + off", "prop")], prop_clauses=["pos"])


@REG.specfunc()
def sd_exact(ex, p, q, mode):
    """order-theoretic answer in scaled coordinates (sample i sits at q = i): -1 encodes 'no such sample'"""
    t = to_real(q)
    fl = z3.ToInt(t)
    ce = z3.If(z3.ToReal(fl) == t, fl, fl + 1)
    leq = z3.If(fl >= 0, fl, -1)
    less = z3.If(ce - 1 >= 0, ce - 1, -1)
    geq = z3.If(ce > 0, ce, 0)
    m = mode.t
    from pyvc.vals import ENUM_MEMBERS
    names = ENUM_MEMBERS["IndexMode"]
    return VInt(z3.If(m == names.index("LessOrEqual"), leq, z3.If(m == names.index("Less"), less, geq)))


REG.contract(
    "nixio.dimensions.SampledDimension.index_of", replay=dict(harness="c07_sampled"), props=["C07", "C08"],
    params=dict(self=Obj("SampledDimension"), position=Real, mode=Enum("IndexMode")), result=Int,
    requires=SD_DOMAIN,
    let=SD_LET + "q = rdiv(position - off, s); j = rhe(q); "
        "okq = sd_exact(q, mode); okj = sd_exact(j, mode); tol = np_isclose(q, j)",
    # property: last sample <= p / last sample < p / first sample >= p, IndexError exactly when none exists;
    # inside numpy's isclose band around a sample either neighbouring answer is accepted (don't-care zone)
    raises={"IndexError": ("okq == -1 or (tol and okj == -1)", "prop")},
    ensures=[("idx", "result == okq or (tol and result == okj)", "prop"),
             ("idx.nonneg", "result >= 0", "prop")],
    prop_clauses=["idx", "idx.nonneg", "raises-only:IndexError", "raises-iff:IndexError#strict"])


# ---------------------------------------------------------------------------------------------------------
# SampledDimension.range_indices / axis
# ---------------------------------------------------------------------------------------------------------
REG.contract(
    "nixio.dimensions.SliceMode.to_index_mode", props=["C07"],
    params=dict(self=Enum("SliceMode")), result=Enum("IndexMode"),
    ensures=[("excl", "(self == SliceMode.Exclusive) implies result == IndexMode.Less", "prop"),
             ("incl", "(self == SliceMode.Inclusive) implies result == IndexMode.LessOrEqual", "prop")],
    prop_clauses=["excl", "incl"])

RANGE_RESULT = ("is_none(result) or (is_intseq(result) and len(as_intseq(result)) == 2)")

REG.contract(
    "nixio.dimensions.SampledDimension.range_indices", replay=dict(harness="c07_sampled"), props=["C07", "C08"],
    params=dict(self=Obj("SampledDimension"), start_position=Real, end_position=Real, mode=Enum("SliceMode")),
    result=Dyn, requires=SD_DOMAIN,
    let=SD_LET + "qs = rdiv(start_position - off, s); qe = rdiv(end_position - off, s); js = rhe(qs); je = rhe(qe); "
        "em = ite_(mode == SliceMode.Exclusive, IndexMode.Less, IndexMode.LessOrEqual); "
        "a0 = sd_exact(qs, IndexMode.GreaterOrEqual); a1 = sd_exact(js, IndexMode.GreaterOrEqual); ta = np_isclose(qs, js); "
        "b0 = sd_exact(qe, em); b1 = sd_exact(je, em); tb = np_isclose(qe, je)",
    ensures=[("rng.shape", RANGE_RESULT, "helper"),
             # a reported range consists of an accepted first index and an accepted last index, first <= last
             ("rng.some", "(not is_none(result)) implies ("
                          "(as_intseq(result)[0] == a0 or (ta and as_intseq(result)[0] == a1)) and "
                          "(as_intseq(result)[1] == b0 or (tb and as_intseq(result)[1] == b1)) and "
                          "as_intseq(result)[0] <= as_intseq(result)[1] and as_intseq(result)[1] >= 0)", "prop"),
             # 'empty' is reported only if (for some accepted reading) no sample lies inside
             ("rng.none", "is_none(result) implies (b0 == -1 or (tb and b1 == -1) or a0 > b0 or (ta and a1 > b0) "
                          "or (tb and a0 > b1) or (ta and tb and a1 > b1))", "prop")],
    prop_clauses=["rng.some", "rng.none"])

REG.contract(
    "np.arange", assumed=True, params=dict(n=Int), result=SeqOf(Int), note="np.vector",
    ensures=["len(result) == ite_(n > 0, n, 0)", "all(result[j] == j for j in range(len(result)))"])

# ---------------------------------------------------------------------------------------------------------
# RangeDimension: ticks are an ascending vector (repeats allowed)
# ---------------------------------------------------------------------------------------------------------
_RTICKS = None


@REG.specfunc()
def range_ticks(ex, p, dim):
    """ticks of a range dimension as stored / linked (defined by the ticks getter, verified under C05)"""
    from sidecar_a_common import obj
    f = z3.Function("spec_range_ticks", IntS, p.sigma["data"].sort(), p.sigma["link"].sort(), p.sigma["attr"].sort(),
                    z3.SeqSort(RealS))
    return VSeq(f(obj(ex, p, dim).t, p.sigma["data"], p.sigma["link"], p.sigma["attr"]), Real)


REG.contract(
    "nixio.dimensions.RangeDimension.ticks", assumed=True, props=[],
    params=dict(self=Obj("RangeDimension")), result=SeqOf(Real),
    ensures=["result == range_ticks(self)"],
    note="ticks getter (explicit ticks dataset, alias or DimensionLink): summary used by C07; see C05")

ASC = "ascending(T)"


@REG.specfunc()
def ascending(ex, p, T):
    """ticks in ascending order (repeats allowed), stated pairwise so that no induction is needed"""
    i, j = V.fresh("ai", IntS), V.fresh("aj", IntS)
    return VBool(z3.ForAll([i, j], z3.Implies(z3.And(0 <= i, i <= j, j < z3.Length(T.t)), T.t[i] <= T.t[j])))


@REG.specfunc()
def rd_holds(ex, p, T, i, pos, mode):
    """tick i satisfies the order relation of the mode w.r.t. pos"""
    names = V.ENUM_MEMBERS["IndexMode"]
    t = T.t[i.t]
    pt = to_real(pos)
    m = mode.t
    return VBool(z3.If(m == names.index("LessOrEqual"), t <= pt, z3.If(m == names.index("Less"), t < pt, t >= pt)))


REG.contract(
    "nixio.dimensions.RangeDimension.index_of", replay=dict(harness="c07_range"), props=["C07", "C08"],
    params=dict(self=Obj("RangeDimension"), position=Real, mode=Enum("IndexMode"), ticks=Opt(SeqOf(Real))),
    result=Int,
    let="T = ite_(is_none(ticks), range_ticks(self), as_realseq(ticks)); n = len(T)",
    requires=[ASC],
    # property: last tick <= p / last tick < p / first tick >= p; IndexError exactly when there is none
    raises={"IndexError": ("not any(rd_holds(T, i, position, mode) for i in range(n))", "prop")},
    ensures=[("rd.in", "0 <= result and result < n and rd_holds(T, result, position, mode)", "prop"),
             ("rd.last", "(mode != IndexMode.GreaterOrEqual) implies "
                         "all(not rd_holds(T, i, position, mode) for i in range(result + 1, n))", "prop"),
             ("rd.first", "(mode == IndexMode.GreaterOrEqual) implies "
                          "all(not rd_holds(T, i, position, mode) for i in range(0, result))", "prop")],
    prop_clauses=["rd.in", "rd.last", "rd.first", "raises-iff:IndexError", "raises-only:IndexError"])

REG.contract(
    "nixio.dimensions.RangeDimension.range_indices", replay=dict(harness="c07_range"), props=["C07", "C08"],
    params=dict(self=Obj("RangeDimension"), start_position=Real, end_position=Real, mode=Enum("SliceMode")),
    result=Dyn,
    let="T = range_ticks(self); n = len(T); em = ite_(mode == SliceMode.Exclusive, IndexMode.Less, IndexMode.LessOrEqual)",
    requires=[ASC, "start_position <= end_position"],
    ensures=[("rng.shape", RANGE_RESULT, "helper"),
             # exactly the ticks inside [start, end] (resp. [start, end) ): first and last index of them
             ("rng.some", "(not is_none(result)) implies (0 <= as_intseq(result)[0] and as_intseq(result)[0] <= as_intseq(result)[1] "
                          "and as_intseq(result)[1] < n "
                          "and all((as_intseq(result)[0] <= i and i <= as_intseq(result)[1]) == "
                          "(T[i] >= start_position and rd_holds(T, i, end_position, em)) for i in range(n)))", "prop"),
             ("rng.none", "is_none(result) implies "
                          "not any(T[i] >= start_position and rd_holds(T, i, end_position, em) for i in range(n))", "prop")],
    prop_clauses=["rng.some", "rng.none"])

REG.contract(
    "nixio.dimensions.RangeDimension.tick_at", replay=dict(harness="c07_range"), props=["C07"],
    params=dict(self=Obj("RangeDimension"), index=Int), result=Real,
    let="T = range_ticks(self); n = len(T)",
    raises={"IndexError": ("index < -n or index >= n", "prop")},
    ensures=[("tick", "result == T[ite_(index < 0, index + n, index)]", "prop")],
    prop_clauses=["tick", "raises-iff:IndexError", "raises-only:IndexError"])

REG.contract(
    "nixio.dimensions.RangeDimension.axis", replay=dict(harness="c07_range"), props=["C07"],
    params=dict(self=Obj("RangeDimension"), count=Int, start=Int), result=SeqOf(Real),
    let="T = range_ticks(self); n = len(T)",
    requires=["count >= 0", "start >= 0"],
    raises={"IndexError": ("start + count > n", "prop")},
    ensures=[("axis.len", "len(result) == count", "prop"),
             ("axis.val", "all(result[j] == T[start + j] for j in range(count))", "prop")],
    prop_clauses=["axis.len", "axis.val", "raises-iff:IndexError", "raises-only:IndexError"])


# ---------------------------------------------------------------------------------------------------------
# SetDimension: samples sit at the integers 0 .. n-1 (n = number of labels; no labels: all naturals)
# ---------------------------------------------------------------------------------------------------------
@REG.specfunc()
def set_labels(ex, p, dim):
    from sidecar_a_common import obj
    f = z3.Function("spec_set_labels", IntS, p.sigma["data"].sort(), p.sigma["link"].sort(), p.sigma["attr"].sort(),
                    z3.SeqSort(StrS))
    return VSeq(f(obj(ex, p, dim).t, p.sigma["data"], p.sigma["link"], p.sigma["attr"]), Str)


REG.contract(
    "nixio.dimensions.SetDimension.labels", assumed=True, props=[],
    params=dict(self=Obj("SetDimension")), result=SeqOf(Str), ensures=["result == set_labels(self)"],
    note="labels getter (explicit labels or DimensionLink): summary used by C07; see C05")


@REG.specfunc()
def set_exact(ex, p, pos, mode, n):
    """order-theoretic answer for samples at integers 0..n-1 (n == 0: unbounded); -1 = no such sample"""
    t = to_real(pos)
    fl = z3.ToInt(t)
    ce = z3.If(z3.ToReal(fl) == t, fl, fl + 1)
    nn = n.t
    top = nn - 1
    bounded = nn > 0
    leq = z3.If(fl < 0, -1, z3.If(z3.And(bounded, fl > top), top, fl))
    ls = ce - 1
    less = z3.If(ls < 0, -1, z3.If(z3.And(bounded, ls > top), top, ls))
    g = z3.If(ce > 0, ce, 0)
    geq = z3.If(z3.And(bounded, g > top), -1, g)
    names = V.ENUM_MEMBERS["IndexMode"]
    m = mode.t
    return VInt(z3.If(m == names.index("LessOrEqual"), leq, z3.If(m == names.index("Less"), less, geq)))


REG.contract(
    "nixio.dimensions.SetDimension.index_of", replay=dict(harness="c07_set"), props=["C07", "C08"],
    params=dict(self=Obj("SetDimension"), position=Real, mode=Enum("IndexMode"), dim_labels=Opt(SeqOf(Str))),
    result=Int,
    let="L = ite_(is_none(dim_labels), set_labels(self), as_strseq(dim_labels)); n = len(L); j = floor_(position); "
        "ok = set_exact(position, mode, n); okj = set_exact(j, mode, n); tol = np_isclose(position, j)",
    raises={"IndexError": ("ok == -1 or (tol and okj == -1)", "prop")},
    ensures=[("idx", "result == ok or (tol and result == okj)", "prop"),
             ("idx.nonneg", "result >= 0", "prop")],
    prop_clauses=["idx", "idx.nonneg", "raises-only:IndexError"])

REG.contract(
    "nixio.dimensions.SetDimension.range_indices", replay=dict(harness="c07_set"), props=["C07", "C08"],
    params=dict(self=Obj("SetDimension"), start_position=Real, end_position=Real, mode=Enum("SliceMode")),
    result=Dyn,
    requires=["start_position <= end_position"],
    let="n = len(set_labels(self)); js = floor_(start_position); je = floor_(end_position); "
        "em = ite_(mode == SliceMode.Exclusive, IndexMode.Less, IndexMode.LessOrEqual); "
        "a0 = set_exact(start_position, IndexMode.GreaterOrEqual, n); a1 = set_exact(js, IndexMode.GreaterOrEqual, n); "
        "ta = np_isclose(start_position, js); "
        "b0 = set_exact(end_position, em, n); b1 = set_exact(je, em, n); tb = np_isclose(end_position, je)",
    ensures=[("rng.shape", RANGE_RESULT, "helper"),
             ("rng.some", "(not is_none(result)) implies ("
                          "(as_intseq(result)[0] == a0 or (ta and as_intseq(result)[0] == a1)) and "
                          "(as_intseq(result)[1] == b0 or (tb and as_intseq(result)[1] == b1)) and "
                          "as_intseq(result)[0] <= as_intseq(result)[1] and as_intseq(result)[0] >= 0)", "prop"),
             ("rng.none", "is_none(result) implies (a0 == -1 or (ta and a1 == -1) or b0 == -1 or (tb and b1 == -1) "
                          "or a0 > b0 or (ta and a1 > b0) or (tb and a0 > b1) or (ta and tb and a1 > b1))", "prop")],
    prop_clauses=["rng.some", "rng.none"])


# ---------------------------------------------------------------------------------------------------------
# lemmas over the spec functions (pure SMT obligations)
# ---------------------------------------------------------------------------------------------------------
@REG.lemma("C07/lemma/scale", ["C07"])
def lemma_scale():
    """for s > 0 and q = (p - o)/s: sample i (at i*s + o) is <=, <, >= p exactly when i <=, <, >= q"""
    p_, o, s, q = z3.Reals("p o s q")
    i = z3.Int("i")
    hyp = [s > 0, q * s == p_ - o]
    c = z3.ToReal(i) * s + o
    return [("leq", hyp, (c <= p_) == (z3.ToReal(i) <= q)),
            ("less", hyp, (c < p_) == (z3.ToReal(i) < q)),
            ("geq", hyp, (c >= p_) == (z3.ToReal(i) >= q))]


@REG.lemma("C07/lemma/exact-is-order-theoretic", ["C07"])
def lemma_exact():
    """sd_exact(q, mode) is the max / min index satisfying the order relation among the naturals"""
    q = z3.Real("q")
    i = z3.Int("i")
    fl = z3.ToInt(q)
    ce = z3.If(z3.ToReal(fl) == q, fl, fl + 1)
    out = []
    # LEQ: floor(q) if >= 0: it is <= q and every larger natural is > q; none iff no natural <= q
    out.append(("leq.max", [fl >= 0, i >= 0], z3.And(z3.ToReal(fl) <= q, z3.Implies(z3.ToReal(i) <= q, i <= fl))))
    out.append(("leq.none", [fl < 0, i >= 0], z3.Not(z3.ToReal(i) <= q)))
    out.append(("less.max", [ce - 1 >= 0, i >= 0], z3.And(z3.ToReal(ce - 1) < q, z3.Implies(z3.ToReal(i) < q, i <= ce - 1))))
    out.append(("less.none", [ce - 1 < 0, i >= 0], z3.Not(z3.ToReal(i) < q)))
    g = z3.If(ce > 0, ce, 0)
    out.append(("geq.min", [i >= 0], z3.And(z3.ToReal(g) >= q, g >= 0, z3.Implies(z3.ToReal(i) >= q, i >= g))))
    return out


@REG.lemma("C07/lemma/roundtrip", ["C07"])
def lemma_roundtrip():
    """index_of(position_at(i)) = i for LEQ / GEQ (q = i exactly); Less gives i - 1 (or none for i = 0)"""
    i = z3.Int("i")
    q = z3.ToReal(i)
    fl = z3.ToInt(q)
    ce = z3.If(z3.ToReal(fl) == q, fl, fl + 1)
    return [("leq", [i >= 0], z3.If(fl >= 0, fl, -1) == i),
            ("geq", [i >= 0], z3.If(ce > 0, ce, 0) == i),
            ("less", [i >= 1], z3.If(ce - 1 >= 0, ce - 1, -1) == i - 1)]


@REG.lemma("C07/lemma/range-covers-exactly", ["C07"])
def lemma_range():
    """for qs <= qe: the naturals i with a <= i <= b (a = GEQ(qs), b = LEQ(qe) resp. LESS(qe)) are exactly
    those with qs <= i <= qe (resp. < qe); the range is empty iff b = none or a > b"""
    qs, qe = z3.Reals("qs qe")
    i = z3.Int("i")

    def fl(x):
        return z3.ToInt(x)

    def ce(x):
        return z3.If(z3.ToReal(fl(x)) == x, fl(x), fl(x) + 1)
    a = z3.If(ce(qs) > 0, ce(qs), 0)
    b_incl = fl(qe)
    b_excl = ce(qe) - 1
    ir = z3.ToReal(i)
    return [("inclusive", [qs <= qe, i >= 0], z3.And(a <= i, i <= b_incl) == z3.And(qs <= ir, ir <= qe)),
            ("exclusive", [qs <= qe, i >= 0], z3.And(a <= i, i <= b_excl) == z3.And(qs <= ir, ir < qe))]
