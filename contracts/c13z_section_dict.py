"""C10 - a section's dict-style protocol (nixio/section.py: __contains__, __len__) over the abstract store.

The lazily created `props` / `sections` containers (Section.props, Section.sections, Container.__init__) are inlined, so the
clauses below are about the two backend groups `properties` and `sections` of the section's HDF5 group - the things a reopened
file shows - and not about any cached Python object.
"""
import z3
from pyvc.vals import *          # noqa: F401,F403
from pyvc import vals as V

REG = globals().get("REG")

from sidecar_c03_container import idx_of_id          # noqa: E402
from sidecar_c11_file import _UUIDTEXT               # noqa: E402


@REG.specfunc()
def key_in_group(ex, p, g, key):
    """a text key denotes a member of group g iff it is the name of a member or (being an id text) the id of one"""
    k = idx_of_id(ex, p, g, key)
    return VBool(z3.And(g.t != 0, z3.Or(z3.And(_UUIDTEXT(key.t), k.t >= 0), p.sigma["link"][g.t][key.t] != 0)))


REG.inline("nixio.section.Section.props", "nixio.section.Section.sections")

PG = "link(obj(self), 'properties')"
SG = "link(obj(self), 'sections')"
# domain: a handle whose lazily created containers are not cached yet, on a section that has both of its list groups
SEC_DOMAIN = ["is_none(field(self, '_properties'))", "is_none(field(self, '_sections'))", "obj(self) != 0",
              "%s != 0 and %s < freshid() and okind(%s) == 1" % (PG, PG, PG),
              "%s != 0 and %s < freshid() and okind(%s) == 1" % (SG, SG, SG),
              "field(field(self, '_h5group'), 'pgid') != obj(self)"]
SEC_MODS = ["heap._properties@self", "heap._sections@self", "heap._backend@new", "heap._itemclass@new", "heap._name@new",
            "heap._file@new", "heap._parent@new"]

REG.contract(
    "nixio.section.Section.__contains__", props=["C10"],
    params=dict(self=Obj("Section"), key=Str), result=Bool,
    requires=SEC_DOMAIN, modifies=SEC_MODS,
    # `key in section` is true exactly for the names / ids of its properties and of its child sections
    ensures=[("in.dict", "result == (key_in_group(%s, key) or key_in_group(%s, key))" % (PG, SG), "prop"),
             ("in.pure", "same(sigma('link'), old(sigma('link'))) and same(sigma('ord'), old(sigma('ord'))) and "
                         "same(sigma('attr'), old(sigma('attr')))", "prop")],
    prop_clauses=["in.dict", "in.pure"])

REG.contract(
    "nixio.section.Section.__len__", props=["C10"],
    params=dict(self=Obj("Section")), result=Int,
    requires=SEC_DOMAIN, modifies=SEC_MODS,
    # len(section) counts its properties (the documented dict view: one entry per property)
    ensures=[("len.dict", "result == len(order(%s))" % PG, "prop"),
             ("len.pure", "same(sigma('link'), old(sigma('link'))) and same(sigma('ord'), old(sigma('ord')))", "prop")],
    prop_clauses=["len.dict", "len.pure"])

# (del section[key] stays with the bounded battery C10/bounded/c10: the cached container is a dynamically typed field and
#  `del` on it is outside the executor's subset)

REG.contract(
    "nixio.section.Section.__getitem__", props=["C10"],
    params=dict(self=Obj("Section"), key=Str), result=Dyn,
    requires=SEC_DOMAIN + ["not key_in_group(%s, key)" % PG], modifies=SEC_MODS + ["heap._h5group@new"],
    raises={"KeyError": ("not key_in_group(%s, key)" % SG, "prop")},
    # a key that names no property but a child section yields that child section
    ensures=[("get.section", "link(%s, key) != 0 implies target_obj(result) == link(%s, key)" % (SG, SG), "prop")],
    prop_clauses=["get.section", "raises-iff:KeyError", "raises-only:KeyError"])

# (the property branch of section[key] - the values of the property, a single value unwrapped - stays with the bounded battery:
#  the member handle's class is a run-time value of the container, so `.values` on it is outside the executor's subset)
