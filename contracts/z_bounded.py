"""BOUNDED stand-ins for the functions the contracts do not reach (labelled bounded; never counted as proved).

Each entry runs replay/bounded.py <battery> on the REAL code of the tree under test (under /venv/bin/python) over a
stated finite scenario space and compares with an oracle written from the property statement. A counterexample is a
concrete failing input on the real code (reported as a VIOLATION with that input); passing proves nothing beyond
the bound.
"""
import json
import os
import subprocess

REG = globals().get("REG")
HERE = os.path.dirname(os.path.abspath(__file__))
SCRIPT = os.path.join(os.path.dirname(HERE), "replay", "bounded.py")

TABLE = [
    # (battery, properties, functions it stands in for)
    ("c02", ["C02"], "close/reopen of a file with every entity kind; two-handle histories (H5Group handle caching)"),
    ("c02live", ["C02"], "state kept on Python objects anywhere in the library (caches of extents, shapes, column names, ids, parents, "
                         "bound HDF5 groups): every object fetched and fully read BEFORE a change made through other handles is "
                         "compared with a fresh one after each of 23 changes, finally with the reopened file"),
    ("c03", ["C03"], "creation paths (create_new, id assignment), H5Group lookup primitives and caches: create / lookup / delete / "
                     "re-create histories on one live container object"),
    ("c04", ["C04"], "the whole delete path (H5Group.delete_all traversal, H5Group.delete and its clean-up): the rest of the file "
                     "after a delete, compared by a canonical walk"),
    ("c05", ["C05"], "Feature.data, SourceLinkContainer.append, DimensionLink (unit / label forwarding, frame columns), re-linking"),
    ("c07", ["C07"], "SampledDimension.axis (numpy arange / broadcasting), numpy isclose / floor / searchsorted behind the verified "
                     "conversions: axes, round trips and index ranges against the order-theoretic definition on concrete descriptors"),
    ("c08", ["C08"], "Tag.tagged_data, MultiTag._calc_data_slices_mtag / tagged_data, feature_data dispatch and stop-rule plumbing: "
                     "brute-force scan of sample coordinates"),
    ("c12", ["C12"], "every refusing call, including the creating functions after their refusal point (roll-backs)"),
    ("c16", ["C16", "C12"], "create_data_frame schema derivation, append_rows / append_column, cell-level fidelity of all writers / readers"),
    ("c20", ["C20"], "the HDF5-level deep copy (H5Group.copy: H5Ocopy + id regeneration) behind create_block / create_data_array / "
                     "create_tag / ... (copy_from=), copy_section and create_property(copy_from=): content, internal links, id policy, "
                     "independence"),
    ("c17", ["C17"], "H5Fflush / the OS page cache (the assumption behind the File.flush / File.close contracts): writer processes killed "
                     "with SIGKILL right after flush() / close() returned"),
    ("c19", ["C19"], "the setters not under contract (feature link type / data, append_sampled_dimension, "
                     "append_range_dimension_using_self, group / source / section attributes through Entity) and `no other entity's "
                     "timestamps` across the whole file; strftime / strptime behind the text round trip"),
    ("c14", ["C14"], "check_data_array, check_tag, check_multi_tag, check_feature, check_section and the check_file traversal (which "
                     "object each report is filed under): single and pairwise injections into a well-formed file"),
    ("c18", ["C18"], "the conversion closures of nixio/cmd/upgrade.py (raw h5py inside `with` blocks: update_props, update_alias_dims, "
                     "add_id, update_ver) and file_upgrade / process_tasks: content, per-value extras, version last, idempotence, "
                     "re-run after an interruption at every task boundary and between property conversions"),
    ("c01", ["C01", "C06", "C15"], "create_data_array (shape / element type resolution), DataSet.__getitem__ / __setitem__ / get_slice plumbing, "
                     "h5py selections, numpy conversion and polyval behind the calibrated reader: exact round trip, NumPy index "
                     "semantics on arrays and views, calibration on every read path and never on the stored values"),
    ("c10", ["C10"], "Section.__getitem__ / __setitem__ / __delitem__ / __iter__ / items (__contains__ / __len__ are under contract too), Property.create_new and "
                     "the values getter (summaries in the contracts), the h5py dataset behind a property"),
    ("c11", ["C11"], "File.__init__ (order of header check and first write), HDF5's enforcement of read-only / truncation: header "
                     "variants written with raw h5py, every mutating call on a read-only file"),
    ("c13", ["C13"], "Source.parent_source / parent_block, Section.parent, Section.referring_* (container iteration with object "
                     "construction per element is outside the executor's subset)"),
]


def _mk(battery):
    def fn(repo_dir):
        tier = os.environ.get("PYVC_TIER", "quick")
        try:
            r = subprocess.run(["/venv/bin/python", SCRIPT, battery, repo_dir, tier], capture_output=True, text=True, cwd="/tmp",
                               env=dict(os.environ, PYTHONPATH=repo_dir), timeout=1500)
        except subprocess.TimeoutExpired:
            return dict(status="undecided", message="bounded battery %s exceeded its time limit" % battery)
        line = (r.stdout.strip().splitlines() or [""])[-1]
        try:
            d = json.loads(line)
        except Exception:
            # the battery itself crashed on this tree: the real code raised where the scenario script does not expect it
            return dict(status="ok", bound="battery aborted", evaluations=1,
                        violations=[dict(input="battery %s" % battery, what="the scenario battery aborted with an unexpected "
                                         "exception on the real code: " + (r.stderr.strip().splitlines() or ["?"])[-1][:300],
                                         traceback=r.stderr[-1500:])])
        if "error" in d:
            return dict(status="undecided", message=d["error"])
        out = dict(status="ok", bound=d["bound"], evaluations=d["evaluations"],
                   violations=[dict(input=v.get("input"), what=v.get("what")) for v in d["violations"]])
        for kid, samples in (d.get("known") or {}).items():
            # inputs that show a defect listed in known_findings.json (report.py prints KNOWN-FINDING for a listed id and turns an
            # unlisted one into a violation)
            out["known_class"] = dict(id=kid, count=len(samples), samples=samples[:3])
        return out
    return fn


for _b, _props, _what in TABLE:
    REG.bounded_check("%s/bounded/%s" % (_props[0], _b), _props)(_mk(_b))
