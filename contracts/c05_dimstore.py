"""Dimension descriptors as stored objects: creation, accessors, links (properties C02, C05, C19, C12)."""
import z3
from pyvc.vals import *          # noqa: F401,F403
from pyvc import vals as V
from sidecar_a_common import VOpaqueTerm

REG = globals().get("REG")

REG.fields("Container", _backend=Obj("H5Group"), _itemclass=Dyn, _file=Obj("File"), _parent=Dyn, _name=Str,
           _itemstore=Dyn)
REG.inline("nixio.dimensions.Dimension.__init__", "nixio.dimensions.SampledDimension.__init__",
           "nixio.dimensions.RangeDimension.__init__", "nixio.dimensions.SetDimension.__init__",
           "nixio.dimensions.Dimension._set_dimension_type", "nixio.container.Container.__init__",
           "nixio.container.Container.__len__", "nixio.data_array.DataArray.dimensions",
           "nixio.dimensions.Dimension.index", "nixio.dimensions.Dimension.has_link")
REG.invariants["Dimension"] = ["field(field(self, '_h5group'), 'pgid') != obj(self)"]


def _oldp(ex, p):
    se = ex.lookup(p, "__specenv__")
    return se.old if se.old is not None else se.p


@REG.specfunc()
def attrs_of(ex, p, o):
    """all attributes of object o (as one comparable map)"""
    return VOpaqueTerm(p.sigma["attr"][o.t])


@REG.specfunc()
def attrs_kept_except(ex, p, *xs):
    """every object that existed before the call and is none of xs has exactly its old attributes"""
    old = _oldp(ex, p)
    o = V.fresh("ko", IntS)
    ex_ = [o != x.t for x in xs]
    return VBool(z3.ForAll([o], z3.Implies(z3.And(o < old.sigma["fresh"], *ex_),
                                           p.sigma["attr"][o] == old.sigma["attr"][o])))


@REG.specfunc()
def amap_set(ex, p, m, k, v):
    return VOpaqueTerm(z3.Store(m.t, k.t, box(ex.deref(p, v))))


@REG.specfunc()
def dim_slot(ex, p, da, index):
    """the object currently linked as descriptor `index` of the array (-1: none)"""
    from sidecar_a_common import obj
    o = obj(ex, p, da).t
    d = p.sigma["link"][o][z3.StringVal("dimensions")]
    idx = str_(ex, p, index).t
    return VInt(z3.If(d == 0, z3.IntVal(-1), z3.If(p.sigma["link"][d][idx] == 0, z3.IntVal(-1), p.sigma["link"][d][idx])))


# store well-formedness facts needed here (instance-wise): objects are older than the allocation counter, the
# array is not its own child / descriptor
DA_OK = ["obj(data_array) != 0", "field(field(data_array, '_h5group'), 'pgid') != obj(data_array)"]

NEWDIM_LET = ("da = obj(data_array)")


@REG.specfunc()
def str_(ex, p, i):
    return VStr(z3.If(i.t >= 0, z3.IntToStr(i.t), z3.Concat(z3.StringVal("-"), z3.IntToStr(-i.t))))


MODS = ["attr", "link", "ord", "kind", "fresh", "heap._h5group@new", "heap.dim_index@new", "heap._parent@new",
        "heap._file@new"]

REG.contract(
    "nixio.dimensions.SampledDimension.create_new", props=["C02", "C19"],
    params=dict(cls=Cls("SampledDimension"), data_array=Obj("DataArray"), index=Int, sample=Dyn),
    result=Obj("SampledDimension"),
    requires=DA_OK + ["index >= 1"], let=NEWDIM_LET, modifies=MODS, note="fresh_result",
    raises={"InvalidAttrType": ("not is_none(sample) and not (is_int(sample) or is_real(sample) or is_bool(sample))", "helper")},
    raise_dirty=True,
    ensures=[("new.kind", "dec(attr(obj(result), 'dimension_type')) == 'sample'", "prop"),
             ("new.si", "attr(obj(result), 'sampling_interval') == sample", "prop"),
             ("new.where", "obj(result) != 0 and obj(result) == link(link(da, 'dimensions'), str_(index))", "prop"),
             # C19: creating a descriptor touches no attribute of the array or of any other existing object
             ("new.frame", "attrs_kept_except(old(dim_slot(data_array, index)))", "prop")],
    prop_clauses=["new.kind", "new.si", "new.where", "new.frame"])

DIM_OK = ["obj(self) != 0"]
IS_NUM = "(is_int({0}) or is_real({0}) or is_bool({0}))"


def dim_setter(qn, cls, key, arg, typ):
    REG.contract(
        qn, props=["C02", "C12", "C19"], params={"self": Obj(cls), arg: Dyn}, requires=DIM_OK,
        modifies=["attr"],
        raises={"InvalidAttrType": ("not is_none(%s) and not %s" % (arg, typ), "prop")},
        # C02: stored under the getter's key; C19: a descriptor attribute touches no timestamp and no other object
        ensures=[("set", "same(sigma('attr'), attr_set(old(sigma('attr')), obj(self), '%s', %s))" % (key, arg), "prop")],
        prop_clauses=["set", "raises-iff:InvalidAttrType", "raises-only:InvalidAttrType"])


def dim_getter(qn, cls, key):
    REG.contract(qn, props=["C02"], params=dict(self=Obj(cls)), result=Dyn,
                 ensures=[("get", "result == ite_(obj(self) == 0, boxed(None), dec(attr(obj(self), '%s')))" % key, "prop")],
                 prop_clauses=["get"])


dim_setter("nixio.dimensions.SampledDimension.sampling_interval.setter", "SampledDimension", "sampling_interval",
           "interval", IS_NUM.format("interval"))
dim_setter("nixio.dimensions.SampledDimension.offset.setter", "SampledDimension", "offset", "offset", IS_NUM.format("offset"))
dim_setter("nixio.dimensions.SampledDimension.unit.setter", "SampledDimension", "unit", "unit", "is_str(unit)")
dim_setter("nixio.dimensions.Dimension.label.setter", "Dimension", "label", "label", "is_str(label)")
dim_getter("nixio.dimensions.SampledDimension.unit", "SampledDimension", "unit")
dim_getter("nixio.dimensions.Dimension.label", "Dimension", "label")

SELF_OK = [x.replace("data_array", "self").replace(", index)", ", nextidx(self))") for x in DA_OK] + \
    ["is_none(field(self, '_dimensions'))"]      # a handle whose lazily created container is not cached yet


@REG.specfunc()
def nextidx(ex, p, da):
    """index the next appended descriptor gets: number of links in the 'dimensions' group + 1"""
    from sidecar_a_common import obj
    o = obj(ex, p, da).t
    d = p.sigma["link"][o][z3.StringVal("dimensions")]
    return VInt(z3.If(d == 0, 0, z3.Length(p.sigma["ord"][d])) + 1)


AUTO_S = "field(field(self, '_file'), '_auto_update_timestamps')"
# C19: adding a dimension sets the ARRAY's update time iff automatic timestamps are on - and touches nothing else of it
APPEND_UPD = ("same(attrs_of(o), ite_term(%s, amap_set(old(attrs_of(o)), 'updated_at', "
              "ts_text(old(clock()))), old(attrs_of(o))))" % AUTO_S)
APPEND_FRAME = "attrs_kept_except(o, old(dim_slot(self, nextidx(self))))"
APPEND_MODS = MODS + ["clock", "heap._dimensions@self", "heap._backend@new", "heap._itemclass@new", "heap._name@new",
                      "heap._itemstore@new"]

REG.contract(
    "nixio.data_array.DataArray.append_sampled_dimension", props=["C19", "C02"], wip=True,
    params=dict(self=Obj("DataArray"), sampling_interval=Dyn, label=Dyn, unit=Dyn, offset=Dyn),
    result=Obj("SampledDimension"),
    requires=SELF_OK + ["is_none(label) or is_str(label)", "is_none(unit) or is_str(unit)",
                        "is_none(offset) or is_int(offset) or is_real(offset)",
                        "is_int(sampling_interval) or is_real(sampling_interval)"],
    modifies=APPEND_MODS, let="o = obj(self)",
    ensures=[("upd", APPEND_UPD, "prop"), ("frame", APPEND_FRAME, "prop"),
             ("dim", "attr(obj(result), 'sampling_interval') == sampling_interval", "prop")],
    prop_clauses=["upd", "frame", "dim"])
