"""C16 - data frames: the addressing / refusal logic of nixio/data_frame.py (prefix verification).

What a data frame stores and returns cell by cell is NumPy structured-array and h5py compound-type behaviour
(assumed). nixio contributes the decisions which call is refused - BEFORE anything is written - and which rows /
columns are addressed. Units below are verified in *prefix mode*: the function is executed symbolically up to its
first statement outside the modelled subset (raw h5py / structured-array manipulation); proved for all inputs:
every call for which a refusal condition holds is refused before that point, with the stated error, and nothing has
been written when it is (automatic `atomic:` obligations); refusals happen only under the stated conditions.
"""
import z3
from pyvc.vals import *          # noqa: F401,F403
from pyvc import vals as V

REG = globals().get("REG")

DF_OK = ["obj(self) != 0", "dataset_of(self) != 0", "len(dshape(dataset_of(self))) == 1", "dshape(dataset_of(self))[0] >= 0"]
NROWS = "dshape(dataset_of(self))[0]"
SEQLEN = "ite_(is_valseq({0}), len(as_valseq({0})), ite_(is_intseq({0}), len(as_intseq({0})), ite_(is_realseq({0}), " \
         "len(as_realseq({0})), len(as_strseq({0})))))"
IS_SEQ = "(is_valseq({0}) or is_intseq({0}) or is_realseq({0}) or is_strseq({0}))"

REG.contract(
    "nixio.data_frame.DataFrame.write_column", props=["C16", "C12"], prefix=True,
    params=dict(self=Obj("DataFrame"), column=SeqOf(Dyn), index=Dyn, name=Dyn),
    requires=DF_OK + ["is_none(index) or is_int(index)", "is_none(name) or is_str(name)"],
    modifies=["data"],
    # a column of the wrong length is refused; a column may be addressed by ANY legal index (0 included) or by name
    raises={"ValueError": ("len(column) != %s or (is_none(index) and not truthy(name))" % NROWS, "prop")},
    prop_clauses=["raises-only:ValueError", "refused-before-cut:ValueError"])

REG.contract(
    "nixio.data_frame.DataFrame.append_column", props=["C16", "C12"], prefix=True,
    params=dict(self=Obj("DataFrame"), column=SeqOf(Dyn), name=Dyn, datatype=Dyn),
    requires=DF_OK,
    modifies=["data", "link", "ord", "dshape", "dtype", "kind", "fresh"],
    raises={"ValueError": ("len(column) != {0} or (is_none(datatype) and len(column) > 0 and not supported(column[0]))".format(NROWS),
                           "prop"),
            "IndexError": ("is_none(datatype) and len(column) == 0 and %s == 0" % NROWS, "helper")},
    prop_clauses=["raises-only:ValueError", "refused-before-cut:ValueError"])

ROWS_NESTED = ("(is_valseq(rows[0]) or is_intseq(rows[0]) or is_realseq(rows[0]) or is_strseq(rows[0]) or is_sliceseq(rows[0]) "
               "or is_str(rows[0]) or is_bytes(rows[0]))")
REG.contract(
    "nixio.data_frame.DataFrame.write_rows", props=["C16", "C12"], prefix=True,
    params=dict(self=Obj("DataFrame"), rows=SeqOf(Dyn), index=SeqOf(Int)),
    requires=DF_OK + ["len(rows) > 0", "not is_opaque(rows[0])"],
    modifies=["data"],
    let="nested = %s; nrows = ite_(nested, len(rows), 1)" % ROWS_NESTED,
    raises={"TypeError": ("(not nested) and len(index) != 1", "prop"),
            "IndexError": ("(nested or len(index) == 1) and nrows != len(index)", "prop"),
            "ValueError": ("nested and nrows == len(index) and len(index) == 0", "helper"),
            # a row index beyond the last row is refused
            "OutOfBounds": ("(nested or len(index) == 1) and nrows == len(index) and len(index) > 0 and "
                            "any(index[j] > %s - 1 for j in range(len(index)))" % NROWS, "prop")},
    # TypeError may also come from tuple() of a row that is not iterable after all: only the completeness direction is claimed
    unexpected_ok=["TypeError"],
    prop_clauses=["raises-only:IndexError", "raises-only:OutOfBounds",
                  "refused-before-cut:TypeError", "refused-before-cut:IndexError", "refused-before-cut:OutOfBounds"])

REG.contract(
    "nixio.data_frame.DataFrame.write_cell", props=["C16", "C12"], prefix=True,
    params=dict(self=Obj("DataFrame"), cell=Dyn, position=Dyn, col_name=Dyn, row_idx=Dyn),
    requires=DF_OK + ["is_none(position) or %s" % IS_SEQ.format("position")], modifies=["data"],
    raises={"ValueError": ("((not is_none(position)) and %s != 2) or (is_none(position) and (is_none(col_name) or "
                           "is_none(row_idx)))" % SEQLEN.format("position"), "prop")},
    prop_clauses=["raises-only:ValueError", "refused-before-cut:ValueError"])

REG.contract(
    "nixio.data_frame.DataFrame.read_cell", props=["C16"], prefix=True,
    params=dict(self=Obj("DataFrame"), position=Dyn, col_name=Dyn, row_idx=Dyn),
    requires=DF_OK + ["is_none(position) or %s" % IS_SEQ.format("position")],
    raises={"ValueError": ("((not is_none(position)) and %s != 2) or (is_none(position) and (is_none(col_name) or "
                           "is_none(row_idx)))" % SEQLEN.format("position"), "prop")},
    prop_clauses=["raises-only:ValueError", "refused-before-cut:ValueError"])

# ---- write_rows past its refusal prefix: ONE block write (what h5py refuses it refuses as a whole: no earlier row of a refused call is
#      written - C12) that addresses exactly the row indices given, in the order given (C16) ---------------------------------------------
REG.contract(
    "nixio.data_frame.DataFrame.write_rows#addr", props=["C16", "C12"],
    params=dict(self=Obj("DataFrame"), rows=SeqOf(SeqOf(Dyn)), index=SeqOf(Int)),
    requires=DF_OK + ["len(rows) > 0", "len(rows) == len(index)", "len(index) > 1",
                      "all(index[j] <= %s - 1 for j in range(len(index)))" % NROWS],
    modifies=["data"], loops={0: dict(var="k", cells=dict(cr_list=Dyn), inv=["len(cr_list) == k"])},
    ensures=[("rows.addr", "n_calls('_write_data') == 1 and seq_eq(as_intseq(arg_of('_write_data', 'slc')), index)", "prop")],
    # (whether rows[0] counts as nested is an uninterpreted isinstance test here: a TypeError exit stays possible and is not claimed)
    unexpected_ok=["TypeError"],
    prop_clauses=["rows.addr"])
