"""C13 - tree searches, parents and referring lists (nixio/util/find.py, section.py, source.py, block.py, file.py).

Proved here (unbounded): the public find_* methods hand the search exactly what the caller asked for - the start node,
the caller's filter, and the depth limit as given (None meaning unlimited, 0 meaning 0) - and return the search result
unchanged; a freshly constructed Section handle carries no cached parent (the parent is a fact of the tree, never of
the access path that produced the handle).
BOUNDED stand-in (never counted as proved): the breadth-first search itself (order, completeness, depth limit, filter)
is run - the real function - on every ordered forest with up to 6 nodes (quick: 5), every limit and a family of filters,
and compared with an independent specification.
"""
import os
import z3
from pyvc.vals import *          # noqa: F401,F403
from pyvc import vals as V

REG = globals().get("REG")

FILTR = Func("filtr", [Dyn], Bool)

for _kind in ("sections", "sources"):
    REG.contract(
        "nixio.util.find._find_%s" % _kind, assumed=True, props=[],
        params={"with_%s" % _kind: Dyn, "filtr": FILTR, "limit": Int}, result=SeqOf(Obj("Entity")),
        note="breadth-first search (summary): exact order / completeness / depth semantics are covered only by the bounded "
             "stand-in C13/bounded/bfs, see there")

LIMIT_OK = "is_none(limit) or is_int(limit)"
LIM = "ite_(is_none(limit), boxed(MAXSIZE), limit)"
REG.spec_consts = getattr(REG, "spec_consts", {})
REG.spec_consts["MAXSIZE"] = VInt(2 ** 63 - 1)


def finder(qn, cls, kind):
    callee = "_find_%s" % kind
    REG.contract(
        qn, props=["C13"], params=dict(self=Obj(cls), filtr=FILTR, limit=Dyn), result=SeqOf(Obj("Entity")),
        requires=[LIMIT_OK],
        ensures=[("find.start", "arg_of('%s', 'with_%s') == boxed(self)" % (callee, kind), "prop"),
                 # the depth limit reaches the search as given: None = unlimited, 0 = only the start level
                 ("find.limit", "boxed(arg_of('%s', 'limit')) == %s" % (callee, LIM), "prop"),
                 ("find.once", "n_calls('%s') == 1" % callee, "prop"),
                 ("find.result", "result == result_of('%s')" % callee, "prop")],
        prop_clauses=["find.start", "find.limit", "find.once", "find.result"])


finder("nixio.section.Section.find_sections", "Section", "sections")
finder("nixio.source.Source.find_sources", "Source", "sources")
finder("nixio.block.Block.find_sources", "Block", "sources")
finder("nixio.file.File.find_sections", "File", "sections")

# ---- a new handle has no cached parent -------------------------------------------------------------------------------------
REG.fields("Section", _sec_parent=Dyn, _sections=Dyn, _properties=Dyn)
REG.inline("nixio.entity.Entity.__init__", "nixio.util.util.check_entity_id")
REG.contract(
    "nixio.section.Section.__init__", props=["C13", "C02"],
    params=dict(self=Obj("Section"), nixfile=Obj("File"), nixparent=Dyn, h5group=Obj("H5Group")),
    modifies=["heap._sec_parent@self", "heap._sections@self", "heap._properties@self", "heap._h5group@self",
              "heap._parent@self", "heap._file@self"],
    raises={"ValueError": ("not uuid_text(ite_(gid(h5group) == 0, boxed(None), dec(attr(gid(h5group), 'entity_id'))))", "helper")},
    ensures=[("init.noparent", "is_none(field(self, '_sec_parent'))", "prop"),
             ("init.handle", "field(self, '_h5group') == h5group and field(self, '_file') == nixfile", "helper")],
    prop_clauses=["init.noparent"])


@REG.bounded_check("C13/bounded/bfs", ["C13", "C04"])
def bounded_bfs(repo_dir):
    """BOUNDED stand-in (never counted as proved): the real _find_sections / _find_sources on every ordered forest
    with <= N nodes (N = 5 quick, 6 thorough), start = container or node, every limit 0..N+1 and None-equivalent,
    3 filters; compared with an independent level-by-level specification (order, completeness, depth, filter)."""
    import json
    import subprocess
    n = 5 if os.environ.get("PYVC_TIER", "quick") == "quick" else 6
    code = r'''
import json, sys, itertools
import nixio
from nixio.util import find as finders
from sys import maxsize

class FakeSec(nixio.Section):
    def __init__(self, ident): self.ident = ident; self.kids = []
    sections = property(lambda self: list(self.kids))
    name = property(lambda self: "n%%d" %% (self.ident %% 2))       # namesakes in different parents
    id = property(lambda self: "id-%%d" %% self.ident)
    type = property(lambda self: "t")
class FakeSrc(nixio.source.Source):
    def __init__(self, ident): self.ident = ident; self.kids = []
    sources = property(lambda self: list(self.kids))
    name = property(lambda self: "n%%d" %% (self.ident %% 2))
    id = property(lambda self: "id-%%d" %% self.ident)
    type = property(lambda self: "t")
class Top:
    def __init__(self, kids): self.kids = kids
    sections = property(lambda self: list(self.kids))
    sources = property(lambda self: list(self.kids))

def forests(n):
    """all ordered forests with exactly n nodes, as nested lists"""
    if n == 0:
        yield []
        return
    for k in range(1, n + 1):           # first tree has k nodes
        for sub in forests(k - 1):      # its children forest
            for rest in forests(n - k):
                yield [sub] + rest

def build(forest, cls, counter):
    out = []
    for sub in forest:
        node = cls(counter[0]); counter[0] += 1
        out.append(node)
    # breadth numbering is irrelevant; build children after siblings to keep idents unique
    for node, sub in zip(out, forest):
        node.kids = build(sub, cls, counter)
    return out

def spec(starts, start_level, filtr, limit):
    """independent specification: level by level, children in order, nodes of level L have depth L"""
    res, level_nodes, lvl = [], list(starts), start_level
    while level_nodes:
        nxt = []
        for nd in level_nodes:
            if filtr(nd): res.append(nd.ident)
            if lvl + 1 <= limit: nxt.extend(nd.kids)
        level_nodes, lvl = nxt, lvl + 1
    return res

N = %d
filters = [lambda e: True, lambda e: e.ident %% 2 == 0, lambda e: len(e.kids) == 0]
tot = 0; bad = []
for cls, fn, attr in ((FakeSec, finders._find_sections, "sections"), (FakeSrc, finders._find_sources, "sources")):
    for n in range(0, N + 1):
        for f in forests(n):
            roots = build(f, cls, [0])
            for limit in list(range(0, n + 2)) + [maxsize]:
                for fi, flt in enumerate(filters):
                    tot += 1
                    got = [e.ident for e in fn(Top(roots), flt, limit)]
                    exp = spec(roots, 1, flt, limit)
                    if got != exp and len(bad) < 5:
                        bad.append(dict(kind=attr, forest=f, start="container", limit=limit, filter=fi, got=got, expected=exp))
                    if roots:
                        tot += 1
                        got = [e.ident for e in fn(roots[0], flt, limit)]
                        exp = spec([roots[0]], 0, flt, limit)
                        if got != exp and len(bad) < 5:
                            bad.append(dict(kind=attr, forest=f, start="node", limit=limit, filter=fi, got=got, expected=exp))
print(json.dumps(dict(total=tot, bad=bad)))
''' % n
    r = subprocess.run(["/venv/bin/python", "-c", code], capture_output=True, text=True,
                       env=dict(os.environ, PYTHONPATH=repo_dir), timeout=900)
    if r.returncode != 0:
        return dict(status="undecided", message=r.stderr[-800:])
    d = json.loads(r.stdout.strip().splitlines()[-1])
    return dict(status="ok", bound="all ordered forests with <= %d nodes x limits 0..n+1 and maxsize x 3 filters x {container, node} start" % n,
                evaluations=d["total"],
                violations=[dict(input=b, what="breadth-first result differs from the level-by-level specification") for b in d["bad"]])
