"""C18 - format upgrade: task scheduling (nixio/cmd/upgrade.py collect_tasks).

Proved: an up-to-date file (version >= library version, lexicographically) gets an EMPTY task list (so file_upgrade
writes nothing); otherwise the list ends with the version step, each conversion step is scheduled exactly when its own
detector reports work - independently of the other detectors - and nothing else is scheduled. The detectors and the
conversion closures themselves (raw h5py inside `with h5py.File(...)`) are outside the modelled subset: assumed
summaries; the resumability conclusion is argued in DESIGN.md over these clauses, not mechanised.
"""
import z3
from pyvc.vals import *          # noqa: F401,F403
from pyvc import vals as V

REG = globals().get("REG")

_FVER = z3.Function("h5_file_version", StrS, IntS, z3.SeqSort(IntS))      # (file name, state counter) -> version triple


@REG.specfunc()
def file_version(ex, p, fname):
    return VSeq(_FVER(fname.t, p.sigma["fresh"]), Int)


TASK = "is_none(result) or (is_opaque(result) and truthy(result))"
REG.contract("nixio.cmd.upgrade.get_file_version", assumed=True, params=dict(fname=Str), result=SeqOf(Int),
             ensures=["result == file_version(fname)", "len(result) == 3"], note="reads the header attribute `version`")
for _fn in ("add_file_id", "update_property_values", "update_alias_range_dimension"):
    REG.contract("nixio.cmd.upgrade.%s" % _fn, assumed=True, params=dict(fname=Str), result=Dyn,
                 ensures=[TASK], note="detector: None when nothing is to be converted, otherwise the conversion closure "
                                      "(summary; body uses raw h5py inside a with block)")
REG.contract("nixio.cmd.upgrade.update_format_version", assumed=True, params=dict(fname=Str), result=Dyn,
             ensures=["is_opaque(result) and truthy(result)"], note="the closure that writes the library version into the header")

LIB = "file.HDF_FF_VERSION"


@REG.specfunc()
def ver_ge(ex, p, a, b):
    """lexicographic >= on version triples"""
    a, b = ex.deref(p, a), ex.deref(p, b)
    xs = [a.t[k] for k in range(3)]
    ys = [x.t for x in b.items] if isinstance(b, VTuple) else [b.t[k] for k in range(3)]
    acc = z3.BoolVal(True)
    for x, y in reversed(list(zip(xs, ys))):
        acc = z3.If(x == y, acc, x > y)
    return VBool(acc)


def b(c):
    return "ite_(%s, 1, 0)" % c


ID, PR, AL, VE = ["result_of('%s')" % n for n in ("add_file_id", "update_property_values", "update_alias_range_dimension",
                                                   "update_format_version")]
REG.contract(
    "nixio.cmd.upgrade.collect_tasks", props=["C18"],
    params=dict(fname=Str), result=TupleOf(SeqOf(Dyn), Str, Str),
    let="old_format = not ver_ge(file_version(fname), nix.file.HDF_FF_VERSION)",
    ensures=[
        # upgrading an up-to-date file changes nothing: no task at all
        ("uptodate", "(not old_format) implies len(result[0]) == 0", "prop"),
        # the version in the header is raised only after every other conversion step: the version step is LAST
        ("version.last", "old_format implies (len(result[0]) >= 1 and result[0][len(result[0]) - 1] == %s)" % VE, "prop"),
        # each conversion is scheduled exactly when its own detector found work (also after an interrupted run that
        # already completed an earlier step)
        ("id.iff", "old_format implies ((%s in result[0]) == (not is_none(%s)))" % (ID, ID), "prop"),
        ("props.iff", "old_format implies ((%s in result[0]) == (not is_none(%s)))" % (PR, PR), "prop"),
        ("alias.iff", "old_format implies ((%s in result[0]) == (not is_none(%s)))" % (AL, AL), "prop"),
        ("detectors.all", "old_format implies (n_calls('add_file_id') == 1 and n_calls('update_property_values') == 1 and "
                          "n_calls('update_alias_range_dimension') == 1)", "prop"),
        ("only", "old_format implies len(result[0]) == 1 + %s + %s + %s"
                 % (b("not is_none(%s)" % ID), b("not is_none(%s)" % PR), b("not is_none(%s)" % AL)), "prop")],
    prop_clauses=["uptodate", "version.last", "id.iff", "props.iff", "alias.iff", "detectors.all", "only"])

REG.spec_consts = getattr(REG, "spec_consts", {})
