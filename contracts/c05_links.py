"""C05 / C12 - linking a dimension to an array or data frame (nixio/dimensions.py), prefix verification.

Proved up to the hand-over to DimensionLink.create_new: an index that does not name exactly one vector (one -1, no
other negative entry), a rank mismatch, or a column index out of range is refused BEFORE anything is touched (the old
link and the explicit ticks are still there: automatic `atomic:` obligations), and when the new link is about to be
created no old link and - for range dimensions - no explicit ticks are left (ticks and link replace each other).
"""
import z3
from pyvc.vals import *          # noqa: F401,F403

REG = globals().get("REG")
REG.inline("nixio.dimensions.Dimension._check_index", "nixio.dimensions.Dimension._check_link_dimensionality",
           "nixio.dimensions.Dimension.remove_link")

BAD_IDX = "(not (count_eq(index, -1) == 1 and exactly_one_negative(index)))"
RANK = "len(dshape(dataset_of(data_array)))"


@REG.specfunc()
def count_eq(ex, p, s, x):
    """tuple.count with its characterising facts (as in the executor's model of .count)"""
    cnt = ex.bi.count_fn(IntS)(s.t, x.t)
    if ex.is_ground(s.t, x.t):
        u = z3.Unit(x.t)
        first = z3.IndexOf(s.t, u, 0)
        n = z3.Length(s.t)
        rest = z3.SubSeq(s.t, first + 1, n - first - 1)
        p.assume(z3.And(cnt >= 0, cnt <= n))
        p.assume((cnt == 0) == z3.Not(z3.Contains(s.t, u)))
        p.assume(z3.Implies(cnt > 0, (cnt == 1) == z3.Not(z3.Contains(rest, u))))
    return VInt(cnt)


@REG.specfunc()
def exactly_one_negative(ex, p, s):
    from pyvc import vals as V
    i, j = V.fresh("ni", IntS), V.fresh("nj", IntS)
    n = z3.Length(s.t)
    return VBool(z3.Exists([i], z3.And(i >= 0, i < n, s.t[i] < 0,
                                       z3.ForAll([j], z3.Implies(z3.And(j >= 0, j < n, j != i), z3.Not(s.t[j] < 0))))))


for _cls in ("Dimension", "RangeDimension"):
    REG.contract(
        "nixio.dimensions.%s.link_data_array" % _cls, props=["C05", "C12"], prefix=True,
        params=dict(self=Obj(_cls), data_array=Obj("DataArray"), index=SeqOf(Int)),
        requires=["obj(self) != 0", "obj(data_array) != 0", "dataset_of(data_array) != 0"],
        modifies=["link", "ord", "kind", "fresh", "attr", "data", "dshape", "dtype"],
        raises={"IncompatibleDimensions": ("%s != len(index)" % RANK, "prop"),
                "ValueError": ("%s == len(index) and %s" % (RANK, BAD_IDX), "prop")},
        at_cut=[("replace.link", "link(obj(self), 'link') == 0", "prop")] if _cls == "Dimension" else
               [("replace.ticks", "link(obj(self), 'ticks') == 0", "prop")],
        prop_clauses=["raises-only:ValueError", "raises-only:IncompatibleDimensions", "refused-before-cut:ValueError",
                      "refused-before-cut:IncompatibleDimensions", "replace.link", "replace.ticks"])


@REG.specfunc()
def df_ncols(ex, p, df):
    from sidecar_a_common import obj
    f = z3.Function("spec_df_ncols", IntS, p.sigma["dtype"].sort(), p.sigma["link"].sort(), IntS)
    return VInt(f(obj(ex, p, df).t, p.sigma["dtype"], p.sigma["link"]))


REG.contract("nixio.data_frame.DataFrame.columns", assumed=True, props=[], params=dict(self=Obj("DataFrame")), result=SeqOf(Dyn),
             ensures=["len(result) == df_ncols(self)"], note="column (name, type) pairs of the compound dtype (summary)")

for _cls in ("Dimension", "RangeDimension"):
    REG.contract(
        "nixio.dimensions.%s.link_data_frame" % _cls, props=["C05", "C12"], prefix=True,
        params=dict(self=Obj(_cls), data_frame=Obj("DataFrame"), index=Int),
        requires=["obj(self) != 0", "obj(data_frame) != 0"],
        modifies=["link", "ord", "kind", "fresh", "attr", "data", "dshape", "dtype"],
        raises={"OutOfBounds": ("not (0 <= index and index < df_ncols(data_frame))", "prop")},
        at_cut=[("replace.link", "link(obj(self), 'link') == 0", "prop")] if _cls == "Dimension" else
               [("replace.ticks", "link(obj(self), 'ticks') == 0", "prop")],
        prop_clauses=["raises-only:OutOfBounds", "refused-before-cut:OutOfBounds", "replace.link", "replace.ticks"])


# ---- the vector a dimension link designates ------------------------------------------------------------------------------------------------
REG.fields("DimensionLink", _h5group=Obj("H5Group"), _parent=Dyn, _file=Obj("File"))
REG.inline("nixio.dimensions.DimensionLink._data_object_type")
_LIDX = z3.Function("spec_link_index", IntS, z3.ArraySort(IntS, z3.ArraySort(StrS, Val)), z3.SeqSort(IntS))


@REG.specfunc()
def link_index(ex, p, dl):
    from sidecar_a_common import obj
    return VSeq(_LIDX(obj(ex, p, dl).t, p.sigma["attr"]), Int)


@REG.specfunc()
def first_index_of(ex, p, s, x):
    return VInt(z3.IndexOf(s.t, z3.Unit(x.t), 0))


REG.contract("nixio.dimensions.DimensionLink.index", assumed=True, props=[], params=dict(self=Obj("DimensionLink")),
             result=SeqOf(Int), ensures=["result == link_index(self)"], note="the stored index vector of an array link (summary)")
REG.contract("nixio.dimensions.DimensionLink.linked_data", assumed=True, props=[], params=dict(self=Obj("DimensionLink")),
             result=OpaqueT, note="raw content of the linked object's `data` dataset (h5py read)")

REG.contract(
    "nixio.dimensions.DimensionLink.values", props=["C05"],
    params=dict(self=Obj("DimensionLink")), result=Dyn,
    requires=["obj(self) != 0", "dec(attr(obj(self), 'data_object_type')) == 'DataArray'",
              "count_eq(link_index(self), -1) == 1"],
    let="I = link_index(self); v = first_index_of(I, -1)",
    raises={"ValueError": ("False", "helper"), "IndexError": ("False", "helper")},
    # the configured vector: ':' at the designated position, EVERY other coordinate (0 included) exactly as configured
    ensures=[("vec.len", "len(as_valseq(arg_of('opaque.__getitem__', 'idx'))) == len(I)", "prop"),
             ("vec.each", "all(as_valseq(arg_of('opaque.__getitem__', 'idx'))[j] == "
                          "ite_(j == v, boxed(mk_slice(None, None, None)), boxed(I[j])) for j in range(len(I)))", "prop"),
             ("vec.read", "n_calls('opaque.__getitem__') == 1 and result == result_of('opaque.__getitem__')", "prop")],
    prop_clauses=["vec.len", "vec.each", "vec.read"])
