"""Contracts for nixio/util/units.py (property C09; used by C08/C14).

Regex semantics assumed: Python `re` = leftmost-first backtracking for the subset used here (pyvc/regex.py);
language-membership questions go through z3's regular-expression theory. The SI tables (PREFIXES, UNITS, POWER,
PREFIX_FACTORS) are read from the repository's AST on every run - nothing is hard-coded here.
"""
import ast
import os
import z3
from pyvc.vals import *          # noqa: F401,F403
from pyvc import vals as V
from pyvc.ops import OpsMixin

REG = globals().get("REG")


def _tables():
    repo = REG.repo
    consts = repo.modconsts["nixio.util.units"]

    def strval(node):
        return ast.literal_eval(node)
    pfx = strval(consts["PREFIXES"]).strip("()").split("|")
    units = strval(consts["UNITS"]).strip("()").split("|")
    power = strval(consts["POWER"])
    return pfx, units, power


PFX, UNITS_, POWER_ = _tables()


@REG.specfunc()
def in_lang(ex, p, s, pat):
    """s is in the language of the (fully anchored) regular expression pat"""
    from pyvc.regex import to_z3re
    import re._parser as sp
    txt = z3.simplify(pat.t).as_string()
    return VBool(z3.InRe(s.t, to_z3re(list(sp.parse(txt)))))


_SP = [z3.Function("spec_split_%s" % k, StrS, StrS) for k in ("prefix", "unit", "power")]
_STRINT = z3.Function("str_to_int", StrS, IntS)


@REG.specfunc()
def split_p(ex, p, s):
    return VStr(_SP[0](s.t))


@REG.specfunc()
def split_u(ex, p, s):
    return VStr(_SP[1](s.t))


@REG.specfunc()
def split_w(ex, p, s):
    return VStr(_SP[2](s.t))


@REG.specfunc()
def str_to_int(ex, p, s):
    return VInt(_STRINT(s.t))


@REG.specfunc()
def rpow(ex, p, x, n):
    """x ** n for integer n (uninterpreted); instance facts: 1 ** n = 1, x ** 1 = x, x ** 0 = 1"""
    xt = to_real(x)
    if ex.is_ground(xt, n.t):
        p.assume(OpsMixin.RPOW(z3.RealVal(1), n.t) == 1)
        p.assume(OpsMixin.RPOW(xt, z3.IntVal(1)) == xt)
        p.assume(OpsMixin.RPOW(xt, z3.IntVal(0)) == 1)
    return VReal(OpsMixin.RPOW(xt, n.t))


@REG.specfunc()
def div_exact(ex, p, a, b):
    return VReal(to_real(a) / to_real(b))


@REG.specfunc()
def factor(ex, p, pre):
    """PREFIX_FACTORS[pre] read from the module constant; the empty prefix has factor 1"""
    d = ex.module_attr(p, "nixio.util.units", "PREFIX_FACTORS")
    acc = z3.RealVal(1)
    for k, v in reversed(d.items):
        acc = z3.If(pre.t == k.t, to_real(v), acc)
    return VReal(acc)


NUMERAL = "[+-]?[1-9]\\\\d*"

REG.contract("builtins.int_of_str", assumed=True, params=dict(s=Str), result=Int,
             raises={"ValueError": ("not in_lang(s, '[+-]?[0-9]+')", "helper")},
             ensures=["result == str_to_int(s)"], note="int(text) for a decimal numeral")

# ---- membership predicates (match objects are used for their truth value only) ---------------------------
ATOMIC_PAT = "'^' + PREFIXES + '?' + UNITS + POWER + '?$'"
COMPOUND_PAT = "'(' + PREFIXES + '?' + UNITS + POWER + '?' + '(\\\\*|/))+' + PREFIXES + '?' + UNITS + POWER + '?'"

REG.contract(
    "nixio.util.units.is_atomic", props=["C09", "C14"], note="truthy_result",
    params=dict(unit=Str), result=Bool,
    ensures=[("atomic", "result == in_lang(unit, %s)" % ATOMIC_PAT, "helper")])

REG.contract(
    "nixio.util.units.is_compound", props=["C09", "C14"], note="truthy_result",
    params=dict(unit=Str), result=Bool,
    ensures=[("compound", "result == (unit != '' and in_lang(unit, '.*' + %s + '.*'))" % COMPOUND_PAT, "helper")])

REG.contract(
    "nixio.util.units.is_si", props=["C09", "C14"], note="truthy_result",
    params=dict(unit=Str), result=Bool,
    ensures=[("si", "result == (unit != '' and (in_lang(unit, %s) or in_lang(unit, '.*' + %s + '.*')))"
                    % (ATOMIC_PAT, COMPOUND_PAT), "helper")])

# ---- split: functional summary used by callers + table family verified against the property -------------
REG.contract(
    "nixio.util.units.split", assumed=True, props=[],
    params=dict(combined_unit=Str), result=TupleOf(Str, Str, Str),
    ensures=["result[0] == split_p(combined_unit) and result[1] == split_u(combined_unit) and "
             "result[2] == split_w(combined_unit)",
             "result[2] == '' or in_lang(result[2], '%s')" % NUMERAL],
    note="names the three components of the (deterministic, pure) function split; the power component comes from "
         "the POWER group minus its caret. What split returns on the SI tables is verified by the family "
         "nixio.util.units.split#table")

POWERS = ["", "^2", "^-1"] if os.environ.get("PYVC_TIER", "quick") == "quick" else \
    ["", "^1", "^2", "^3", "^-1", "^-2", "^-3", "^+2", "^10", "^-12"]
TABLE = [dict(P=p_, U=u_, W=w_, **{ARG: p_ + u_ + w_}) for p_ in [""] + PFX for u_ in UNITS_ for w_ in POWERS
         for ARG in ["combined_unit"]]
TABLE_ATOMIC = [dict(P=d["P"], U=d["U"], W=d["W"], unit=d["combined_unit"]) for d in TABLE]

REG.contract(
    "nixio.util.units.split#table", replay=dict(harness="c09_units"), props=["C09"],
    params=dict(combined_unit=Str), result=TupleOf(Str, Str, Str),
    instances=TABLE,
    requires=["combined_unit == P + U + W"],
    # property: every prefix-unit-power combination built from the SI tables is split into exactly that
    # prefix, unit and power (the power may be absent)
    ensures=[("split.prefix", "result[0] == P", "prop"),
             ("split.unit", "result[1] == U", "prop"),
             ("split.power", "result[2] == ite_(W == '', '', W[1:])", "prop")],
    prop_clauses=["split.prefix", "split.unit", "split.power"])

REG.contract(
    "nixio.util.units.is_atomic#table", replay=dict(harness="c09_units"), props=["C09"], note="truthy_result",
    params=dict(unit=Str), result=Bool,
    instances=TABLE_ATOMIC,
    requires=["unit == P + U + W"],
    ensures=[("atomic.table", "result", "prop")], prop_clauses=["atomic.table"])

# ---- scalable / scaling ------------------------------------------------------------------------------------
SI = "(%s != '' and (in_lang(%s, {0}) or in_lang(%s, '.*' + {1} + '.*')))".format(ATOMIC_PAT, COMPOUND_PAT)


def si(x):
    return SI % (x, x, x)


SCALABLE = ("(%s and %s and split_u(a) == split_u(b) and split_w(a) == split_w(b))" % (si("a"), si("b")))

REG.contract(
    "nixio.util.units.scalable#str", replay=dict(harness="c09_units"), props=["C09", "C14", "C08"],
    params=dict(units_a=Str, units_b=Str), result=Bool,
    let="a = units_a; b = units_b",
    # property: same base unit and power <=> scalable
    ensures=[("scalable", "result == %s" % SCALABLE, "prop")], prop_clauses=["scalable"])

REG.contract(
    "nixio.util.units.scalable", assumed=True, props=[],
    params=dict(units_a=Str, units_b=Str), result=Bool,
    let="a = units_a; b = units_b",
    ensures=["result == %s" % SCALABLE, "result == scalable_spec(units_a, units_b)"],
    note="string form; verified as nixio.util.units.scalable#str (the list form is the pointwise conjunction)")

REG.contract(
    "nixio.util.units.scaling", replay=dict(harness="c09_units"), props=["C09", "C08"],
    params=dict(origin=Str, destination=Str), result=Real,
    let="a = origin; b = destination; pa = split_p(a); pb = split_p(b); na = split_w(a)",
    requires=["pa == '' or any(pa == x for x in PFX_LIST)", "pb == '' or any(pb == x for x in PFX_LIST)"],
    raises={"InvalidUnit": ("not %s" % SCALABLE, "prop")},
    # property: the conversion factor is the ratio of the prefixes raised to the unit's power
    ensures=[("factor", "result == ite_(na == '', div_exact(factor(pa), factor(pb)), "
                        "rpow(div_exact(factor(pa), factor(pb)), str_to_int(na)))", "prop")],
    prop_clauses=["factor", "raises-iff:InvalidUnit", "raises-only:InvalidUnit"])


REG.spec_consts = getattr(REG, "spec_consts", {})
REG.spec_consts["PFX_LIST"] = VTuple([VStr(x) for x in PFX])


# ---- lemmas over the specification ---------------------------------------------------------------------------
def _factor_table():
    from fractions import Fraction
    consts = REG.repo.modconsts["nixio.util.units"]
    d = ast.literal_eval(consts["PREFIX_FACTORS"])
    return {k: Fraction(repr(v)) for k, v in d.items()}


@REG.lemma("C09/lemma/prefix-factors-are-powers-of-ten", ["C09"])
def lemma_factors():
    """every PREFIX_FACTORS entry (read from the AST) is 10**e for an integer e, and every prefix of PREFIXES has one"""
    from fractions import Fraction
    out = []
    ft = _factor_table()
    for k in PFX:
        ok = k in ft
        e = None
        if ok:
            f = ft[k]
            for cand in range(-30, 31):
                if f == (Fraction(10 ** cand) if cand >= 0 else Fraction(1, 10 ** -cand)):
                    e = cand
        out.append(("prefix:%s" % k, [], z3.BoolVal(ok and e is not None)))
    return out


@REG.lemma("C09/lemma/conversions-compose-and-invert", ["C09"])
def lemma_compose():
    """with s(a,b) = 10**(n*(e_a - e_b)) (prefix ratio to the unit's power): s(a,b)*s(b,c) = s(a,c), s(a,b)*s(b,a) = 1,
    stated on the exponents (10**x * 10**y = 10**(x+y))"""
    ea, eb, ec, n = z3.Ints("ea eb ec n")
    return [("compose", [], n * (ea - eb) + n * (eb - ec) == n * (ea - ec)),
            ("invert", [], n * (ea - eb) + n * (eb - ea) == 0)]


@REG.lemma("C09/lemma/products-and-quotients-are-compound", ["C09"])
def lemma_compound():
    """L(atomic) (*|/) L(atomic) is contained in what is_compound accepts (regex inclusion)"""
    import re._parser as sp
    from pyvc.regex import to_z3re, sigma_star
    consts = REG.repo.modconsts["nixio.util.units"]
    P, U, W = (ast.literal_eval(consts[k]) for k in ("PREFIXES", "UNITS", "POWER"))
    atomic = "%s?%s%s?" % (P, U, W)
    compound = "(%s(\\*|/))+%s" % (atomic, atomic)
    A = to_z3re(list(sp.parse(atomic)))
    C = to_z3re(list(sp.parse(compound)))
    x = z3.String("x")
    sep = z3.Union(z3.Re("*"), z3.Re("/"))
    return [("inclusion", [z3.InRe(x, z3.Concat(A, sep, A))], z3.InRe(x, z3.Concat(sigma_star(), C, sigma_star()))),
            ("nonempty", [z3.InRe(x, z3.Concat(A, sep, A))], z3.Length(x) > 0)]


@REG.bounded_check("C09/bounded/sanitizer-idempotent", ["C09"])
def bounded_sanitizer(repo_dir):
    """BOUNDED stand-in (never counted as proved): replace-all chains are outside what z3/cvc5 decide unboundedly.
    Exhaustive over all strings of length <= 5 (quick) / 6 (thorough) over {m,u,micro sign,greek mu,blank,V} on the real function."""
    import json
    import subprocess
    n = 5 if os.environ.get("PYVC_TIER", "quick") == "quick" else 6
    code = r'''
import itertools, json, sys
from nixio.util import units
alpha = ["m", "u", "µ", "μ", " ", "V"]
n = %d
tot = 0; bad_known = []; bad_other = []
for k in range(0, n + 1):
    for t in itertools.product(alpha, repeat=k):
        s = "".join(t); tot += 1
        a = units.sanitizer(s); b = units.sanitizer(a)
        if a != b:
            (bad_known if "mu" in a else bad_other).append(s)
print(json.dumps(dict(total=tot, known=len(bad_known), known_samples=bad_known[:5], other=bad_other[:20])))
''' % n
    r = subprocess.run(["/venv/bin/python", "-c", code], capture_output=True, text=True,
                       env=dict(os.environ, PYTHONPATH=repo_dir), timeout=600)
    if r.returncode != 0:
        return dict(status="undecided", message=r.stderr[-500:])
    d = json.loads(r.stdout)
    return dict(status="ok", bound="all strings of length <= %d over a 6-letter alphabet" % n, evaluations=d["total"],
                violations=[dict(input=s, what="sanitizer(sanitizer(s)) != sanitizer(s)") for s in d["other"]],
                known_class=dict(id="C09-sanitizer-mu", count=d["known"], samples=d["known_samples"]))
