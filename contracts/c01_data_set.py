"""Contracts for nixio/data_set.py (C01, C06, C15): thin delegation to the dataset named 'data'."""
from pyvc.vals import *          # noqa: F401,F403

REG = globals().get("REG")

ENTITY_OK = "obj(self) != 0"

REG.inline("nixio.data_set.DataSet.shape", "nixio.data_set.DataSet.__getitem__", "nixio.data_set.DataSet.__setitem__",
           "nixio.data_set.DataSet.__array__", "nixio.data_set.DataSet.len", "nixio.data_set.DataSet.__len__",
           "nixio.data_set.DataSet.write_direct", "nixio.data_set.DataSet.read_direct")

REG.contract(
    "nixio.data_set.DataSet.data_extent", props=["C01", "C06"],
    params=dict(self=Obj("DataSet")), result=SeqOf(Int),
    requires=[ENTITY_OK, "dataset_of(self) != 0"],
    ensures=[("ext.eq", "result == dshape(dataset_of(self))", "prop"),
             ("ext.nonneg", "all(x >= 0 for x in result)", "helper")],
    prop_clauses=["ext.eq"])

REG.contract(
    "nixio.data_set.DataSet._read_data", props=["C01", "C06", "C15"],
    params=dict(self=Obj("DataSet"), slc=Dyn), result=Dyn,
    requires=[ENTITY_OK, "dataset_of(self) != 0"],
    raises={"IndexError": ("h5_refuses(dataset_of(self), slc)", "helper")},
    ensures=[("rd.raw", "result == raw_read(dataset_of(self), slc)", "prop")],
    prop_clauses=["rd.raw"])

REG.contract(
    "nixio.data_set.DataSet._write_data", props=["C01", "C06"],
    params=dict(self=Obj("DataSet"), data=Dyn, slc=Dyn),
    requires=[ENTITY_OK, "dataset_of(self) != 0"],
    modifies=["data"],
    raises={"TypeError#conv": ("h5_refuses_write(dataset_of(self), slc, data)", "helper")},
    ensures=[("wr.slab", "same(sigma('data'), store_data(old(sigma('data')), dataset_of(self), "
                         "ds_write(old(ddata(dataset_of(self))), slc, data)))", "prop")],
    prop_clauses=["wr.slab", "frame:dshape", "frame:attr", "frame:link"])


# ---------------------------------------------------------------------------------------------------------
# C01: DataSet.append - extent / hyperslab arithmetic for any rank and any valid axis
# ---------------------------------------------------------------------------------------------------------
import z3                                 # noqa: E402
from pyvc import vals as V                # noqa: E402

REG.contract("np.ascontiguousarray", assumed=True, params=dict(x=Dyn), result=OpaqueT,
             ensures=["result == opq(uf('np.ascontiguousarray', x))",
                      "all(np_shape(result)[j] >= 0 for j in range(len(np_shape(result))))"],
             note="the same values as a C-contiguous ndarray")

REG.contract(
    "nixio.data_set.DataSet.data_extent.setter", props=["C01"],
    params=dict(self=Obj("DataSet"), extent=SeqOf(Int)),
    requires=[ENTITY_OK, "dataset_of(self) != 0"], modifies=["dshape", "data"],
    ensures=[("ext.set", "same(sigma('dshape'), shape_set(old(sigma('dshape')), dataset_of(self), extent))", "prop"),
             # resizing keeps every element that lies inside both extents at its index (assumed h5py resize semantics)
             ("ext.keep", "same(sigma('data'), store_data(old(sigma('data')), dataset_of(self), "
                          "uf('h5.resized', old(ddata(dataset_of(self))), boxed(extent))))", "prop")],
    prop_clauses=["ext.set", "ext.keep", "frame:attr", "frame:link"])

APP_LET = ("E = old(dshape(dataset_of(self))); A = opq(uf('np.ascontiguousarray', data)); D = np_shape(A); r = len(E)")
NE = "dshape(dataset_of(self))"

REG.contract(
    "nixio.data_set.DataSet.append", props=["C01", "C12"],
    params=dict(self=Obj("DataSet"), data=Dyn, axis=Int),
    requires=[ENTITY_OK, "dataset_of(self) != 0", "0 <= axis and axis < len(dshape(dataset_of(self)))",
              "all(dshape(dataset_of(self))[j] >= 0 for j in range(len(dshape(dataset_of(self)))))"],
    modifies=["dshape", "data"], let=APP_LET,
    # refused - before anything is written - unless the ranks agree and the shapes agree everywhere but on the axis
    raises={"ValueError": ("len(E) != len(D) or any(E[j] != D[j] and j != axis for j in range(len(E)))", "prop")},
    # a conversion failure inside h5py's write (after the resize) is outside this contract: see C12 / finding F4
    unexpected_ok=["TypeError"],
    ensures=[
        # the extent grows along the axis by the extent of the appended data, and only there
        ("app.extent", "len({0}) == r and all({0}[j] == E[j] + ite_(j == axis, D[j], 0) for j in range(r))".format(NE), "prop"),
        # the written hyperslab: [0, D[j]) off the axis, [E[axis], E[axis] + D[axis]) on it - i.e. right behind the old data
        ("app.slab", "len(as_sliceseq(arg_of('_write_data', 'slc'))) == r and "
                     "all(as_sliceseq(arg_of('_write_data', 'slc'))[j] == "
                     "mk_slice(ite_(j == axis, E[j], 0), D[j] + ite_(j == axis, E[j], 0), None) for j in range(r))", "prop"),
        ("app.data", "arg_of('_write_data', 'data') == boxed(A)", "prop"),
        # content: the old elements keep their indices (resize), then exactly the slab is overwritten with the new data
        ("app.content", "ddata(dataset_of(self)) == ds_write(uf('h5.resized', old(ddata(dataset_of(self))), boxed(%s)), "
                        "arg_of('_write_data', 'slc'), boxed(A))" % NE, "prop")],
    prop_clauses=["app.extent", "app.slab", "app.data", "app.content", "raises-iff:ValueError", "raises-only:ValueError",
                  "frame:attr", "frame:link"])


# ---------------------------------------------------------------------------------------------------------
# the wrapper H5DataSet.write_data against raw h5py item assignment (the assumed summary used everywhere else)
# ---------------------------------------------------------------------------------------------------------
REG.fields("H5DataSet", dataset=OpaqueOf("h5ds"))
_H5DS_OBJ = z3.Function("h5py_dataset_object", IntS, IntS)


@REG.specfunc()
def h5ds_obj(ex, p, d):
    """the HDF5 dataset object behind an h5py Dataset python object"""
    d = ex.deref(p, d)
    return VInt(_H5DS_OBJ(d.t if isinstance(d, VOpaque) else Val.ok(box(d))))


REG.contract(
    "opaque:h5ds.__setitem__", assumed=True, params=dict(self=OpaqueOf("h5ds"), idx=Dyn, value=Dyn),
    modifies=["data"], let="o = h5ds_obj(self); sel = idx",
    raises={"TypeError#conv": ("h5_refuses_write(o, sel, value)", "helper")},
    ensures=["same(sigma('data'), store_data(old(sigma('data')), o, ds_write(old(ddata(o)), sel, value)))"],
    note="h5py Dataset.__setitem__: exactly the selected elements are replaced (dataset[:] = whole dataset)")

REG.contract(
    "nixio.hdf5.h5dataset.H5DataSet.write_data#impl", props=["C01", "C06"],
    params=dict(self=Obj("H5DataSet"), data=Dyn, slc=Dyn),
    requires=["h5ds_obj(field(self, 'dataset')) == gid(self)", "not is_none(data)"],
    modifies=["data"],
    raises={"TypeError#conv": ("h5_refuses_write(gid(self), slc, data)", "helper")},
    # exactly the addressed region is written: no index expression (0, an empty tuple, ...) silently means "everything"
    ensures=[("wr.sel", "same(sigma('data'), store_data(old(sigma('data')), gid(self), "
                        "ds_write(old(ddata(gid(self))), slc, data)))", "prop")],
    prop_clauses=["wr.sel"])
