"""Contracts for nixio/data_set.py (C01, C06, C15): thin delegation to the dataset named 'data'."""
from pyvc.vals import *          # noqa: F401,F403

REG = globals().get("REG")

ENTITY_OK = "obj(self) != 0"

REG.inline("nixio.data_set.DataSet.shape", "nixio.data_set.DataSet.__getitem__", "nixio.data_set.DataSet.__setitem__",
           "nixio.data_set.DataSet.__array__", "nixio.data_set.DataSet.len", "nixio.data_set.DataSet.__len__",
           "nixio.data_set.DataSet.write_direct", "nixio.data_set.DataSet.read_direct")

REG.contract(
    "nixio.data_set.DataSet.data_extent", props=["C01", "C06"],
    params=dict(self=Obj("DataSet")), result=SeqOf(Int),
    requires=[ENTITY_OK, "dataset_of(self) != 0"],
    ensures=[("ext.eq", "result == dshape(dataset_of(self))", "prop"),
             ("ext.nonneg", "all(x >= 0 for x in result)", "helper")],
    prop_clauses=["ext.eq"])

REG.contract(
    "nixio.data_set.DataSet._read_data", props=["C01", "C06", "C15"],
    params=dict(self=Obj("DataSet"), slc=Dyn), result=Dyn,
    requires=[ENTITY_OK, "dataset_of(self) != 0"],
    raises={"IndexError": ("h5_refuses(dataset_of(self), slc)", "helper")},
    ensures=[("rd.raw", "result == raw_read(dataset_of(self), slc)", "prop")],
    prop_clauses=["rd.raw"])

REG.contract(
    "nixio.data_set.DataSet._write_data", props=["C01", "C06"],
    params=dict(self=Obj("DataSet"), data=Dyn, slc=Dyn),
    requires=[ENTITY_OK, "dataset_of(self) != 0"],
    modifies=["data"],
    raises={"TypeError#conv": ("h5_refuses_write(dataset_of(self), slc, data)", "helper")},
    ensures=[("wr.slab", "same(sigma('data'), store_data(old(sigma('data')), dataset_of(self), "
                         "ds_write(old(ddata(dataset_of(self))), slc, data)))", "prop")],
    prop_clauses=["wr.slab", "frame:dshape", "frame:attr", "frame:link"])
