"""C03 / C04 / C05 - containers over the abstract store (nixio/container.py, hdf5/h5group.py lookups).

A container denotes the sequence seq(c) = [entity(link[g][n]) for n in ord[g]] of its backend group g (creation
order). Property clauses (C03): length, positional indexing (negative indices normalised), lookup by name, lookup by id
and membership all describe that one sequence; a legal name retrieves exactly the entity linked under it - also when
the name looks like an id (falls back to the name when no member carries that id). C04: which ids a delete hands to
the sweeper. C05: what a link list accepts and that a link is the SAME object.
"""
import z3
from pyvc.vals import *          # noqa: F401,F403
from pyvc import vals as V
from sidecar_a_common import VOpaqueTerm

REG = globals().get("REG")

_IDX_OF_ID = z3.Function("spec_index_of_id", IntS, StrS, z3.ArraySort(IntS, z3.ArraySort(StrS, Val)),
                         z3.ArraySort(IntS, z3.ArraySort(StrS, IntS)), z3.ArraySort(IntS, z3.SeqSort(StrS)), IntS)


def _eid(p, o):
    """decoded entity_id attribute of object o (text or absent)"""
    t = p.sigma["attr"][o][z3.StringVal("entity_id")]
    return z3.If(Val.is_VBytes(t), Val.VStr(Val.bs(t)), t)


@REG.specfunc()
def idx_of_id(ex, p, g, id_):
    """position (creation order) of the first member of group g whose entity_id is id_, -1 if there is none"""
    S = p.sigma
    k = _IDX_OF_ID(g.t, id_.t, S["attr"], S["link"], S["ord"])
    if ex.is_ground(g.t, id_.t):
        names = S["ord"][g.t]
        n = z3.Length(names)
        j = V.fresh("ij", IntS)
        want = Val.VStr(id_.t)
        p.assume(z3.And(k >= -1, k < n))
        p.assume(z3.Implies(k >= 0, _eid(p, S["link"][g.t][names[k]]) == want))
        p.assume(z3.ForAll([j], z3.Implies(z3.And(j >= 0, j < z3.If(k >= 0, k, n)),
                                           _eid(p, S["link"][g.t][names[j]]) != want)))
    return VInt(k)


@REG.specfunc()
def eid_before(ex, p, e):
    """decoded entity_id of the entity e in the PRE-state of the call"""
    from sidecar_a_common import obj
    se = ex.lookup(p, "__specenv__")
    oldp = se.old if se.old is not None else se.p
    return VDyn(_eid(oldp, obj(ex, oldp, e).t))


@REG.specfunc()
def obj_before(ex, p, e):
    """store object the entity handle e denotes in the PRE-state of the call"""
    from sidecar_a_common import obj
    se = ex.lookup(p, "__specenv__")
    oldp = se.old if se.old is not None else se.p
    return VInt(obj(ex, oldp, e).t)


@REG.specfunc()
def nth_name(ex, p, g, i):
    return VStr(p.sigma["ord"][g.t][i.t])


@REG.specfunc()
def eid_of(ex, p, o):
    return VDyn(_eid(p, o.t))


# ---- store well-formedness (assumed invariant of HDF5 groups, instance-wise) -----------------------------------------------
@REG.specfunc()
def wf_group(ex, p, g):
    """the creation-order list of group g holds exactly its link names, each once"""
    S = p.sigma
    names = S["ord"][g.t]
    n, i, j = V.fresh("wn", StrS), V.fresh("wi", IntS), V.fresh("wj", IntS)
    return VBool(z3.And(
        z3.ForAll([n], (S["link"][g.t][n] != 0) == z3.Contains(names, z3.Unit(n))),
        z3.ForAll([i, j], z3.Implies(z3.And(0 <= i, i < j, j < z3.Length(names)), names[i] != names[j]))))


# ---- assumed wrapper contracts: lookups -----------------------------------------------------------------------------------------
REG.contract(
    "nixio.hdf5.h5group.H5Group.get_by_name", assumed=True,
    params=dict(self=Obj("H5Group"), name=Str), result=Obj("H5Group"),
    raises={"KeyError": ("gid(self) == 0 or link(gid(self), name) == 0", "helper")},
    ensures=["result == child(gid(self), name)", "gid(result) == link(gid(self), name)"],
    note="h5py Group.__contains__/__getitem__ + a fresh wrapper for that child")
REG.contract(
    "nixio.hdf5.h5group.H5Group.get_by_pos", assumed=True,
    params=dict(self=Obj("H5Group"), pos=Int), result=Obj("H5Group"),
    requires=["gid(self) == 0 or (0 <= pos and pos < len(order(gid(self))))"],
    raises={"IndexError": ("gid(self) == 0", "helper")},
    ensures=["result == child(gid(self), nth_name(gid(self), pos))",
             "gid(result) == link(gid(self), nth_name(gid(self), pos))"],
    note="links.iterate(idx_type=CRT_ORDER, order=INC, idx=pos): the pos-th link in creation order (assumed h5py/HDF5)")
REG.contract(
    "nixio.hdf5.h5group.H5Group.get_by_id", assumed=True,
    params=dict(self=Obj("H5Group"), id_=Str), result=Obj("H5Group"),
    let="g = gid(self); k = idx_of_id(g, id_)",
    raises={"KeyError": ("g == 0 or k < 0", "helper")},
    ensures=["result == child(g, nth_name(g, k))", "gid(result) == link(g, nth_name(g, k))"],
    note="first child, in iteration (= creation) order, whose entity_id attribute equals id_")
REG.contract(
    "nixio.hdf5.h5group.H5Group.__iter__", assumed=True,
    params=dict(self=Obj("H5Group")), result=SeqOf(Obj("H5Group")),
    let="g = gid(self)",
    ensures=["len(result) == ite_(g == 0, 0, len(order(g)))",
             "all(result[j] == child(g, nth_name(g, j)) for j in range(len(result)))",
             "all(field(result[j], 'name') == nth_name(g, j) and field(result[j], 'pgid') == g and "
             "gid(result[j]) == link(g, nth_name(g, j)) for j in range(len(result)))"],
    note="h5py iterates a creation-order-tracked group in creation order (assumed); one fresh wrapper per child")

# ---- verified: id-or-name dispatch -------------------------------------------------------------------------------------------------
REG.contract(
    "nixio.hdf5.h5group.H5Group.get_by_id_or_name", props=["C03", "C04", "C20"],
    params=dict(self=Obj("H5Group"), id_or_name=Str), result=Obj("H5Group"),
    let="g = gid(self); k = idx_of_id(g, id_or_name); byname = g != 0 and link(g, id_or_name) != 0; "
        "byid = (not byname) and uuid_text(id_or_name) and g != 0 and k >= 0",
    raises={"KeyError": ("(not byid) and (not byname)", "prop")},
    ensures=[
        # every legal name retrieves exactly the entity linked under it - also a name that looks like an id, and also when
        # another member carries that text as its id (kept-id copies of an entity that is named after its id)
        ("by.name", "byname implies gid(result) == link(g, id_or_name)", "prop"),
        ("by.id", "byid implies gid(result) == link(g, nth_name(g, k))", "prop")],
    prop_clauses=["by.id", "by.name", "raises-iff:KeyError", "raises-only:KeyError"])


# ---- containers ----------------------------------------------------------------------------------------------------------------------
_INST = z3.Function("py_isinstance", Val, Val, BoolS)


@REG.specfunc()
def is_classval(ex, p, x):
    return VBool(Val.is_VClass(box(ex.deref(p, x))))


@REG.specfunc()
def inst_of(ex, p, x, cls):
    return VBool(_INST(box(ex.deref(p, x)), box(ex.deref(p, cls))))


REG.contract(
    "nixio.container.Container._inst_item", assumed=True, props=[],
    params=dict(self=Obj("Container"), item=Obj("H5Group")), result=Obj("Entity"),
    modifies=["heap._h5group@new", "heap._parent@new", "heap._file@new"],
    ensures=["field(result, '_h5group') == item", "field(result, '_file') == field(self, '_file')",
             "inst_of(result, field(self, '_itemclass'))"],
    note="fresh_result; constructs the handle object of the container's item class for a child group (the class is a "
         "run-time value; Entity.__init__'s id check is a format invariant)")

CONT_OK = []
G = "gid(field(self, '_backend'))"
N = "ite_(%s == 0, 0, len(order(%s)))" % (G, G)
I = "intval(item)"
POS = "ite_({0} < 0, {0} + {1}, {0})".format(I, N)
K = "idx_of_id(%s, as_str(item))" % G
BYNAME = "(%s != 0 and link(%s, as_str(item)) != 0)" % (G, G)
BYID = "((not %s) and uuid_text(as_str(item)) and %s != 0 and %s >= 0)" % (BYNAME, G, K)

REG.contract(
    "nixio.container.Container.__len__#c03", props=["C03"],
    params=dict(self=Obj("Container")), result=Int, requires=CONT_OK,
    ensures=[("len", "result == %s" % N, "prop")], prop_clauses=["len"])

REG.contract(
    "nixio.container.Container.__getitem__", props=["C03", "C04"],
    params=dict(self=Obj("Container"), item=Dyn), result=Obj("Entity"), note="fresh_result",
    requires=CONT_OK + ["is_int(item) or is_str(item)"],
    modifies=["heap._h5group@new", "heap._parent@new", "heap._file@new"],
    raises={"IndexError": ("is_intlike(item) and not (-{1} <= {0} and {0} < {1})".format(I, N), "prop"),
            "KeyError": ("is_str(item) and (not %s) and (not %s)" % (BYID, BYNAME), "prop")},
    ensures=[
        # positional indexing follows creation order; negative indices count from the end
        ("get.pos", "is_intlike(item) implies obj(result) == link({0}, nth_name({0}, {1}))".format(G, POS), "prop"),
        ("get.id", "(is_str(item) and %s) implies obj(result) == link(%s, nth_name(%s, %s))" % (BYID, G, G, K), "prop"),
        # a legal name retrieves exactly the entity linked under it (also a name that looks like an id)
        ("get.name", "(is_str(item) and %s) implies obj(result) == link(%s, as_str(item))" % (BYNAME, G), "prop")],
    prop_clauses=["get.pos", "get.id", "get.name", "raises-iff:IndexError", "raises-only:IndexError", "raises-iff:KeyError",
                  "raises-only:KeyError"])

# membership of an entity object: by identity (the member linked under its name IS this entity)
REG.contract(
    "nixio.container.Container.__contains__#entity", props=["C03", "C05", "C13"],
    params=dict(self=Obj("Container"), item=Obj("Entity")), result=Bool,
    requires=CONT_OK + ["obj(item) != 0", "is_str(dec(attr(obj(item), 'name')))", "is_str(dec(attr(obj(item), 'entity_id')))",
                        "is_classval(field(self, '_itemclass'))"],
    let="nm = as_str(dec(attr(obj(item), 'name')))",
    raises={"TypeError": ("not inst_of(item, field(self, '_itemclass'))", "prop")},
    ensures=[("in.identity", "result == ({0} != 0 and link({0}, nm) != 0 and "
                             "eid_of(link({0}, nm)) == dec(attr(obj(item), 'entity_id')))".format(G), "prop")],
    prop_clauses=["in.identity", "raises-iff:TypeError", "raises-only:TypeError"])

REG.contract(
    "nixio.container.Container.__contains__#key", props=["C03"],
    params=dict(self=Obj("Container"), item=Str), result=Bool, requires=CONT_OK,
    let="k = idx_of_id(%s, item)" % G,
    # a key is a member iff it is the id of a member or the name of a member
    ensures=[("in.key", "result == key_member(self, item)", "prop")],
    prop_clauses=["in.key"])


# ---- membership summary used by callers (verified as __contains__#entity) ---------------------------------------------------------------
@REG.specfunc()
def member_by_identity(ex, p, cont, item):
    """the container's member linked under the item's name is this very entity (same id)"""
    from sidecar_a_common import obj, field, gid
    it = ex.deref(p, item)
    if not isinstance(it, VObj):
        it = VObj(Val.ref(box(it)), "Entity")
    g = gid(ex, p, field(ex, p, cont, VStr("_backend"))).t
    o = obj(ex, p, it).t
    nm_t = p.sigma["attr"][o][z3.StringVal("name")]
    nm = z3.If(Val.is_VBytes(nm_t), Val.bs(nm_t), Val.s(nm_t))
    return VBool(z3.And(g != 0, p.sigma["link"][g][nm] != 0, _eid(p, p.sigma["link"][g][nm]) == _eid(p, o)))


@REG.specfunc()
def key_member(ex, p, cont, key):
    """a text key is a member iff it is the id of a member or the name of a member"""
    from sidecar_a_common import field, gid
    from sidecar_c11_file import _UUIDTEXT
    g = gid(ex, p, field(ex, p, cont, VStr("_backend")))
    k = idx_of_id(ex, p, g, key)
    return VBool(z3.And(g.t != 0, z3.Or(z3.And(_UUIDTEXT(key.t), k.t >= 0), p.sigma["link"][g.t][key.t] != 0)))


REG.contract(
    "nixio.container.Container.__contains__", assumed=True, props=[],
    params=dict(self=Obj("Container"), item=Dyn), result=Bool,
    requires=["is_obj(item) or is_str(item)"],
    raises={"TypeError": ("is_obj(item) and not inst_of(item, field(self, '_itemclass'))", "helper")},
    ensures=["is_obj(item) implies result == member_by_identity(self, item)",
             "is_str(item) implies result == key_member(self, as_str(item))"],
    note="summary for entity arguments; verified as Container.__contains__#entity (and #key for text keys)")

# ---- C04: what a delete hands to the sweeper ----------------------------------------------------------------------------------------------
REG.contract(
    "nixio.hdf5.h5group.H5Group.delete_all", assumed=True, props=[],
    params=dict(self=Obj("H5Group"), eid=SeqOf(Dyn), targets=Opt(SeqOf(Int))), defaults=dict(targets=VNone()), modifies=["link", "ord"],
    note="ASSUMED (callback traversal with mutation during h5py visititems): afterwards no group below self links an "
         "object whose entity_id is in eid (and which is one of `targets`, when given); every other link and the relative creation order of the remaining links is "
         "unchanged; objects themselves (attributes, data) are untouched")
REG.contract(
    "nixio.hdf5.h5group.H5Group.delete", assumed=True, props=[],
    params=dict(self=Obj("H5Group"), id_or_name=Str, delete_if_empty=Bool), defaults=dict(delete_if_empty=VBool(True)),
    modifies=["link", "ord"],
    let="g = gid(self); byid = (g == 0 or link(g, id_or_name) == 0) and uuid_text(id_or_name) and g != 0 and "
        "idx_of_id(g, id_or_name) >= 0; k = ite_(byid, nth_name(g, idx_of_id(g, id_or_name)), id_or_name)",
    raises={"KeyError": ("uuid_text(id_or_name) and idx_of_id(gid(self), id_or_name) < 0 and link(gid(self), id_or_name) == 0",
                         "helper"),
            "ValueError": ("False", "helper")},
    ensures=["(not delete_if_empty) implies (same(sigma('link'), link_set(old(sigma('link')), g, k, 0)) and "
             "same(sigma('ord'), ord_set(old(sigma('ord')), g, ord_without(old(order(g)), k))))"],
    note="ASSUMED: unlinks the child with that id (or name); if the group is then empty and not a top-level container it is "
         "unlinked from its parent too; the child object itself is untouched")

FILE_ROOT = "field(field(self, '_file'), '_h5group')"
REG.fields("LinkContainer", _itemstore=Obj("Container"))
ENT_REQ = ["obj(item) != 0", "is_str(eid_before(item))", "is_classval(field(self, '_itemclass'))"]
ITEM_ID = "eid_before(item)"

REG.contract(
    "nixio.container.Container.__delitem__#entity", props=["C04"],
    params=dict(self=Obj("Container"), item=Obj("Entity")), requires=ENT_REQ, modifies=["link", "ord"],
    raises={"TypeError": ("not inst_of(item, field(self, '_itemclass'))", "prop")},
    # deleting a plain entity sweeps exactly its own id, starting from the file root
    ensures=[("del.ids", "len(arg_of('delete_all', 'eid')) == 1 and arg_of('delete_all', 'eid')[0] == %s" % ITEM_ID, "prop"),
             # ... and only links to this very object: a copy made with kept ids carries the same id
             ("del.target", "len(arg_of('delete_all', 'targets')) == 1 and "
                            "arg_of('delete_all', 'targets')[0] == obj_before(item)", "prop"),
             ("del.root", "arg_of('delete_all', 'self') == %s" % FILE_ROOT, "prop"),
             ("del.once", "n_calls('delete_all') == 1 and n_calls('H5Group.delete') == 0", "prop")],
    prop_clauses=["del.ids", "del.target", "del.root", "del.once", "raises-iff:TypeError", "raises-only:TypeError"])

SUB = "result_of('find_%s')"
for _cls, _kind in (("SectionContainer", "sections"), ("SourceContainer", "sources")):
    F = SUB % _kind
    _extra = 0 if _kind == "sections" else 1
    ens = [("del.len", "len(arg_of('delete_all', 'eid')) == len(%s) + %d" % (F, _extra), "prop"),
           # the whole subtree: one id per entity the tree search returns, in order
           ("del.sub", "all(arg_of('delete_all', 'eid')[j] == eid_before(%s[j]) for j in range(len(%s)))"
                       % (F, F), "prop"),
           ("del.targets", "len(arg_of('delete_all', 'targets')) == len(%s) + %d and "
                           "all(arg_of('delete_all', 'targets')[j] == obj_before(%s[j]) for j in range(len(%s)))"
                           % (F, _extra, F, F), "prop"),
           ("del.start", "arg_of('find_%s', 'self') == item and n_calls('find_%s') == 1" % (_kind, _kind), "prop"),
           ("del.root", "arg_of('delete_all', 'self') == %s" % FILE_ROOT, "prop"),
           ("del.once", "n_calls('delete_all') == 1", "prop")]
    if _extra:
        ens.append(("del.self", "arg_of('delete_all', 'eid')[len(%s)] == %s and "
                                "arg_of('delete_all', 'targets')[len(%s)] == obj_before(item)" % (F, ITEM_ID, F), "prop"))
    REG.contract(
        "nixio.container.%s.__delitem__#entity" % _cls, props=["C04"],
        params=dict(self=Obj(_cls), item=Obj("Section" if _kind == "sections" else "Source")),
        requires=ENT_REQ + ["all(obj(e) != 0 for e in [])"], modifies=["link", "ord"],
        raises={"TypeError": ("not inst_of(item, field(self, '_itemclass'))", "prop")},
        ensures=ens, prop_clauses=[e[0] for e in ens] + ["raises-iff:TypeError", "raises-only:TypeError"])

REG.contract(
    "nixio.container.LinkContainer.__delitem__#entity", props=["C04", "C05"],
    params=dict(self=Obj("LinkContainer"), item=Obj("Entity")), requires=ENT_REQ, modifies=["link", "ord"],
    raises={"TypeError": ("not inst_of(item, field(self, '_itemclass'))", "prop"),
            "KeyError": ("uuid_text(as_str({0})) and idx_of_id(gid(field(self, '_backend')), as_str({0})) < 0 and "
                         "link(gid(field(self, '_backend')), as_str({0})) == 0".format("dec(attr(obj(item), 'entity_id'))"), "helper")},
    # removing an entry from a list of links only unlinks it there: the sweeper is NOT involved
    ensures=[("unlink.only", "n_calls('delete_all') == 0 and n_calls('H5Group.delete') == 1", "prop"),
             ("unlink.what", "arg_of('H5Group.delete', 'id_or_name') == as_str(%s) and "
                             "arg_of('H5Group.delete', 'self') == field(self, '_backend')" % ITEM_ID, "prop")],
    prop_clauses=["unlink.only", "unlink.what", "raises-iff:TypeError", "raises-only:TypeError"])


# ---- C04: the sweeper, one visited group at a time -------------------------------------------------------------------------------------------
_H5OBJ = z3.Function("h5py_object_id", IntS, IntS)


@REG.specfunc()
def h5obj_id(ex, p, o):
    """store object behind an h5py Group / Dataset python object"""
    o = ex.deref(p, o)
    return VInt(_H5OBJ(o.t if isinstance(o, VOpaque) else Val.ok(box(o))))


@REG.specfunc()
def is_h5group(ex, p, o):
    o = ex.deref(p, o)
    return VBool(z3.Function("opaque_isa_h5py_Group", IntS, BoolS)(o.t if isinstance(o, VOpaque) else Val.ok(box(o))))


REG.contract(
    "nixio.hdf5.h5group.H5Group.create_from_h5obj", assumed=True, props=[],
    params=dict(cls=Cls("H5Group"), h5obj=OpaqueOf("h5obj")), result=Obj("H5Group"),
    requires=["is_h5group(h5obj)"],
    ensures=["gid(result) == h5obj_id(h5obj)", "gid(result) != 0",
             "field(result, 'pgid') != h5obj_id(h5obj)"],        # a group is not its own parent
    note="a wrapper (parent, last path component) for an existing h5py group object: denotes that very group")


@REG.specfunc()
def linked_distinct(ex, p, g):
    S = p.sigma
    names = S["ord"][g.t]
    i, j = V.fresh("wi", IntS), V.fresh("wj", IntS)
    n = z3.Length(names)
    return VBool(z3.And(
        z3.ForAll([i], z3.Implies(z3.And(0 <= i, i < n), S["link"][g.t][names[i]] != 0)),
        z3.ForAll([i, j], z3.Implies(z3.And(0 <= i, i < n, 0 <= j, j < n, i != j), names[i] != names[j]))))


@REG.specfunc()
def in_ids(ex, p, ids, o):
    """the (decoded) entity_id of object o - read in the PRE-state of the call / loop - is one of ids"""
    se = ex.lookup(p, "__specenv__")
    oldp = se.old if se.old is not None else se.p
    ids = ex.deref(p, ids)
    return VBool(z3.Contains(ids.t, z3.Unit(_eid(oldp, o.t))))


REG.contract(
    "nixio.hdf5.h5group.H5Group.h5obj", assumed=True, props=[],
    params=dict(self=Obj("H5Group")), result=Int, ensures=["result == gid(self)"],
    note="property; `return self.group`. ASSUMED MODEL: an h5py object is represented by the identity of the HDF5 object it "
         "denotes - h5py compares (and hashes) Group / Dataset objects by (file number, object address), so `a == b` / `a in "
         "list` on h5py objects is identity of store objects")


@REG.specfunc()
def is_target(ex, p, targets, o):
    """targets is None (no restriction) or a list holding the store object o"""
    t = ex.deref(p, targets)
    if isinstance(t, VNone):
        return VBool(z3.BoolVal(True))
    if isinstance(t, VTuple):
        t = V.tuple_to_seq(t, Int)
    if isinstance(t, VSeq):
        return VBool(z3.Contains(t.t, z3.Unit(o.t)))
    b = box(t)
    return VBool(z3.Or(Val.is_VNone(b), z3.And(Val.is_VIntSeq(b), z3.Contains(Val.iseq(b), z3.Unit(o.t)))))


SW_G = "h5obj_id(obj)"
REG.contract(
    "nixio.hdf5.h5group.H5Group.delete_all.<locals>.delete_by_id", props=["C04", "C02"],
    params=dict(_=Dyn, obj=OpaqueOf("h5obj"), self=Obj("H5Group"), eid=SeqOf(Dyn), targets=Opt(SeqOf(Int))),
    # store well-formedness of the visited group (assumed HDF5 invariant): its creation-order list holds linked,
    # pairwise different names
    requires=["is_h5group(obj) implies (%s != 0 and linked_distinct(%s))" % (SW_G, SW_G)],
    modifies=["link", "ord"],
    let="G = %s; NM = order(G)" % SW_G,
    raises={"KeyError": ("False", "helper")},
    ensures=[
        # every member of the visited group whose id is to be deleted - and which IS one of the objects to be deleted, not a
        # kept-id copy of one - is unlinked: all of them, not just the first -
        ("sweep.all", "is_h5group(obj) implies all(link(G, NM[j]) == ite_(in_ids(eid, old(link(G, NM[j]))) and "
                      "is_target(targets, old(link(G, NM[j]))), 0, old(link(G, NM[j]))) for j in range(len(NM)))", "prop"),
        # and nothing else anywhere is linked or unlinked
        ("sweep.frame", "only_changed_at('link', G) and only_changed_at('ord', G)", "prop"),
        ("sweep.skip", "(not is_h5group(obj)) implies (unchanged('link') and unchanged('ord'))", "prop")],
    loops={0: dict(var="k", modifies=["link", "ord"],
                   inv=["all(link(G, NM[j]) == ite_(in_ids(eid, old(link(G, NM[j]))) and is_target(targets, old(link(G, NM[j]))), 0, "
                        "old(link(G, NM[j]))) for j in range(k))",
                        "all(link(G, NM[j]) == old(link(G, NM[j])) for j in range(k, len(NM)))",
                        "only_changed_at('link', G) and only_changed_at('ord', G)"])},
    prop_clauses=["sweep.all", "sweep.frame", "sweep.skip"])


# ---- C05: link lists ---------------------------------------------------------------------------------------------------------------------------
BK = "gid(field(self, '_backend'))"
REG.contract(
    "nixio.container.LinkContainer.append#entity", props=["C05", "C12"],
    params=dict(self=Obj("LinkContainer"), item=Obj("Entity")),
    requires=["obj(item) != 0", "is_str(dec(attr(obj(item), 'entity_id')))", "is_str(dec(attr(obj(item), 'name')))",
              "not uuid_text(item)", "is_classval(field(field(self, '_itemstore'), '_itemclass'))",
              # domain: the link list group already exists (the first append creates it lazily; not modelled)
              "%s != 0" % BK],
    modifies=["link", "ord"],
    let="store = field(self, '_itemstore'); iid = as_str(dec(attr(obj(item), 'entity_id')))",
    # a link list accepts only entities of the right kind that ARE members (by identity) of the owning block's container
    raises={"TypeError": ("not inst_of(item, field(store, '_itemclass'))", "prop"),
            "RuntimeError": ("inst_of(item, field(store, '_itemclass')) and not member_by_identity(store, item)", "prop")},
    ensures=[
        # the link is the SAME object as the original (an alias, never a copy), filed under the entity's id
        ("link.same", "link(%s, iid) == old(obj(item))" % BK, "prop"),
        ("link.only", "same(sigma('link'), link_set(old(sigma('link')), %s, iid, old(obj(item))))" % BK, "prop")],
    prop_clauses=["link.same", "link.only", "raises-iff:TypeError", "raises-only:TypeError", "raises-iff:RuntimeError",
                  "raises-only:RuntimeError"])


# ---- C04: clearing a metadata link unlinks exactly that link - never the owning entity -----------------------------------------------------
for _mod, _cls in (("block", "Block"), ("data_array", "DataArray"), ("group", "Group"), ("multi_tag", "MultiTag"),
                   ("source", "Source"), ("tag", "Tag")):
    REG.contract(
        "nixio.%s.%s.metadata.deleter" % (_mod, _cls), props=["C04", "C02"],
        params=dict(self=Obj(_cls)), modifies=["link", "ord"],
        raises={"KeyError": ("False", "helper"), "ValueError": ("False", "helper")},
        let="had = link(obj(self), 'metadata') != 0",
        ensures=[("md.none", "(not had) implies (n_calls('H5Group.delete') == 0 and unchanged('link') and unchanged('ord'))", "prop"),
                 # the one link is removed WITHOUT the delete-if-empty clean-up (which would unlink the entity itself
                 # from its container when `metadata` was its only child)
                 ("md.only", "had implies (n_calls('H5Group.delete') == 1 and arg_of('H5Group.delete', 'id_or_name') == 'metadata' "
                             "and (not arg_of('H5Group.delete', 'delete_if_empty')) and "
                             "arg_of('H5Group.delete', 'self') == field(self, '_h5group'))", "prop"),
                 ("md.nosweep", "n_calls('delete_all') == 0", "prop")],
        prop_clauses=["md.none", "md.only", "md.nosweep"])
