"""Contracts for nixio/data_view.py (property C06; C15 read path)."""
from pyvc.vals import *          # noqa: F401,F403

REG = globals().get("REG")

REG.fields("DataView", _valid=Bool, _slices=Dyn, _error_message=Dyn,
           array=Obj("DataArray"), _h5group=Obj("H5Group"))

WINDOW = "has_bounds(dvslice) and step_is(dvslice, 1) and 0 <= istart(dvslice) and istart(dvslice) <= istop(dvslice)"

REG.contract(
    "nixio.data_view.DataView._transform_coordinates.<locals>.transform_slice", replay=dict(harness="c06_view"),
    props=["C06"],
    params=dict(uslice=Slice, dvslice=Slice, oob=ExcOf("OutOfBounds")),
    requires=[WINDOW],
    let="L = istop(dvslice) - istart(dvslice); (us, ue, st) = indices(uslice, L)",
    result=Slice,
    raises={"ValueError": ("st == 0 or st <= -1", "helper"),          # slice.indices / 'Step must be >= 1'
            "OutOfBounds": ("False", "prop")},                         # a positive-step slice is never refused
    ensures=[("tr.eq", "result == mk_slice(istart(dvslice) + us, istart(dvslice) + ue, st)", "prop"),
             ("tr.lo", "istart(dvslice) <= istart(result)", "prop"),
             ("tr.hi", "istop(result) <= istop(dvslice)", "prop"),
             ("tr.step", "istep(result) >= 1 and has_bounds(result)", "prop")],
    prop_clauses=["tr.eq", "tr.lo", "tr.hi", "tr.step", "raises-only:OutOfBounds", "raises-iff:ValueError",
                  "raises-only:ValueError"],
)

# --------------------------------------------------------------------------
# spec functions (written from the property statement: NumPy basic indexing on a window)
# --------------------------------------------------------------------------
import z3
from pyvc import vals as V
from pyvc.ops import slice_indices

SLICE_NONE = Val.VSliceV(SliceDT.mk_slice(OptI.NoneI, OptI.NoneI, OptI.NoneI))
TC = z3.Function("spec_TC", z3.SeqSort(SliceDT), z3.SeqSort(Val), z3.SeqSort(Val))


def _wparts(w):
    S = OptI.iv(SliceDT.sl_start(w))
    E = OptI.iv(SliceDT.sl_stop(w))
    return S, E, E - S


def _intlike(u):
    return z3.Or(Val.is_VInt(u), Val.is_VBool(u))


def _ival(u):
    return z3.If(Val.is_VBool(u), z3.If(Val.b(u), 1, 0), Val.i(u))


def tr_elem_term(w, u):
    """parent index for user index u inside window w = [S, E): NumPy's a[S:E][u] addressed in a"""
    S, E, L = _wparts(w)
    ui = _ival(u)
    us, ue, st, _ = slice_indices(Val.sl(u), L)
    return z3.If(_intlike(u), Val.VInt(S + z3.If(ui < 0, ui + L, ui)),
                 Val.VSliceV(SliceDT.mk_slice(OptI.SomeI(S + us), OptI.SomeI(S + ue), OptI.SomeI(st))))


def tr_oob_term(w, u):
    S, E, L = _wparts(w)
    ui = _ival(u)
    return z3.And(_intlike(u), z3.Or(ui < -L, ui >= L))


def tr_valerr_term(w, u):
    S, E, L = _wparts(w)
    us, ue, st, _ = slice_indices(Val.sl(u), L)
    return z3.And(z3.Not(_intlike(u)), Val.is_VSliceV(u), st <= 0)


def tr_typeerr_term(u):
    return z3.And(z3.Not(_intlike(u)), z3.Not(Val.is_VSliceV(u)))


from sidecar_a_common import opaque_spec

TR = opaque_spec("tr_elem", [SliceDT, Val], Val, tr_elem_term, VDyn)
TROOB = opaque_spec("tr_oob", [SliceDT, Val], BoolS, tr_oob_term, VBool)
TRVE = opaque_spec("tr_valerr", [SliceDT, Val], BoolS, tr_valerr_term, VBool)
TRTE = opaque_spec("tr_typeerr", [Val], BoolS, tr_typeerr_term, VBool)


@REG.specfunc()
def transform(ex, p, W, E):
    """TC(W, E): the pointwise image of tr_elem over zip(E, W) (defining axioms added per instance)"""
    r = TC(W.t, E.t)
    j = z3.Int("tcj")
    n = z3.If(z3.Length(W.t) < z3.Length(E.t), z3.Length(W.t), z3.Length(E.t))
    p.assume(z3.Length(r) == n)
    p.assume(z3.ForAll([j], z3.Implies(z3.And(j >= 0, j < n), r[j] == TR(W.t[j], E.t[j]))))
    return VSeq(r, Dyn)


def _user_seq(us):
    """the user index as a sequence: a non-iterable index is a 1-tuple"""
    t = box(us)
    return z3.If(Val.is_VValSeq(t), Val.vseq(t), z3.Unit(t))


@REG.specfunc()
def user_tuple(ex, p, us):
    return VSeq(_user_seq(us), Dyn)


@REG.specfunc()
def n_ellipsis_gt1(ex, p, us):
    U = _user_seq(us)
    e = z3.IndexOf(U, z3.Unit(Val.VEllipsis), 0)
    rest = z3.SubSeq(U, e + 1, z3.Length(U) - e - 1)
    return VBool(z3.And(z3.Contains(U, z3.Unit(Val.VEllipsis)), z3.Contains(rest, z3.Unit(Val.VEllipsis))))


@REG.specfunc()
def too_many(ex, p, us, rank):
    """more index entries (not counting the Ellipsis) than dimensions: NumPy raises IndexError"""
    U = _user_seq(us)
    has = z3.Contains(U, z3.Unit(Val.VEllipsis))
    return VBool(z3.Length(U) - z3.If(has, 1, 0) > rank.t)


@REG.specfunc()
def expand(ex, p, us, rank):
    """NumPy index normalisation: the single Ellipsis (or the end) is padded with slice(None) up to rank"""
    U = _user_seq(us)
    ell = z3.Unit(Val.VEllipsis)
    e = z3.IndexOf(U, ell, 0)
    n = z3.Length(U)
    rep0 = ex.bi.repeat_term(p, Dyn, SLICE_NONE, rank.t - n)
    rep1 = ex.bi.repeat_term(p, Dyn, SLICE_NONE, rank.t - n + 1)
    with_e = z3.Concat(z3.SubSeq(U, 0, e), rep1, z3.SubSeq(U, e + 1, n - e - 1))
    return VSeq(z3.If(z3.Contains(U, ell), with_e, z3.Concat(U, rep0)), Dyn)


@REG.specfunc()
def is_index(ex, p, us):
    """index domain of C06: an int / slice / Ellipsis, or a tuple of those"""
    t = box(us)

    def atom(x):
        return z3.Or(Val.is_VInt(x), Val.is_VSliceV(x), Val.is_VEllipsis(x))
    j = V.fresh("ij", IntS)
    return VBool(z3.Or(atom(t), z3.And(Val.is_VValSeq(t),
                                       z3.ForAll([j], z3.Implies(z3.And(j >= 0, j < z3.Length(Val.vseq(t))),
                                                                 atom(Val.vseq(t)[j]))))))


DV_INV = ("field(self, '_valid') implies (is_sliceseq(field(self, '_slices')) and "
          "all(window(s) for s in as_sliceseq(field(self, '_slices'))))")
REG.invariants["DataView"] = [DV_INV]

REG.inline("nixio.data_view.DataView.valid", "nixio.data_view.DataView.debug_message")

REG.contract(
    "nixio.data_view.DataView.data_extent", replay=dict(harness="c06_view", extract=dict(window="as_sliceseq(field(self, '_slices'))")),
    props=["C06"],
    params=dict(self=Obj("DataView")),
    result=Opt(SeqOf(Int)),
    let="W = as_sliceseq(field(self, '_slices'))",
    ensures=[("ext.none", "(not field(self, '_valid')) implies is_none(result)", "helper"),
             ("ext.len", "field(self, '_valid') implies (is_intseq(result) and len(as_intseq(result)) == len(W))", "helper"),
             ("ext.val", "field(self, '_valid') implies all(as_intseq(result)[j] == istop(W[j]) - istart(W[j]) "
                         "for j in range(len(W)))", "prop")],
    prop_clauses=["ext.val"],
)

REG.contract(
    "nixio.data_view.DataView._expand_user_slices", replay=dict(harness="c06_view", extract=dict(window="as_sliceseq(field(self, '_slices'))")),
    props=["C06"],
    params=dict(self=Obj("DataView"), user_slices=Dyn),
    requires=["field(self, '_valid')", "is_index(user_slices)"],
    let="rank = len(as_sliceseq(field(self, '_slices')))",
    result=SeqOf(Dyn),
    raises={"IndexError": ("n_ellipsis_gt1(user_slices) or too_many(user_slices, rank)", "prop")},
    ensures=[("exp.eq", "seq_eq(result, expand(user_slices, rank))", "prop"),
             ("exp.len", "len(result) == rank", "prop")],
    prop_clauses=["exp.eq", "exp.len", "raises-iff:IndexError", "raises-only:IndexError"],
)

REG.contract(
    "nixio.data_view.DataView._transform_coordinates", replay=dict(harness="c06_view", extract=dict(window="as_sliceseq(field(self, '_slices'))")),
    props=["C06"],
    params=dict(self=Obj("DataView"), user_slices=Dyn),
    requires=["field(self, '_valid')", "is_index(user_slices)"],
    let="W = as_sliceseq(field(self, '_slices')); E = expand(user_slices, len(W)); "
        "n = min(len(W), len(E))",
    result=SeqOf(Dyn),
    raises={"IndexError": ("n_ellipsis_gt1(user_slices) or too_many(user_slices, len(W))", "prop"),
            "OutOfBounds": ("any(tr_oob(W[j], E[j]) for j in range(n))", "prop"),
            "ValueError": ("any(tr_valerr(W[j], E[j]) for j in range(n))", "prop"),
            "TypeError": ("any(tr_typeerr(E[j]) for j in range(n))", "helper")},
    ensures=[("tc.eq", "seq_eq(result, transform(W, E))", "prop"),
             ("tc.rank", "len(result) == len(W) and len(E) == len(W)", "prop")],
    loops={0: dict(var="k", cells=dict(tslices=Dyn),
                   reveal=["tr_elem(as_sliceseq(dvslices)[k], user_slices[k])",
                           "tr_oob(as_sliceseq(dvslices)[k], user_slices[k])",
                           "tr_valerr(as_sliceseq(dvslices)[k], user_slices[k])",
                           "tr_typeerr(user_slices[k])"],
                   inv=["len(tslices) == k",
                        "all(tslices[j] == tr_elem(as_sliceseq(dvslices)[j], user_slices[j]) for j in range(k))",
                        "all(not tr_oob(as_sliceseq(dvslices)[j], user_slices[j]) "
                        "and not tr_valerr(as_sliceseq(dvslices)[j], user_slices[j]) "
                        "and not tr_typeerr(user_slices[j]) for j in range(k))"])},
    prop_clauses=["tc.eq", "tc.rank", "raises-only:OutOfBounds", "raises-iff:OutOfBounds", "raises-only:ValueError",
                  "raises-iff:ValueError", "raises-only:IndexError", "raises-iff:IndexError"],
)

# --------------------------------------------------------------------------
# construction, reading and writing through a view
# --------------------------------------------------------------------------
REG.contract(
    "np.array", assumed=True, params=dict(x=Dyn), result=Dyn, ensures=["result == uf('np.array', x)"],
    note="for numeric sequences np.array is modelled as the sequence itself (pyvc/builtins.py b_np_array)")

SLICES_DOMAIN = ("is_none(slices) or (is_valseq(slices) and all(is_none(s) or (is_slice(s) and has_bounds(as_slice(s)) "
                 "and step_none(as_slice(s))) for s in as_valseq(slices)))")


@REG.specfunc()
def step_none(ex, p, sl):
    return VBool(OptI.is_NoneI(SliceDT.sl_step(sl.t)))


REG.contract(
    "nixio.data_view.DataView.__init__", replay=dict(harness="c06_view"), props=["C06"],
    params=dict(self=Obj("DataView"), da=Obj("DataArray"), slices=Dyn),
    requires=[SLICES_DOMAIN, "obj(da) != 0", "dataset_of(da) != 0"],
    let="N = dshape(dataset_of(da)); S = as_valseq(slices)",
    modifies=["heap._valid@self", "heap._slices@self", "heap._error_message@self", "heap.array@self",
              "heap._h5group@self"],
    ensures=[
        # property: a view is valid exactly when its window lies inside the array
        ("v.iff", "field(self, '_valid') == (not is_none(slices) and all(not is_none(s) for s in S) and len(S) == len(N) "
                  "and all(0 <= istart(as_slice(S[j])) and istart(as_slice(S[j])) <= istop(as_slice(S[j])) "
                  "and istop(as_slice(S[j])) <= N[j] for j in range(len(S))))", "prop"),
        ("v.win", "field(self, '_valid') implies (is_sliceseq(field(self, '_slices')) and "
                  "len(as_sliceseq(field(self, '_slices'))) == len(N) and "
                  "all(as_sliceseq(field(self, '_slices'))[j] == mk_slice(istart(as_slice(S[j])), istop(as_slice(S[j])), 1) "
                  "for j in range(len(N))))", "prop"),
        ("v.arr", "field(self, 'array') == da and field(self, '_h5group') == field(da, '_h5group')", "helper"),
    ],
    prop_clauses=["v.iff", "v.win"])

REG.contract(
    "nixio.data_array.DataArray._read_data", assumed=True, props=[],
    params=dict(self=Obj("DataArray"), sl=Dyn), defaults=dict(sl=NONE), result=Dyn,
    requires=["obj(self) != 0", "dataset_of(self) != 0"],
    raises={"IndexError": ("h5_refuses(dataset_of(self), sl)", "helper")},
    ensures=["result == da_read(self, sl)"],
    note="verified separately under C15 (calibrated read); here only its functional summary is used")


@REG.specfunc()
def da_read(ex, p, da, idx):
    """what DataArray._read_data returns for index idx in the current store (defined under C15)"""
    from sidecar_b_store import dataset_of
    from sidecar_a_common import obj
    ds = dataset_of(ex, p, da)
    o = obj(ex, p, da)
    f = z3.Function("spec_da_read_calibrated", IntS, IntS, p.sigma["data"].sort(), p.sigma["attr"].sort(),
                    p.sigma["link"].sort(), Val, Val)
    return VDyn(f(o.t, ds.t, p.sigma["data"], p.sigma["attr"], p.sigma["link"], box(ex.deref(p, idx))))


DV_OK = ["obj(field(self, 'array')) != 0", "dataset_of(field(self, 'array')) != 0",
         "field(self, '_h5group') == field(field(self, 'array'), '_h5group')"]

REG.contract(
    "nixio.data_view.DataView._read_data", replay=dict(harness="c06_view", extract=dict(window="as_sliceseq(field(self, '_slices'))")),
    props=["C06", "C15"],
    params=dict(self=Obj("DataView"), sl=Dyn),
    requires=DV_OK + ["is_none(sl) or is_index(sl)"],
    let="W = as_sliceseq(field(self, '_slices')); E = expand(sl, len(W)); n = min(len(W), len(E)); A = field(self, 'array')",
    result=Dyn,
    raises={"IndexError": ("field(self, '_valid') and not is_none(sl) and (n_ellipsis_gt1(sl) or too_many(sl, len(W)))", "prop"),
            "OutOfBounds": ("field(self, '_valid') and not is_none(sl) and any(tr_oob(W[j], E[j]) for j in range(n))", "prop"),
            "ValueError": ("field(self, '_valid') and not is_none(sl) and any(tr_valerr(W[j], E[j]) for j in range(n))", "prop"),
            "TypeError": ("field(self, '_valid') and not is_none(sl) and any(tr_typeerr(E[j]) for j in range(n))", "helper"),
            "IndexError#h5": ("field(self, '_valid') and h5_refuses(dataset_of(A), ite_(is_none(sl), field(self, '_slices'), "
                              "boxed(transform(W, E))))", "helper")},
    ensures=[("rd.invalid", "(not field(self, '_valid')) implies result == uf('np.array', boxed(()))", "prop"),
             ("rd.whole", "(field(self, '_valid') and is_none(sl)) implies result == da_read(A, field(self, '_slices'))", "prop"),
             ("rd.index", "(field(self, '_valid') and not is_none(sl)) implies "
                          "result == da_read(A, boxed(transform(W, E)))", "prop")],
    prop_clauses=["rd.invalid", "rd.whole", "rd.index", "raises-only:OutOfBounds", "raises-iff:OutOfBounds",
                  "raises-only:IndexError", "raises-iff:IndexError"])

REG.contract(
    "nixio.data_view.DataView._write_data", replay=dict(harness="c06_view", extract=dict(window="as_sliceseq(field(self, '_slices'))")),
    props=["C06"],
    params=dict(self=Obj("DataView"), data=Dyn, sl=Dyn),
    requires=DV_OK + ["is_none(sl) or is_index(sl)"],
    let="W = as_sliceseq(field(self, '_slices')); E = expand(sl, len(W)); n = min(len(W), len(E)); A = field(self, 'array'); "
        "T = ite_(is_none(sl), field(self, '_slices'), boxed(transform(W, E)))",
    modifies=["data"],
    raises={"InvalidSlice": ("not field(self, '_valid')", "prop"),
            "IndexError": ("field(self, '_valid') and not is_none(sl) and (n_ellipsis_gt1(sl) or too_many(sl, len(W)))", "prop"),
            "OutOfBounds": ("field(self, '_valid') and not is_none(sl) and any(tr_oob(W[j], E[j]) for j in range(n))", "prop"),
            "ValueError": ("field(self, '_valid') and not is_none(sl) and any(tr_valerr(W[j], E[j]) for j in range(n))", "prop"),
            "TypeError": ("field(self, '_valid') and not is_none(sl) and any(tr_typeerr(E[j]) for j in range(n))", "helper"),
            "TypeError#conv": ("field(self, '_valid') and h5_refuses_write(dataset_of(A), T, data)", "helper")},
    # property: assigning through a view changes exactly the addressed elements of the underlying array
    ensures=[("wr.addr", "same(sigma('data'), store_data(old(sigma('data')), dataset_of(A), "
                         "ds_write(old(ddata(dataset_of(A))), T, data)))", "prop")],
    prop_clauses=["wr.addr", "raises-only:OutOfBounds", "raises-iff:OutOfBounds", "raises-iff:InvalidSlice",
                  "raises-only:InvalidSlice"])
