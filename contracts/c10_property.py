"""C10 - typed value lists of odML properties (nixio/datatype.py, property.py, section.py).

Property clauses (from the statement): a value is classified by its Python type with bool tested before int (True is
never an integer); a list is accepted only if EVERY element has the data type of the property (of the first element
when the property is being created), otherwise the call is refused and the stored values stay exactly as they were;
accepted values are what is written; extend = old ++ new.
"""
import ast as _ast
import z3
from pyvc.vals import *          # noqa: F401,F403
from pyvc import vals as V

REG = globals().get("REG")

REG.fields("Property", _h5dataset=Obj("H5DataSet"))

SUPPORTED = "(is_bool({0}) or is_int({0}) or is_real({0}) or is_str({0}))"
DTYPE_OF = ("ite_(is_bool({0}), boxed(DataType.Bool), ite_(is_int({0}), boxed(DataType.Int64), "
            "ite_(is_real({0}), boxed(DataType.Double), boxed(DataType.String))))")

REG.contract(
    "nixio.datatype.DataType.get_dtype", props=["C10"],
    params=dict(cls=Cls("DataType"), value=Dyn), result=Dyn,
    raises={"ValueError": ("not %s" % SUPPORTED.format("value"), "prop")},
    # bool before int: True / False are Bool, never Int64
    ensures=[("dtype", "result == %s" % DTYPE_OF.format("value"), "prop")],
    prop_clauses=["dtype", "raises-iff:ValueError", "raises-only:ValueError"])


@REG.specfunc()
def dtype_of(ex, p, v):
    """data type of a single supported value (the specification of DataType.get_dtype, from the property statement)"""
    se = ex.lookup(p, "__specenv__")
    t = box(ex.deref(p, v))

    def const(name):
        return box(ex.deref(p, se._eval(_ast.parse("DataType." + name, mode="eval").body, p)))
    return VDyn(z3.If(Val.is_VBool(t), const("Bool"), z3.If(Val.is_VInt(t), const("Int64"),
                z3.If(Val.is_VReal(t), const("Double"), const("String")))))


@REG.specfunc()
def supported(ex, p, v):
    t = box(ex.deref(p, v))
    return VBool(z3.Or(Val.is_VBool(t), Val.is_VInt(t), Val.is_VReal(t), Val.is_VStr(t)))


# ---- assumed h5py wrapper contracts -------------------------------------------------------------------------------------
REG.contract(
    "nixio.hdf5.h5dataset.H5DataSet.dtype", assumed=True,
    params=dict(self=Obj("H5DataSet")), result=Dyn, ensures=["result == ddtype(gid(self))"],
    note="element type of the dataset (vlen text reported as DataType.String)")

REG.contract(
    "nixio.hdf5.h5dataset.H5DataSet.shape.setter", assumed=True,
    params=dict(self=Obj("H5DataSet"), shape=SeqOf(Int)), modifies=["dshape", "data"],
    ensures=["same(sigma('dshape'), shape_set(old(sigma('dshape')), gid(self), shape))",
             "same(sigma('data'), store_data(old(sigma('data')), gid(self), "
             "uf('h5.resized', old(ddata(gid(self))), boxed(shape))))"],
    note="Dataset.resize(shape): elements inside both extents keep their index and value; every other dataset untouched")

REG.contract("np.shape", assumed=True, params=dict(x=Dyn), result=SeqOf(Int),
             ensures=["is_valseq(x) implies seq_eq(result, (len(as_valseq(x)),))"],
             note="np.shape of a flat Python sequence is (len,)")
REG.contract("six.ensure_text", assumed=True, params=dict(s=Dyn), result=Dyn, result_expr="s",
             note="text stays text (py2 compatibility shim)")


@REG.specfunc()
def shape_set(ex, p, m, o, shp):
    shp = ex.deref(p, shp)
    st = tuple_to_seq(shp, Int).t if isinstance(shp, VTuple) else shp.t
    return sidecar_a_common.VOpaqueTerm(z3.Store(m.t, o.t, st))


import sidecar_a_common      # noqa: E402

_H5REFW = z3.Function("h5_refuses_write", IntS, z3.SeqSort(IntS), Val, Val, Val, BoolS)


@REG.specfunc()
def accepts_checked_values(ex, p, ds):
    """assumed (trusted base): h5py does not refuse writing values that passed nixio's type check into a property
    dataset, whatever its current extent"""
    shp, idx, d = V.fresh("ws", z3.SeqSort(IntS)), V.fresh("wi", Val), V.fresh("wd", Val)
    return VBool(z3.ForAll([shp, idx, d], z3.Not(_H5REFW(ds.t, shp, p.sigma["dtype"][ds.t], idx, d))))


PROP_OK = ["obj(self) != 0", "field(self, '_h5dataset') == field(self, '_h5group')"]
DS = "obj(self)"
DATA_DOMAIN = "is_valseq(data) or %s" % SUPPORTED.format("data")
ELEMS = "ite_(is_valseq(data), as_valseq(data), as_valseq(boxed((data,))))"
ALL_OK = "all(supported(E[j]) and dtype_of(E[j]) == ddtype(%s) for j in range(len(E)))" % DS

REG.inline("nixio.property.Property.data_type")
REG.contract("nixio.property.Property._check_new_value_types.<locals>.check_prop_consistent", inline=True)
REG.contract(
    "nixio.property.Property._check_new_value_types.<locals>.check_new_data_consistent", inline=True,
    loops={0: dict(var="k", inv=["all(supported(as_valseq(boxed(data))[j]) and dtype_of(as_valseq(boxed(data))[j]) == vtype "
                                 "for j in range(k))"])})
REG.inline("nixio.property.Property._check_new_value_types.<locals>.check_prop_consistent",
           "nixio.property.Property._check_new_value_types.<locals>.check_new_data_consistent")

REG.contract(
    "nixio.property.Property._check_new_value_types", props=["C10"],
    params=dict(self=Obj("Property"), data=Dyn), result=Dyn,
    requires=PROP_OK + [DATA_DOMAIN],
    let="E = %s" % ELEMS,
    raises={"IndexError": ("is_valseq(data) and len(as_valseq(data)) == 0", "helper"),
            # refused exactly when some element is not of the property's data type (unsupported kinds included)
            "TypeError": ("len(E) > 0 and not %s" % ALL_OK, "prop"),
            "ValueError": ("len(E) > 0 and not %s" % ALL_OK, "prop")},
    ensures=[("chk.type", "result == ddtype(%s)" % DS, "prop"),
             ("chk.all", ALL_OK, "prop")],
    prop_clauses=["chk.type", "chk.all", "raises-iff:TypeError", "raises-only:TypeError", "raises-only:ValueError"])

# ---- Property.values (set / delete / extend) ------------------------------------------------------------------------------
VALS_DOMAIN = "is_none(vals) or is_valseq(vals) or %s" % SUPPORTED.format("vals")
VEMPTY = ("(is_none(vals) or (is_valseq(vals) and len(as_valseq(vals)) == 0) or "
          "(is_str(vals) and len(as_str(vals)) == 0))")
VELEMS = "ite_(is_valseq(vals), as_valseq(vals), as_valseq(boxed((vals,))))"
VALL_OK = "all(supported(E[j]) and dtype_of(E[j]) == old(ddtype(%s)) for j in range(len(E)))" % DS

REG.contract(
    "nixio.property.Property.delete_values", props=["C10"],
    params=dict(self=Obj("Property")), requires=PROP_OK, modifies=["dshape", "data"],
    ensures=[("del.shape", "seq_eq(dshape(%s), (0,))" % DS, "prop"),
             ("del.frame", "only_changed_at('dshape', %s) and only_changed_at('data', %s)" % (DS, DS), "prop")],
    prop_clauses=["del.shape", "del.frame"])

REG.contract(
    "nixio.property.Property.values.setter", props=["C10", "C12"],
    params=dict(self=Obj("Property"), vals=Dyn),
    requires=PROP_OK + [VALS_DOMAIN, "accepts_checked_values(%s)" % DS],
    modifies=["dshape", "data"],
    let="E = %s; empty = %s" % (VELEMS, VEMPTY),
    # refused exactly when some value is not of the property's data type - and then nothing is written (the automatic
    # `atomic:` obligations on every raising path: the stored values and the extent are those of the pre-state)
    raises={"TypeError": ("(not empty) and not %s" % VALL_OK, "prop"),
            "ValueError": ("(not empty) and not %s" % VALL_OK, "prop")},
    ensures=[("set.empty", "empty implies seq_eq(dshape(%s), (0,))" % DS, "prop"),
             ("set.shape", "(not empty) implies seq_eq(dshape(%s), (len(E),))" % DS, "prop"),
             # what is stored is exactly the given list (after the extent was set to its length)
             ("set.data", "(not empty) implies ddata({0}) == ds_write(uf('h5.resized', old(ddata({0})), boxed((len(E),))), "
                          "None, uf('np.array', boxed(E)))".format(DS), "prop"),
             ("set.frame", "only_changed_at('dshape', %s) and only_changed_at('data', %s)" % (DS, DS), "prop")],
    prop_clauses=["set.empty", "set.shape", "set.data", "set.frame", "raises-iff:TypeError", "raises-only:TypeError",
                  "raises-only:ValueError", "atomic:dshape", "atomic:data"])

REG.contract(
    "nixio.property.Property.values", assumed=True, props=[],
    params=dict(self=Obj("Property")), result=SeqOf(Dyn),
    requires=["len(dshape(%s)) == 1" % DS],
    ensures=["len(result) == dshape(%s)[0]" % DS, "result == as_valseq(uf('prop.values', ddata(%s), boxed(dshape(%s))))" % (DS, DS)],
    note="values getter of a current-format (>= 1.1.1) property: the 1-D dataset content as a tuple (summary; the getter "
         "reads raw h5py objects and is not verified)")
REG.contract("opaque.flatten", assumed=True, params=dict(self=OpaqueT, order=Dyn), result=OpaqueT,
             ensures=["result == opq(uf('np.flatten', self))"])
REG.contract("opaque.__len__", assumed=True, params=dict(self=OpaqueT), result=Int,
             ensures=["result == uf_int('np.len', self)", "result >= 0"])

XELEMS = "ite_(is_valseq(data), as_valseq(data), as_valseq(boxed((data,))))"
XALL_OK = "all(supported(E[j]) and dtype_of(E[j]) == old(ddtype(%s)) for j in range(len(E)))" % DS
ARR = "opq(uf('np.flatten', np_array(data)))"

REG.contract(
    "nixio.property.Property.extend_values", props=["C10", "C12"], note="np.array:opaque",
    params=dict(self=Obj("Property"), data=Dyn),
    requires=PROP_OK + [DATA_DOMAIN, "accepts_checked_values(%s)" % DS, "len(dshape(%s)) == 1 and dshape(%s)[0] >= 0" % (DS, DS),
                        # assumed numpy fact: a flat list of n values becomes a 1-D array of n elements
                        "uf_int('np.len', %s) == len(%s)" % (ARR, XELEMS)],
    modifies=["dshape", "data"],
    let="E = %s; n0 = old(dshape(%s))[0]" % (XELEMS, DS),
    raises={"IndexError": ("is_valseq(data) and len(as_valseq(data)) == 0", "helper"),
            "TypeError": ("len(E) > 0 and not %s" % XALL_OK, "prop"),
            "ValueError": ("len(E) > 0 and not %s" % XALL_OK, "prop")},
    # extend = old ++ new: the extent grows by len(new) and the new values are written right behind the old ones
    ensures=[("ext.shape", "seq_eq(dshape(%s), (n0 + len(E),))" % DS, "prop"),
             ("ext.data", "ddata({0}) == ds_write(uf('h5.resized', old(ddata({0})), boxed((n0 + len(E),))), "
                          "mk_slice(n0, n0 + len(E), None), {1})".format(DS, ARR), "prop"),
             ("ext.frame", "only_changed_at('dshape', %s) and only_changed_at('data', %s)" % (DS, DS), "prop")],
    prop_clauses=["ext.shape", "ext.data", "ext.frame", "raises-iff:TypeError", "raises-only:TypeError", "raises-only:ValueError",
                  "atomic:dshape", "atomic:data"])

# ---- Section.create_property (values given) ----------------------------------------------------------------------------------
NEW_MODS = ["link", "ord", "kind", "fresh", "attr", "dshape", "dtype", "data", "clock", "heap._h5group@new", "heap._h5dataset@new",
            "heap._file@new", "heap._parent@new"]


@REG.specfunc()
def name_ok(ex, p, n):
    """a legal entity name: not empty, no '/' (util.check_entity_name / names.check)"""
    t = n.t
    return VBool(z3.And(z3.Length(t) > 0, z3.Not(z3.Contains(t, z3.StringVal("/")))))


REG.contract(
    "nixio.property.Property.create_new", assumed=True, props=[],
    note="fresh_result; summary of the creation of a property dataset (name check, create_dataset, name / entity_id / "
         "timestamps attributes): not verified here",
    params=dict(cls=Cls("Property"), nixfile=Obj("File"), nixparent=Dyn, h5parent=Obj("H5Group"), name=Str, dtype=Dyn,
                shape=SeqOf(Int), oid=Dyn),
    defaults=dict(shape=NONE, oid=NONE), result=Obj("Property"),
    requires=["gid(h5parent) != 0", "link(gid(h5parent), name) == 0", "len(shape) == 1"],
    modifies=NEW_MODS, let="g = gid(h5parent); d = old(freshid()); shp = ite_(shape[0] == 0, (8,), shape)",
    raises={"ValueError": ("not name_ok(name)", "helper")},
    ensures=["same(sigma('link'), link_set(old(sigma('link')), g, name, d))",
             "same(sigma('ord'), ord_set(old(sigma('ord')), g, old(order(g)) + (name,)))",
             "freshid() == d + 1 and okind(d) == 2 and only_changed_at('kind', d)",
             "only_changed_at('dshape', d) and only_changed_at('dtype', d) and only_changed_at('data', d) and "
             "only_changed_at('attr', d)",
             "ddtype(d) == dtype and seq_eq(dshape(d), shp) and ddata(d) == uf('h5.empty', boxed(shp), dtype)",
             "dec(attr(d, 'name')) == boxed(name)",
             "field(result, '_h5group') == child(g, name) and field(result, '_h5dataset') == child(g, name) and "
             "field(result, '_file') == nixfile",
             "obj(result) == d", "accepts_checked_values(d)"])

CP_ELEMS = "ite_(is_valseq(values_or_dtype), as_valseq(values_or_dtype), as_valseq(boxed((values_or_dtype,))))"
CP_EMPTY = ("(is_none(values_or_dtype) or (is_valseq(values_or_dtype) and len(as_valseq(values_or_dtype)) == 0) or "
            "(is_str(values_or_dtype) and len(as_str(values_or_dtype)) == 0))")
CP_ALL_OK = "all(supported(E[j]) and dtype_of(E[j]) == dtype_of(E[0]) for j in range(len(E)))"
PROPS_G = "link(obj(self), 'properties')"

REG.contract(
    "nixio.section.Section.create_property", props=["C10", "C12", "C03"],
    params=dict(self=Obj("Section"), name=Str, values_or_dtype=Dyn, oid=Dyn, copy_from=Dyn, keep_copy_id=Bool),
    result=Obj("Property"), note="fresh_result",
    requires=["is_none(copy_from)",
              "is_none(values_or_dtype) or is_valseq(values_or_dtype) or %s" % SUPPORTED.format("values_or_dtype"),
              # domain: the section already has its (possibly empty) property list group
              "%s != 0 and %s < freshid() and okind(%s) == 1" % (PROPS_G, PROPS_G, PROPS_G),
              "field(field(self, '_h5group'), 'pgid') != obj(self)"],
    modifies=NEW_MODS,
    let="E = %s; empty = %s; g = old(%s); d = old(freshid())" % (CP_ELEMS, CP_EMPTY, PROPS_G),
    raises={"DuplicateName": ("link(g, name) != 0", "prop"),
            # a value list is refused unless EVERY element has the type of the first (bool is not int)
            "TypeError": ("link(g, name) == 0 and (empty or not %s)" % CP_ALL_OK, "prop"),
            "ValueError": ("link(g, name) == 0 and ((not empty and not %s) or not name_ok(name))" % CP_ALL_OK, "prop")},
    ensures=[("new.where", "obj(result) == d and link(g, name) == d", "prop"),
             ("new.type", "ddtype(d) == dtype_of(E[0])", "prop"),
             ("new.shape", "seq_eq(dshape(d), (len(E),))", "prop"),
             ("new.data", "ddata(d) == ds_write(uf('h5.resized', uf('h5.empty', boxed((len(E),)), dtype_of(E[0])), "
                          "boxed((len(E),))), None, uf('np.array', boxed(E)))", "prop")],
    loops={0: dict(var="k", inv=["all(supported(as_valseq(boxed(vals))[j]) and dtype_of(as_valseq(boxed(vals))[j]) == dtype "
                                 "for j in range(k))"])},
    prop_clauses=["new.where", "new.type", "new.shape", "new.data", "raises-iff:DuplicateName", "raises-only:DuplicateName",
                  "raises-iff:TypeError", "raises-only:TypeError", "raises-only:ValueError"])
