"""C08 - tagged data: unit conversion of tag coordinates and the slice / bounds decisions (nixio/tag.py).

Proved: BaseTag._scale_position for each descriptor kind - the factor is units.scaling(tag unit, dimension unit) when
both are given, 1 when the tag has no unit (and for set dimensions); IncompatibleDimensions exactly when the tag has
a unit and the dimension has none / the units are not convertible / a set dimension gets a unit other than "none" -
and BaseTag._slices_in_data (a region is inside the data iff no entry is empty and every stop is within the extent).
The position -> index conversion itself is property C07, the view semantics C06, the factor C09.
"""
import z3
from pyvc.vals import *          # noqa: F401,F403
from pyvc import vals as V
import sidecar_c09_units as c09

REG = globals().get("REG")

DTYPE_ATTR = "dec(attr(obj(dim), 'dimension_type'))"
FACTOR = ("ite_(split_w(a) == '', div_exact(factor(split_p(a)), factor(split_p(b))), "
          "rpow(div_exact(factor(split_p(a)), factor(split_p(b))), str_to_int(split_w(a))))")
PFX_OK = ["(not is_str(unit)) or split_p(as_str(unit)) == '' or any(split_p(as_str(unit)) == x for x in PFX_LIST)",
          "(not is_str(du)) or split_p(as_str(du)) == '' or any(split_p(as_str(du)) == x for x in PFX_LIST)"]
RES = TupleOf(Real, Real)
import re as _re
SCALABLE8 = _re.sub(r"\b(PREFIXES|UNITS|POWER)\b", lambda m: "util.units." + m.group(1), c09.SCALABLE)

for _tag, _cls, _kind, _du in (("sampled", "SampledDimension", "sample", "dec(attr(obj(dim), 'unit'))"),
                               ("range", "RangeDimension", "range", "range_unit(dim)")):
    REG.contract(
        "nixio.tag.BaseTag._scale_position#%s" % _tag, props=["C08"],
        params=dict(pos=Real, unit=Dyn, dim=Obj(_cls)), result=RES,
        let="du = %s; a = as_str(unit); b = as_str(du); both = is_str(unit) and is_str(du)" % _du,
        requires=["obj(dim) != 0", "%s == '%s'" % (DTYPE_ATTR, _kind), "is_none(unit) or is_str(unit)",
                  "is_none(du) or is_str(du)"] + PFX_OK,
        # a position with a unit cannot be applied to a dimension without one, nor to one with an inconvertible unit
        raises={"IncompatibleDimensions": ("(is_none(du) and is_str(unit)) or (both and not %s)" % SCALABLE8, "prop")},
        ensures=[("scale.k", "result[1] == ite_(both, %s, 1.0)" % FACTOR, "prop"),
                 ("scale.pos", "result[0] == rmul(pos, result[1])", "prop")],
        prop_clauses=["scale.k", "scale.pos", "raises-iff:IncompatibleDimensions", "raises-only:IncompatibleDimensions"])

REG.contract(
    "nixio.tag.BaseTag._scale_position#set", props=["C08"],
    params=dict(pos=Real, unit=Dyn, dim=Obj("SetDimension")), result=RES,
    requires=["obj(dim) != 0", "%s == 'set'" % DTYPE_ATTR, "is_none(unit) or is_str(unit)"],
    raises={"IncompatibleDimensions": ("truthy(unit) and as_str(unit) != 'none'", "prop")},
    ensures=[("scale.k", "result[1] == 1.0", "prop"), ("scale.pos", "result[0] == pos", "prop")],
    prop_clauses=["scale.k", "scale.pos", "raises-iff:IncompatibleDimensions", "raises-only:IncompatibleDimensions"])


@REG.specfunc()
def rmul(ex, p, a, b):
    """the executor's product of two reals (exact when one factor is a numeral)"""
    return ex.bi.mul(ex, "real", to_real(a), to_real(b), p)


REG.inline("nixio.dimensions.Dimension.dimension_type")

# ---- region inside the data? ----------------------------------------------------------------------------------------------------
REG.contract(
    "nixio.tag.BaseTag._slices_in_data", props=["C08"], note="truthy_result",
    params=dict(data=Obj("DataArray"), slices=Dyn), result=Bool,
    requires=["obj(data) != 0", "dataset_of(data) != 0", "is_none(slices) or is_valseq(slices)",
              "is_none(slices) or len(as_valseq(slices)) == len(dshape(dataset_of(data)))",
              "is_none(slices) or all(is_none(as_valseq(slices)[j]) or (is_slice(as_valseq(slices)[j]) and "
              "has_bounds(as_slice(as_valseq(slices)[j]))) for j in range(len(as_valseq(slices))))"],
    let="S = as_valseq(slices); N = dshape(dataset_of(data))",
    ensures=[("in.none", "(is_none(slices) or any(is_none(S[j]) for j in range(len(S)))) implies not result", "prop"),
             # inside the data <=> every stop lies within the extent of its dimension
             ("in.iff", "((not is_none(slices)) and not any(is_none(S[j]) for j in range(len(S)))) implies "
                        "(result == all(istop(as_slice(S[j])) <= N[j] for j in range(len(S))))", "prop")],
    prop_clauses=["in.none", "in.iff"])


REG.contract("np.less_equal", assumed=True, params=dict(a=SeqOf(Dyn), b=SeqOf(Int)), result=SeqOf(Bool),
             requires=["len(a) == len(b)", "all(is_int(a[j]) for j in range(len(a)))"],
             ensures=["len(result) == len(a)", "all(result[j] == (as_int(a[j]) <= b[j]) for j in range(len(a)))"],
             note="elementwise <= of two equally long integer vectors")
REG.contract("np.all", assumed=True, params=dict(a=SeqOf(Bool)), result=Bool,
             ensures=["result == all(a[j] for j in range(len(a)))"])


# ---------------------------------------------------------------------------------------------------------
# BaseTag._calc_data_slices: per dimension, the region handed to the descriptor and the slice built from its answer
# ---------------------------------------------------------------------------------------------------------
# Descriptors are abstract here (class name `Dimension`): their three implementations are verified against the
# order-theoretic specification under C07; this unit only needs that range_indices is a function of the descriptor
# and its arguments.
_DIMS = z3.Function("spec_dims_of", IntS, z3.SeqSort(IntS))
_DRANGE = z3.Function("spec_dim_range", IntS, RealS, RealS, IntS, Val)
_SCALE_K = z3.Function("spec_scale_k", Val, IntS, RealS)
_SCALE_BAD = z3.Function("spec_scale_refused", Val, IntS, BoolS)
_TAGUNITS = z3.Function("spec_tag_units", IntS, z3.SeqSort(StrS))
REG.fields("BaseTag", _references=Dyn, _features=Dyn)


@REG.specfunc()
def dims_of(ex, p, da):
    return VSeq(_DIMS(da.t), Obj("Dimension"))


@REG.specfunc()
def dim_range(ex, p, d, a, b, m):
    return VDyn(_DRANGE(d.t, to_real(a), to_real(b), m.t))


@REG.specfunc()
def scale_k(ex, p, unit, d):
    return VReal(_SCALE_K(box(ex.deref(p, unit)), d.t))


@REG.specfunc()
def scale_refused(ex, p, unit, d):
    return VBool(_SCALE_BAD(box(ex.deref(p, unit)), d.t))


@REG.specfunc()
def tag_units(ex, p, tag):
    return VSeq(_TAGUNITS(tag.t), Str)


REG.contract("nixio.data_array.DataArray.dimensions", assumed=True, props=[],
             params=dict(self=Obj("DataArray")), result=SeqOf(Obj("Dimension")),
             ensures=["result == dims_of(self)"], note="the descriptors of the array, in index order (summary)")
REG.contract("Dimension.range_indices", assumed=True, props=[],
             params=dict(self=Obj("Dimension"), start_position=Real, end_position=Real, mode=Enum("SliceMode")), result=Dyn,
             ensures=["result == dim_range(self, start_position, end_position, mode)",
                      "is_none(result) or (is_intseq(result) and len(as_intseq(result)) == 2)"],
             note="summary of the three range_indices implementations (verified under C07)")
REG.contract("nixio.tag.BaseTag._scale_position", assumed=True, props=[],
             params=dict(pos=Real, unit=Dyn, dim=Obj("Dimension")), result=TupleOf(Real, Real),
             raises={"IncompatibleDimensions": ("scale_refused(unit, dim)", "helper")},
             ensures=["result[1] == scale_k(unit, dim)", "result[0] == rmul(pos, result[1])"],
             note="summary; verified per descriptor kind as _scale_position#sampled / #range / #set")
REG.contract("nixio.tag.BaseTag.units", assumed=True, props=[], params=dict(self=Obj("BaseTag")), result=SeqOf(Str),
             ensures=["result == tag_units(self)"], note="units getter (summary)")


def _exp_slice(ex, p, env, j):
    """the entry for dimension j, written from the property statement (term-level, j may be a bound variable)"""
    names = V.ENUM_MEMBERS["SliceMode"]
    incl, = [z3.IntVal(names.index("Inclusive"))]
    pos, ext, units, dims, N, stop_rule = env
    U = z3.If(z3.Length(units) == 0, Val.VNone, Val.VStr(units[j]))
    d = dims[j]
    k = _SCALE_K(U, d)
    OM = OpsMixin.RMUL
    sp = OM(pos[j], k)
    has_ext = z3.And(Val.is_VRealSeq(ext), j < z3.Length(Val.rseq(ext)))
    e = Val.rseq(ext)[j]
    stop = z3.If(has_ext, OM(e, k) + sp, sp)
    mode = z3.If(z3.And(has_ext, e > 0), stop_rule, incl)
    ri = _DRANGE(d, sp, stop, mode)
    sl = Val.VSliceV(SliceDT.mk_slice(OptI.SomeI(Val.iseq(ri)[0]), OptI.SomeI(Val.iseq(ri)[1] + 1), OptI.NoneI))
    tagged = z3.If(Val.is_VNone(ri), Val.VNone, sl)
    whole = Val.VSliceV(SliceDT.mk_slice(OptI.SomeI(z3.IntVal(0)), OptI.SomeI(N[j]), OptI.NoneI))
    return z3.If(j < z3.Length(pos), tagged, whole)


from pyvc.ops import OpsMixin     # noqa: E402


@REG.specfunc()
def exp_slice(ex, p, position, extent, units, data, stop_rule, j):
    from sidecar_b_store import dataset_of
    ds = dataset_of(ex, p, data)
    env = (position.t, box(ex.deref(p, extent)), units.t, _DIMS(data.t), p.sigma["dshape"][ds.t], stop_rule.t)
    return VDyn(_exp_slice(ex, p, env, j.t))


@REG.specfunc()
def unit_at(ex, p, units, j):
    return VDyn(z3.If(z3.Length(units.t) == 0, Val.VNone, Val.VStr(units.t[j.t])))


CDS_LET = ("TU = tag_units(self); D = dims_of(data); nd = len(D); np_ = ite_(len(position) < nd, len(position), nd)")
REG.contract(
    "nixio.tag.BaseTag._calc_data_slices", props=["C08"],
    params=dict(self=Obj("BaseTag"), data=Obj("DataArray"), position=SeqOf(Real), extent=Dyn, stop_rule=Enum("SliceMode")),
    result=SeqOf(Dyn),
    requires=["obj(data) != 0", "dataset_of(data) != 0", "is_none(extent) or is_realseq(extent)",
              "len(dshape(dataset_of(data))) == len(dims_of(data))",
              # domain of the property: a tag that has units has one per position entry
              "len(tag_units(self)) == 0 or len(tag_units(self)) >= len(position)"],
    let=CDS_LET,
    raises={"IncompatibleDimensions": ("any(scale_refused(unit_at(TU, j), D[j]) for j in range(np_))", "prop")},
    ensures=[("sl.len", "len(result) == nd", "prop"),
             # per dimension: start = position * k, end = start + extent * k (closed or half-open as requested when the
             # extent is positive, the exact position otherwise), entry = None if the descriptor finds no sample in
             # the region, else slice(first, last + 1); dimensions beyond the position are taken whole
             ("sl.each", "all(result[j] == exp_slice(position, extent, TU, data, stop_rule, j) for j in range(nd))", "prop")],
    loops={0: dict(var="k", cells=dict(refslice=Dyn),
                   vars=dict(start_pos=Real, scaling=Real, stop_pos=Real, slice_mode=Enum("SliceMode"), range_indices=Dyn,
                             start_index=Int, stop_index=Int),
                   inv=["len(refslice) == k",
                        "all(refslice[j] == exp_slice(position, extent, TU, data, stop_rule, j) for j in range(k))",
                        "all((not scale_refused(unit_at(TU, j), D[j])) or j >= len(position) for j in range(k))"])},
    prop_clauses=["sl.len", "sl.each", "raises-iff:IncompatibleDimensions", "raises-only:IncompatibleDimensions"])
