"""C17 - flush()/close() durability: what nixio owes is delegation (DESIGN section 7 C17).

The crash clause itself (data handed to libhdf5 by H5Fflush survives SIGKILL) is a statement about libhdf5 and the
operating system and is ASSUMED, for a file opened with default file-access properties. Proved here: File.flush
reaches h5py's flush on every path, File.close reaches flush/close on every path, and the access / creation property
lists nixio opens files with are the library defaults plus exactly the documented creation-order settings.
"""
import z3
from pyvc.vals import *          # noqa: F401,F403
from pyvc import vals as V

REG = globals().get("REG")

_DEFAULT = z3.Function("h5p_is_default", IntS, BoolS)
_FID = z3.Function("h5_file_id", IntS, IntS)


@REG.specfunc()
def plist_default(ex, p, x):
    """an HDF5 property list exactly as H5Pcreate returned it (no setter applied)"""
    x = ex.deref(p, x)
    return VBool(_DEFAULT(x.t if isinstance(x, VOpaque) else Val.ok(box(x))))


@REG.specfunc()
def flushes(ex, p, f):
    """number of times the h5py file object was flushed (ghost counter)"""
    f = ex.deref(p, f)
    k = f.t if isinstance(f, VOpaque) else Val.ok(box(f))
    return VInt(p.sigma["flushed"][k])


@REG.specfunc()
def flushed_once_more(ex, p, f, n):
    f = ex.deref(p, f)
    k = f.t if isinstance(f, VOpaque) else Val.ok(box(f))
    se = ex.lookup(p, "__specenv__")
    old = se.old if se.old is not None else se.p
    return VBool(p.sigma["flushed"] == z3.Store(old.sigma["flushed"], k, old.sigma["flushed"][k] + n.t))


REG.contract("h5py.h5p.create", assumed=True, params=dict(cls=Dyn), result=OpaqueT,
             ensures=["plist_default(result)"], note="H5Pcreate: a property list with the library defaults")
REG.contract("opaque.flush", assumed=True, params=dict(self=OpaqueT), modifies=["flushed"],
             ensures=["flushed_once_more(self, 1)"],
             note="h5py.File.flush = H5Fflush(H5F_SCOPE_GLOBAL): ASSUMED to hand every dirty metadata and raw-data buffer "
                  "to the operating system, which keeps it across SIGKILL of the process")
REG.contract("opaque.close", assumed=True, params=dict(self=OpaqueT), modifies=["flushed"],
             ensures=["flushed_once_more(self, 1)"], note="h5py.File.close flushes and closes")

REG.contract(
    "nixio.file.make_fapl", props=["C17"], params=dict(), result=OpaqueT,
    # the durability assumption is stated for default file access properties (no library-version bounds, no custom
    # cache or driver configuration)
    ensures=[("fapl.default", "plist_default(result)", "prop")], prop_clauses=["fapl.default"])

FILE_OK = ["is_opaque(field(self, '_h5file'))"]

REG.contract(
    "nixio.file.File.flush", props=["C17", "C02"], params=dict(self=Obj("File")), requires=FILE_OK,
    modifies=["flushed"],
    ensures=[("flush.delegates", "flushed_once_more(field(self, '_h5file'), 1)", "prop")],
    prop_clauses=["flush.delegates"])

REG.contract(
    "nixio.file.File.close", props=["C17", "C02"], params=dict(self=Obj("File")), requires=FILE_OK,
    modifies=["flushed"],
    ensures=[("close.flushes", "flushes(field(self, '_h5file')) >= old(flushes(field(self, '_h5file'))) + 1", "prop")],
    prop_clauses=["close.flushes"])
