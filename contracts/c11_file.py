"""Contracts for nixio/file.py: format-version gating and open modes (property C11)."""
import z3
from pyvc.vals import *          # noqa: F401,F403
from pyvc import vals as V

REG = globals().get("REG")

_UUIDTEXT = z3.Function("is_uuid_text", StrS, BoolS)
_PYSTR = z3.Function("py_str", Val, StrS)


@REG.specfunc()
def uuid_text(ex, p, x):
    """uuid.UUID(str(x)) succeeds (assumed library predicate on the text)"""
    x = ex.deref(p, x)
    if isinstance(x, VStr):
        lit = z3.simplify(x.t)
        if z3.is_string_value(lit):
            # a literal: decide it with the real library (uuid.UUID is the definition of the predicate)
            import uuid
            try:
                uuid.UUID(lit.as_string())
                ok = True
            except ValueError:
                ok = False
            p.assume(_UUIDTEXT(lit) == ok)
        return VBool(_UUIDTEXT(x.t))
    t = box(x)
    return VBool(_UUIDTEXT(z3.If(Val.is_VStr(t), Val.s(t), _PYSTR(t))))


REG.contract("uuid.UUID", assumed=True, params=dict(s=Str), result=Dyn,
             raises={"ValueError": ("not uuid_text(s)", "helper")},
             note="uuid.UUID(text) raises ValueError exactly for malformed text")

REG.contract(
    "nixio.util.util.is_uuid", props=["C11", "C03"],
    params=dict(id_str=Dyn), result=Bool,
    ensures=[("uuid", "result == uuid_text(id_str)", "prop")], prop_clauses=["uuid"])

ROOT_VER = "dec(attr(gid(field(self, '_root')), 'version'))"

REG.contract(
    "nixio.file.File.version", props=["C11", "C02"],
    params=dict(self=Obj("File")), result=SeqOf(Int),
    requires=["gid(field(self, '_root')) != 0", "is_intseq(%s)" % ROOT_VER],
    ensures=[("get", "result == as_intseq(%s)" % ROOT_VER, "prop")], prop_clauses=["get"])
REG.contract(
    "nixio.file.File.format", props=["C11", "C02"],
    params=dict(self=Obj("File")), result=Dyn,
    ensures=[("get", "result == ite_(gid(field(self, '_root')) == 0, boxed(None), dec(attr(gid(field(self, '_root')), 'format')))", "prop")],
    prop_clauses=["get"])
REG.contract(
    "nixio.file.File.id", props=["C11", "C02"],
    params=dict(self=Obj("File")), result=Dyn,
    ensures=[("get", "result == ite_(gid(field(self, '_root')) == 0, boxed(None), dec(attr(gid(field(self, '_root')), 'id')))", "prop")],
    prop_clauses=["get"])

VER_DOM = ["gid(field(nixfile, '_root')) != 0", "is_intseq(dec(attr(gid(field(nixfile, '_root')), 'version')))"]
VER_LET = "v = as_intseq(dec(attr(gid(field(nixfile, '_root')), 'version')))"

REG.contract(
    "nixio.file.can_write", replay=dict(harness="c11_header"), props=["C11"],
    params=dict(nixfile=Obj("File")), result=Bool, requires=VER_DOM, let=VER_LET,
    raises={"RuntimeError": ("len(v) != 3", "prop")},
    # property: a file whose format version differs from the library's is refused for writing
    ensures=[("w", "result == (v[0] == HDF_FF_VERSION[0] and v[1] == HDF_FF_VERSION[1] and v[2] == HDF_FF_VERSION[2])", "prop")],
    prop_clauses=["w", "raises-iff:RuntimeError", "raises-only:RuntimeError"])

REG.contract(
    "nixio.file.can_read", replay=dict(harness="c11_header"), props=["C11"],
    params=dict(nixfile=Obj("File")), result=Bool, requires=VER_DOM, let=VER_LET,
    raises={"RuntimeError": ("len(v) != 3", "prop")},
    # property: readable exactly when same major version and a minor version not newer than the library's
    ensures=[("r", "result == (v[0] == HDF_FF_VERSION[0] and v[1] <= HDF_FF_VERSION[1])", "prop")],
    prop_clauses=["r", "raises-iff:RuntimeError", "raises-only:RuntimeError"])

REG.contract(
    "nixio.file.map_file_mode", props=["C11"],
    params=dict(mode=Str), result=Dyn,
    raises={"ValueError": ("mode != 'r' and mode != 'a' and mode != 'w'", "prop")},
    ensures=[("ro", "(mode == 'r') implies result == h5py.h5f.ACC_RDONLY", "prop"),
             ("rw", "(mode == 'a') implies result == h5py.h5f.ACC_RDWR", "prop"),
             ("ow", "(mode == 'w') implies result == h5py.h5f.ACC_TRUNC", "prop")],
    prop_clauses=["ro", "rw", "ow", "raises-iff:ValueError", "raises-only:ValueError"])

HDR_LET = ("R = gid(field(self, '_root')); fmt = dec(attr(R, 'format')); v = as_intseq(dec(attr(R, 'version'))); "
           "fid = dec(attr(R, 'id')); "
           "same_ver = (v[0] == HDF_FF_VERSION[0] and v[1] == HDF_FF_VERSION[1] and v[2] == HDF_FF_VERSION[2]); "
           "readable = (v[0] == HDF_FF_VERSION[0] and v[1] <= HDF_FF_VERSION[1]); "
           "ge120 = (v[0] > 1 or (v[0] == 1 and (v[1] > 2 or (v[1] == 2 and v[2] >= 0))))")

REG.contract(
    "nixio.file.File._check_header", replay=dict(harness="c11_header"), props=["C11"],
    params=dict(self=Obj("File"), mode=Str),
    requires=["gid(field(self, '_root')) != 0", "is_intseq(dec(attr(gid(field(self, '_root')), 'version')))",
              "len(as_intseq(dec(attr(gid(field(self, '_root')), 'version')))) == 3"],
    let=HDR_LET,
    raises={
        # property: a file whose format tag is not NIX is refused
        "InvalidFile": ("not (is_str(fmt) and as_str(fmt) == 'nix')", "prop"),
        # property: refused for writing unless the version is the library's; readable exactly when same major,
        # minor not newer; from 1.2.0 on a valid file id is required (in every mode)
        "RuntimeError": ("(is_str(fmt) and as_str(fmt) == 'nix') and ((mode == 'a' and not same_ver) or "
                         "(mode == 'r' and not readable) or (ge120 and not uuid_text(fid)))", "prop")},
    prop_clauses=["raises-iff:InvalidFile", "raises-only:InvalidFile", "raises-iff:RuntimeError",
                  "raises-only:RuntimeError"])
