"""Entity attribute accessors (properties C02, C19, C12): every getter/setter goes straight to the store.

Per setter, written from the property statements:
  C02  the getter after the setter returns the (normalised) value  -> the value is written under the getter's key
  C19  the entity's update time is set to the current time iff automatic timestamps are enabled, nothing else
       (no other attribute, no other object, never created_at) changes
  C12  a refused call (wrong type) changes nothing  (automatic `atomic:` obligations on every raising path)
"""
import z3
from pyvc.vals import *          # noqa: F401,F403
from pyvc import vals as V
from sidecar_a_common import VOpaqueTerm

REG = globals().get("REG")

# an entity handle denotes an existing group; HDF5 objects are never their own children; allocated objects are
# older than the allocation counter (store well-formedness, instance-wise)
REG.invariants["Entity"] = ["hobj(self) != 0", "field(field(self, '_h5group'), 'pgid') != hobj(self)",
                            "freshid() > 0 and hobj(self) < freshid()"]
REG.inline("nixio.entity.Entity.file", "nixio.file.File.auto_update_timestamps", "nixio.util.util.check_attr_type",
           "nixio.util.util.check_entity_type", "nixio.util.util.check_entity_name_and_type")


@REG.specfunc()
def after_set(ex, p, e, key, value, auto):
    """store attributes after an entity setter: attrs[key] = value and, iff auto timestamps are on,
    attrs['updated_at'] = text(now); every other cell of every object unchanged"""
    from sidecar_a_common import obj
    from sidecar_c19_time import ts_text
    se = ex.lookup(p, "__specenv__")
    oldp = se.old if se.old is not None else se.p
    a0 = oldp.sigma["attr"]
    o = obj(ex, oldp, e).t
    a1 = z3.Store(a0, o, z3.Store(a0[o], key.t, box(ex.deref(p, value))))
    now = ts_text(ex, p, VInt(oldp.sigma["clock"]))
    a2 = z3.Store(a1, o, z3.Store(a1[o], z3.StringVal("updated_at"), box(now)))
    return VOpaqueTerm(z3.If(ex.truth(p, auto), a2, a1))


AUTO = "field(field(self, '_file'), '_auto_update_timestamps')"


def getter(qn, key, cls, props=("C02",), decode=True):
    REG.contract(
        qn, props=list(props), params=dict(self=Obj(cls)), result=Dyn,
        ensures=[("get", "result == dec(attr(obj(self), '%s'))" % key, "prop")], prop_clauses=["get"])


def setter(qn, key, cls, argname, pytype, norm=None, props=("C02", "C19", "C12"), extra_raises=None, requires=()):
    """pytype: spec predicate text over the argument for 'is an instance of the required type'"""
    val = norm or argname
    raises = {"InvalidAttrType": ("not is_none(%s) and not (%s)" % (argname, pytype), "prop")}
    if extra_raises:
        raises.update(extra_raises)
    REG.contract(
        qn, props=list(props), params={"self": Obj(cls), argname: Dyn},
        requires=list(requires),
        modifies=["attr", "clock"],
        raises=raises,
        ensures=[("set", "same(sigma('attr'), after_set(self, '%s', %s, %s))" % (key, val, AUTO), "prop")],
        prop_clauses=["set", "raises-iff:InvalidAttrType", "raises-only:InvalidAttrType", "frame:link", "frame:ord",
                      "frame:data", "frame:dshape"])


IS_STR = "is_str({0}) or is_bytes({0})"
IS_NUM = "is_int({0}) or is_real({0}) or is_bool({0})"

# ---- Entity --------------------------------------------------------------------------------------------------
getter("nixio.entity.Entity.id", "entity_id", "Entity", props=("C02", "C03"))
getter("nixio.entity.Entity.name", "name", "Entity", props=("C02", "C03"))
getter("nixio.entity.Entity.type", "type", "Entity")
getter("nixio.entity.Entity.definition", "definition", "Entity")
setter("nixio.entity.Entity.definition.setter", "definition", "Entity", "definition", "is_str(definition)")
setter("nixio.entity.Entity.type.setter", "type", "Entity", "typ", "is_str(typ)",
       extra_raises={"AttributeError": ("is_none(typ)", "prop")})

TS_OK = "(is_str(attr(obj(self), '{0}')) or is_bytes(attr(obj(self), '{0}')))"
REG.contract(
    "nixio.entity.Entity.created_at", props=["C19", "C02", "C14"], params=dict(self=Obj("Entity")), result=Dyn,
    requires=["obj(self) != 0", TS_OK.format("created_at") + " or is_none(dec(attr(obj(self), 'created_at')))"],
    # the stored second; None exactly when no creation time is stored (what the validator reports as `date is not set`)
    ensures=[("get", "result == ite_(is_none(dec(attr(obj(self), 'created_at'))), boxed(None), boxed(ts_parse(attr(obj(self), 'created_at'))))",
              "prop")], prop_clauses=["get"])
for which in ("updated_at",):
    REG.contract(
        "nixio.entity.Entity.%s" % which, props=["C19", "C02"], params=dict(self=Obj("Entity")), result=Int,
        requires=[TS_OK.format(which)],
        ensures=[("get", "result == ts_parse(attr(obj(self), '%s'))" % which, "prop")], prop_clauses=["get"])
for which in ("created_at", "updated_at"):
    REG.contract(
        "nixio.entity.Entity.force_%s" % which, props=["C19", "C02", "C12"],
        params=dict(self=Obj("Entity"), time=Dyn),
        requires=["not is_bool(time)"],
        modifies=["attr", "clock"],
        raises={"InvalidAttrType": ("not is_none(time) and not is_int(time)", "prop")},
        # property: forcing a timestamp stores exactly that second; only this entity's `which` cell changes
        ensures=[("force", "same(sigma('attr'), attr_set(old(sigma('attr')), obj(self), '%s', "
                           "ts_text(ite_(is_none(time), old(clock()), as_int(time)))))" % which, "prop")],
        prop_clauses=["force", "raises-iff:InvalidAttrType", "raises-only:InvalidAttrType", "frame:link", "frame:ord",
                      "frame:data", "frame:dshape"])

# ---- DataArray ------------------------------------------------------------------------------------------------
getter("nixio.data_array.DataArray.label", "label", "DataArray")
setter("nixio.data_array.DataArray.label.setter", "label", "DataArray", "label", "is_str(label)")
getter("nixio.data_array.DataArray.expansion_origin", "expansion_origin", "DataArray", props=("C02", "C15"))
setter("nixio.data_array.DataArray.expansion_origin.setter", "expansion_origin", "DataArray", "origin",
       IS_NUM.format("origin"), props=("C02", "C19", "C12", "C15"))
getter("nixio.data_array.DataArray.unit", "unit", "DataArray")

# ---- Section -------------------------------------------------------------------------------------------------
getter("nixio.section.Section.reference", "reference", "Section")
setter("nixio.section.Section.reference.setter", "reference", "Section", "ref", "is_str(ref)")
getter("nixio.section.Section.repository", "repository", "Section")
setter("nixio.section.Section.repository.setter", "repository", "Section", "repo", "is_str(repo)")

# ---- dataset-backed attributes: Tag.position / extent -----------------------------------------------------------
UPD = ("same(sigma('attr'), ite_term(%s, attr_set(old(sigma('attr')), old(obj(self)), 'updated_at', ts_text(old(clock()))), "
       "old(sigma('attr'))))" % AUTO)


@REG.specfunc()
def ite_term(ex, p, c, a, b):
    return VOpaqueTerm(z3.If(ex.truth(p, c), a.t, b.t))


def seq_setter(qn, key, argname, cls="Tag"):
    """position / extent: a non-empty vector is written to the dataset `key` as doubles, None/empty removes it"""
    A = argname
    vec = "ite_(is_realseq({0}) or is_intseq({0}), {0}, boxed(({0},)))".format(A)
    REG.contract(
        qn, props=["C02", "C19", "C12"], params={"self": Obj(cls), A: Dyn},
        requires=["is_none({0}) or is_realseq({0}) or is_intseq({0}) or is_real({0}) or is_int({0})".format(A),
                  # format invariant: an existing position/extent dataset holds doubles
                  "(link(obj(self), '%s') != 0 and okind(link(obj(self), '%s')) == 2) implies "
                  "ddtype(link(obj(self), '%s')) == DataType.Double" % (key, key, key),
                  "link(obj(self), '%s') < freshid()" % key],
        modifies=["attr", "clock", "link", "ord", "kind", "fresh", "data", "dshape", "dtype"],
        let="o = obj(self); had = link(o, '%s') != 0 and okind(link(o, '%s')) == 2; empty = is_none(%s) or seq_empty(%s)"
            % (key, key, A, A),
        raises={"TypeError#conv": ("False", "helper")},
        ensures=[
            # C19: this entity's update time (only) follows the change iff automatic timestamps are on
            ("upd", UPD, "prop"),
            # C02: afterwards the getter's dataset holds exactly the given vector (as doubles) / is gone
            ("set.data", "(not empty) implies (link(o, '%s') != 0 and okind(link(o, '%s')) == 2 and "
                         "ddata(link(o, '%s')) == stored_as(%s, DataType.Double))" % (key, key, key, vec), "prop"),
            ("set.clear", "empty implies link(o, '%s') == ite_(had, 0, old(link(o, '%s')))" % (key, key), "prop"),
            # nothing else is linked or unlinked anywhere
            ("set.frame", "same(sigma('link'), link_set(old(sigma('link')), o, '%s', link(o, '%s')))" % (key, key), "prop"),
        ],
        prop_clauses=["upd", "set.data", "set.clear", "set.frame"])


seq_setter("nixio.tag.Tag.position.setter", "position", "pos")
seq_setter("nixio.tag.Tag.extent.setter", "extent", "ext")

for key in ("position", "extent"):
    REG.contract(
        "nixio.tag.Tag.%s" % key, props=["C02", "C08"], params=dict(self=Obj("Tag")), result=SeqOf(Real),
        requires=["link(obj(self), '%s') == 0 or is_realseq(ddata(link(obj(self), '%s')))" % (key, key)],
        ensures=[("get", "seq_eq(result, ite_(link(obj(self), '%s') == 0, as_realseq(boxed(EMPTY_REALS)), "
                         "as_realseq(ddata(link(obj(self), '%s')))))" % (key, key), "prop")],
        prop_clauses=["get"])

REG.spec_consts = getattr(REG, "spec_consts", {})
REG.spec_consts["EMPTY_REALS"] = VSeq(z3.Empty(z3.SeqSort(RealS)), Real)

# ---- link-backed attributes: MultiTag.positions / extents ---------------------------------------------------------
REG.contract(
    "nixio.multi_tag.MultiTag.positions.setter", props=["C02", "C19", "C12", "C05"],
    params=dict(self=Obj("MultiTag"), da=Dyn),
    requires=["is_none(da) or is_obj(da)", "is_none(da) or target_obj(da) != 0",
              # not covered: re-assigning the array obtained through this very link (its path-based handle goes stale)
              "is_none(da) or not via_link(da, obj(self), 'positions')"],
    modifies=["attr", "clock", "link", "ord"],
    raises={"TypeError": ("is_none(da)", "prop")},
    ensures=[("upd", UPD, "prop"),
             # C05: the role link is the SAME object as the original array
             ("set", "same(sigma('link'), link_set(old(sigma('link')), old(obj(self)), 'positions', old(target_obj(da))))", "prop")],
    prop_clauses=["upd", "set", "raises-iff:TypeError"])

REG.contract(
    "nixio.multi_tag.MultiTag.extents.setter", props=["C02", "C19", "C12", "C05"],
    params=dict(self=Obj("MultiTag"), da=Dyn),
    requires=["is_none(da) or is_obj(da)", "is_none(da) or target_obj(da) != 0"],
    modifies=["attr", "clock", "link", "ord"],
    raises={"KeyError": ("is_none(da) and link(obj(self), 'extents') == 0", "helper")},
    ensures=[("upd", UPD, "prop"),
             ("set", "same(sigma('link'), link_set(old(sigma('link')), old(obj(self)), 'extents', "
                     "ite_(is_none(da), 0, old(target_obj(da)))))", "prop")],
    prop_clauses=["upd", "set"])


@REG.specfunc()
def via_link(ex, p, t, g, name):
    """the entity's handle is the path (g, name)"""
    tt = box(ex.deref(p, t))
    h5 = ex.bi.heap_array(p, "_h5group", Obj("H5Group"))
    h = h5[Val.ref(tt)]
    pg = ex.bi.heap_array(p, "pgid", Int)
    nm = ex.bi.heap_array(p, "name", Str)
    return VBool(z3.And(pg[h] == g.t, nm[h] == name.t))
