#!/usr/bin/env python3
"""Regenerates MANIFEST.json from the table below (kept valid at all times)."""
import json
CLAIMED = {
 "C07": dict(text="Deductive proof, for all offsets/intervals/tick vectors/positions/modes, that index_of / range_indices of the three dimension "
                  "descriptors, position_at, tick_at and the range descriptor's axis return the order-theoretic answers (last sample <= / < p, first >= p; "
                  "IndexError exactly when none), in scaled coordinates with numpy's isclose band as a don't-care zone, plus SMT lemmas "
                  "linking scaled coordinates to sample positions.",
             note="Trusted: floats as reals; numpy isclose/round/floor/where/searchsorted specs; ticks/labels getters summarised "
                  "(verified under C05); z3/cvc5; pyvc encoding. SampledDimension.axis is not under contract: bounded battery "
                  "C07/bounded/c07 (axes, round trips, conversions and index ranges against the order-theoretic definition).", ref="7 C07"),
 "C09": dict(text="Deductive proof of scalable/scaling against the prefix-ratio^power specification (all inputs), exhaustive proof of "
                  "split/is_atomic on every prefix x unit x power entry of the SI tables read from the AST, regex-inclusion and "
                  "composition lemmas; sanitizer idempotence only as a labelled bounded stand-in.",
             note="Trusted: Python re = leftmost-first backtracking for the regex subset (pyvc/regex.py), z3 regex theory, floats as "
                  "reals, int(str) spec; split's functional summary (determinism).", ref="7 C09"),
 "C11": dict(text="Deductive proof over all version triples / modes / ids of can_read, can_write, map_file_mode and the _check_header "
                  "decision table (format tag, write = exact version, read = same major & minor not newer, id required from 1.2.0).",
             note="Trusted: HDF5 enforces ACC_RDONLY and TRUNC semantics (byte-level clauses are exercised only by the bounded battery C11/bounded/c11: 900 header variants, 35 mutating calls on a read-only file); uuid.UUID spec; "
                  "attribute getters over the abstract store.", ref="7 C11"),
 "C19": dict(text="Deductive proof, per setter / force call, of the exact store footprint: the attribute (or dataset / link) written, "
                  "this entity's updated_at set to text(now) iff automatic timestamps are on, created_at written only by force/creation, "
                  "every other cell of every object unchanged; timestamp text round trip proved from the two verified conversion functions.",
             note="Trusted: datetime strftime/strptime/utcfromtimestamp facts (assumed; cross-checked natively by the bounded battery C19/bounded/c19), h5py attribute/"
                  "dataset/link primitives as contracts over the abstract store, clock monotone.", ref="7 C19"),
 "C06": dict(text="Deductive proof (unbounded rank/extent/index) that DataView index transformation, ellipsis expansion and window "
                  "bookkeeping in nixio/data_view.py implement NumPy basic indexing on a window; obligations generated from the real "
                  "ASTs on every run and discharged by z3/cvc5.",
             note="Trusted: h5py selection semantics (dset[idx] == NumPy for in-range ints and step>=1 slices), pyvc encoding of Python "
                  "(ints mathematical), z3/cvc5.", ref="7 C06"),
 "C15": dict(text="Deductive proof of the calibrated-read branch table of DataArray._read_data (calibration applies exactly when "
                  "coefficients or a non-zero origin are stored; polynomial(raw - origin) in double precision on the SAME selection "
                  "that is passed to the raw read; stored values in the stored type otherwise; single values as shape (1,)), of "
                  "util.apply_polynomial against the polynomial spec function, that DataView reads go through the calibrated reader, and "
                  "that setting coefficients / origin never writes the data dataset.",
             note="Trusted: numpy (np.array, astype, elementwise `-`, polyval, a[:] = b as uninterpreted functions with the stated "
                  "facts), h5py dataset read/write primitives over the abstract store, floats as reals; in-place array updates are "
                  "modelled by rebinding local aliases.", ref="7 C15"),
 "C10": dict(text="Deductive proof that values are classified with bool before int (True is never an integer), that "
                  "Property.values / extend_values / Section.create_property accept a list exactly when every element (loop invariant "
                  "over every position) has the property's data type (the first element's type on creation), that a refused "
                  "assignment leaves extent and content untouched (no write before the check on any raising path), that accepted "
                  "values are what is written and that extend writes right behind the old values; that `key in section` holds exactly for "
                  "the names / ids of its properties and child sections and `len(section)` counts its properties (both read the two "
                  "backend groups, store untouched), and that `section[key]` for a key naming no property yields exactly the child "
                  "section linked under it (KeyError iff there is none).",
             note="Trusted: h5py dataset resize/write/dtype primitives over the abstract store; numpy array construction as an "
                  "uninterpreted function; Property.create_new and the Property.values getter enter as assumed summaries; h5py "
                  "accepts type-checked values; the property branch of section[key], section[key] = v, del section[key], iteration order and persistence across reopen: bounded battery C10/bounded/c10 only.",
             ref="7 C10"),
 "C17": dict(text="Delegation only: deductive proof that File.flush() reaches h5py's flush on every path, that File.close() flushes "
                  "or closes (which flushes) on every path, and that the file-access property list nixio opens files with is the "
                  "library default (the setting for which the durability assumption is stated). The crash clause itself - data "
                  "handed over by H5Fflush survives SIGKILL - is a fact about libhdf5 and the OS that no contract on nixio code can "
                  "decide; it is an assumption, not a proved clause.",
             note="Assumed, never proved: h5py.File.flush = H5Fflush(H5F_SCOPE_GLOBAL) hands all dirty metadata and chunks to the "
                  "OS; data handed to the OS survives SIGKILL (exercised by the bounded battery C17/bounded/c17: 20-32 writer processes killed right after flush / close); gc.collect does not raise.", ref="7 C17"),
 "C01": dict(text="Partial (nixio side only): deductive proof, for every rank, extent and valid axis, of the append arithmetic "
                  "(refusal before any write unless ranks agree and shapes agree off the axis; new extent = old + data extent on the "
                  "axis only; written hyperslab = [0, D) off the axis and [E, E + D) on it, i.e. right behind the old data), of the "
                  "extent getter/setter and raw read/write delegation to the `data` dataset, and that the wrapper's write addresses "
                  "exactly the given selection (no falsy index silently meaning the whole dataset). Byte-level identity per dtype, "
                  "compression transparency and persistence are h5py/libhdf5 facts and are assumed.",
             note="Trusted: h5py item assignment / resize / shape semantics as contracts over the abstract store; numpy arrays opaque; "
                  "create_data_array's shape/dtype resolution and the compression chain are outside the contracts (bounded battery "
                  "C01/bounded/c01 only).", ref="7 C01"),
 "C13": dict(text="Partial: deductive proof that every public find_* method hands the breadth-first search exactly the start node, "
                  "the caller's filter and the depth limit as given (None = unlimited, 0 = 0), calls it once and returns its result "
                  "unchanged, and that a newly constructed Section handle carries no cached parent (the parent is a fact of the tree, "
                  "not of the access path). The search itself (breadth-first order, completeness within the limit, filter) is decided "
                  "only by a labelled BOUNDED stand-in: the real function on all ordered forests with <= 5 (thorough: 6) nodes.",
             note="The two _find_* functions enter the proofs as assumed summaries; their behaviour is checked bounded, never counted as "
                  "proved. Section.parent / Source.parent_source / referring_* are decided only by the bounded battery C13/bounded/c13.", ref="7 C13"),
 "C14": dict(text="Partial: deductive proof, per check function and catalogue entry, that the entry is reported if and only if its "
                  "condition holds and that nothing else is reported, for check_entity (and the block/group/source wrappers), "
                  "check_property, check_sampled_dimension, check_range_dimension (ticks missing / not strictly increasing over "
                  "every adjacent pair / unit not atomic) and tag_units_match_refs_units (nested loop invariants over every "
                  "reference and every dimension).",
             note="Messages are identified by template and arguments (str.format as an injective constructor). Getters are used through "
                  "their contracts; units.is_atomic / scalable through their C09 contracts. check_data_array, check_tag, "
                  "check_multi_tag, check_feature and the check_file traversal (polymorphic containers) are covered only by the bounded battery C14/bounded/c14.",
             ref="7 C14"),
 "C16": dict(text="Partial (refusal / addressing logic only, prefix verification): deductive proof for write_column, append_column, "
                  "write_rows, write_cell and read_cell that every call violating a stated condition (column length != row count, "
                  "neither index nor name given - index 0 being a legal index -, malformed cell address, row count / index count "
                  "mismatch, row index beyond the last row) is refused with the stated error BEFORE the first write, and that these "
                  "errors are raised only under those conditions; and for a multi-row write_rows (body verified past the prefix, loop "
                  "invariant over the rows) that it issues exactly one block write whose selection is the index list as given. Cell-level fidelity, column typing and persistence are NumPy "
                  "structured-array / h5py compound-type behaviour and are assumed.",
             note="Prefix mode: each function is executed symbolically up to its first statement outside the modelled subset (raw "
                  "h5py / structured arrays); nothing is claimed about the code after that point (except write_rows#addr, which runs to the end). create_data_frame's schema "
                  "derivation and cell-level fidelity are covered only by the bounded battery C16/bounded/c16.", ref="7 C16"),
 "C18": dict(text="Partial (task scheduling only): deductive proof over all header versions and detector outcomes that collect_tasks "
                  "returns no task for an up-to-date file (so upgrading it writes nothing), and otherwise a list that ends with the "
                  "version step and contains each conversion step exactly when its own detector reports work, independently of the "
                  "others (a re-run after an interruption between steps therefore schedules exactly the steps still needed, version "
                  "last). Content preservation by the conversion closures and re-runs after interruptions are decided only by the bounded battery C18/bounded/c18.",
             note="The detectors (add_file_id, update_property_values, update_alias_range_dimension), update_format_version and the "
                  "conversion closures use raw h5py inside `with` blocks and enter as assumed summaries; h5py compound datasets and "
                  "the crash model are assumptions; the resumability conclusion is argued over the proved clauses, not mechanised.",
             ref="7 C18"),
 "C08": dict(text="Deductive proof of the tag-side computation for every rank, position / extent length and descriptor: the unit "
                  "conversion (_scale_position per descriptor kind: factor = units.scaling when both units are given, 1 otherwise; "
                  "IncompatibleDimensions exactly for unit-less / inconvertible / set-with-unit cases), the per-dimension region "
                  "(_calc_data_slices, loop invariant over every dimension: start = position*k, end = start + extent*k, requested "
                  "stop rule iff the extent is positive, exact position otherwise, entry = None iff the descriptor finds no sample, "
                  "else slice(first, last+1); remaining dimensions whole), the inside-the-data decision (_slices_in_data), plus the "
                  "descriptors' index_of / range_indices against the order-theoretic specification (shared with C07).",
             note="Trusted: as C06/C07/C09 (h5py selection, floats as reals, numpy less_equal/all). Descriptors are abstract in "
                  "_calc_data_slices (summaries of the three range_indices implementations, verified under C07). Tag.tagged_data, "
                  "MultiTag row selection (_calc_data_slices_mtag) and feature_data dispatch: bounded battery C08/bounded/c08 only.", ref="7 C08"),
 "C03": dict(text="Partial: deductive proof over the abstract store that a container's length, positional indexing (negative indices "
                  "normalised, IndexError exactly outside [-n, n)), lookup by id, lookup by name and membership (by key and, for "
                  "entity objects, by identity) all describe the one creation-order sequence of its backend group, and that every "
                  "legal name retrieves the entity linked under it - also a name that looks like an id, and also when another member "
                  "carries that text as its id (an exact name match wins; ids are consulted only for texts that are not a name).",
             note="Assumed: h5py creation-order index / iteration order / link lookup (the H5Group lookup primitives enter as "
                  "contracts over the abstract store), uuid4 freshness, handle construction (_inst_item). Duplicate / illegal names are refused before creation by every create_* (prefix mode, shared with C12); id assignment, "
                  "order after deletes and after reopen: bounded battery C03/bounded/c03 only.", ref="7 C03"),
 "C04": dict(text="Partial: deductive proof of what each delete hands to the sweeper (a plain entity: exactly its own id and its own HDF5 object; a section / "
                  "source: the id and the object of every entity of its subtree as returned by the tree search, plus the source "
                  "itself), always from the file root and exactly once; that removing an entry from a link list only unlinks it there (the sweeper is not "
                  "involved); and of the sweeper's per-group step (loop invariant: EVERY member of the visited group whose id is to "
                  "be deleted and which IS one of the objects to be deleted - not a kept-id copy - is unlinked, every other link "
                  "anywhere is untouched).",
             note="Assumed: h5py visititems reaches every group below the root and tolerates unlinking during the walk (delete_all's "
                  "traversal), H5Group.delete / __delitem__ primitives; ownership of content is HDF5 reachability; completeness of "
                  "the tree search is the bounded stand-in of C13. The whole-file effect of a delete is compared by a canonical walk in the bounded battery C04/bounded/c04.", ref="7 C04"),
 "C05": dict(text="Partial: deductive proof that a link list accepts an entity exactly when it is of the list's kind and IS (by "
                  "identity - same id under its name) a member of the owning block's container, refuses everything else with the "
                  "store untouched, and that the link created is the SAME HDF5 object as the original, filed under its id; that "
                  "container membership of an entity object is by identity; that MultiTag positions / extents role links are the "
                  "same object as the given array.",
             note="Assumed: HDF5 hard links alias (one object, many paths); H5Group.create_link primitive; lazily created link-list "
                  "groups are outside the contract domain. Dimension links: link_data_array / link_data_frame are verified in prefix "
                  "mode (invalid index refused before the old link or the ticks are touched; link and ticks replace each other) and "
                  "DimensionLink.values designates exactly the configured vector. SourceLinkContainer.append (tree search with a "
                  "lambda filter), Feature.data and linked unit/label forwarding: bounded battery C05/bounded/c05 only.", ref="7 C05"),
 "C12": dict(text="Deductive proof, per public creating / mutating function under contract, that every path ending in a refusal leaves "
                  "the abstract store exactly as it was (an automatic obligation `atomic:<component>` for every raising path of "
                  "every unit: no write before the raise), and that the refusal is raised exactly under its stated condition: "
                  "attribute setters of entities, tags, sections and dimensions, forced timestamps, Property.values / "
                  "extend_values, Section.create_property, link-list append, DataSet.append (shape refusals), the data-frame "
                  "writers and - in prefix mode - create_block / create_tag / create_multi_tag / create_group / create_source / "
                  "create_section (duplicate or illegal name, empty type refused before anything is created).",
             note="Assumed: the h5py primitives raise only per their stated preconditions. The code of the creating functions after their refusal point (roll-backs added by the fix: commits for the F4 family) is "
                  "exercised only by the bounded battery C12/bounded/c12 (56 refused calls, canonical walk before / after); failures "
                  "inside libhdf5 are outside. A multi-row write_rows is one block write (unit write_rows#addr; that h5py refuses a block "
                  "write as a whole is assumed), and the data-frame battery C16/bounded/c16 (one unusable row at every place of a 2- / "
                  "3-row call: refused, table unchanged) runs under this property too.", ref="7 C12"),
 "C20": dict(text="Partial (nixio side): deductive proof for Block._copy_objects (the common path of copying arrays, frames, tags and "
                  "multi-tags into a block) that an existing destination name is refused before anything is copied, that the "
                  "destination name is the supplied name or else the source's, that the HDF5 copy is asked for exactly the "
                  "requested id policy / destination / class container, once, and that what is returned identifies the COPY (its "
                  "unique destination name, not an id the original may share); and for the id-regeneration callback that EVERY "
                  "copied object carrying an id - groups and datasets (properties) alike - receives a fresh well-formed id and "
                  "nothing else is written. Completeness, independence and internal-link preservation of the copy are H5Ocopy "
                  "facts and are assumed.",
             note="Assumed: H5Group.copy (H5Ocopy + visititems), uuid4. File.create_block's copy branch, File.copy_section and Section.copy_section are verified in prefix mode (existing name "
                  "refused before anything is copied; name, id policy, shallow flag handed on); content, links, id policy and "
                  "independence of the result (incl. deleting either side) only by the bounded battery C20/bounded/c20.", ref="7 C20"),
 "C02": dict(text="Partial, as representation invariant + inverse pairs over the abstract store: deductive proof, per attribute accessor "
                  "under contract (entity type / definition, array label / unit / expansion origin / polynomial coefficients, section "
                  "reference / repository, tag position / extent, multi-tag positions / extents, sampled-dimension interval / "
                  "offset / unit, dimension label, property name / unit / definition, timestamps, file version / format / id), that "
                  "the setter writes the (normalised) value into the store under exactly the key the getter reads - nothing is "
                  "cached on the Python object, nothing else is written - so that every observation is a function of the HDF5 "
                  "content; that a new Section handle carries no cached parent; that the sweeper unlinks every deleted member "
                  "(deleted things stay deleted); that close() flushes; and that the wrapper's attribute writer "
                  "(H5Group.set_attr, body verified against h5py's AttributeManager operations) stores exactly the value "
                  "given whatever was stored before. The step from there to the property - HDF5 reproduces "
                  "its content after close and reopen - is an assumption about libhdf5, not a proved clause.",
             note="Assumed: HDF5 persistence across close/reopen, h5py attribute type round trip. Stale-handle behaviour (an H5Group caches the bound h5py object), close / reopen of a file with every entity kind: bounded "
                  "battery C02/bounded/c02 only.", ref="7 C02"),
}
NA_REASON = "check not built yet in this round (design in DESIGN.md section 7); will be claimed once its contracts discharge"
checks, na = [], []
for i in range(1, 21):
    pid = "C%02d" % i
    if pid in CLAIMED:
        c = CLAIMED[pid]
        checks.append({
            "property_id": pid,
            "quick_cmd": "./check %s --tier quick" % pid,
            "thorough_cmd": "./check %s --tier thorough" % pid,
            "evidence_file": "/verif/evidence/%s.json" % pid,
            "replay_cmd_template": "./check %s --replay {path}" % pid,
            "engine": "pyvc",
            "level_claimed": {"category": "proof", "text": c["text"], "design_ref": "DESIGN.md section " + c["ref"]},
            "level_note": c["note"],
            "technique": "contract-based deductive verification: sidecar contracts on the real functions, VC generation from the "
                         "real ASTs (pyvc), z3 + cvc5; functions outside the contracts' reach only by labelled BOUNDED stand-ins "
                         "(replay/bounded.py on the real code, never counted as proved)",
        })
    else:
        na.append({"property_id": pid, "reason": NA_REASON})
m = {
 "version": 1,
 "setup_cmd": "python3-vt pyvc/selftest.py",
 "hooks": {"guard": "NIXPY_VERIF", "enable": "no hooks in /repo are needed: contracts are sidecar files under /verif/contracts; "
           "the guard name is reserved and unused by repository code",
           "baseline_off_cmd": "cd /repo && /venv/bin/python -m pytest -ra -q -p no:cacheprovider --timeout=900 --continue-on-collection-errors",
           "source_commits": [], "add_only": True},
 "engines": [{"name": "pyvc", "path": "/verif/pyvc", "serves_properties": sorted(CLAIMED),
              "kind_free_text": "symbolic executor + VC generator over the real Python ASTs of /repo, sidecar contracts, z3 5.1 / cvc5 back ends"}],
 "checks": checks,
 "not_applicable": na,
 "notes": "See DESIGN.md. Exit codes: 0 held, 1 violation (VIOLATION line), 2 undecided, 3 checker error.",
}
json.dump(m, open("MANIFEST.json", "w"), indent=1)
print("claimed:", sorted(CLAIMED))
