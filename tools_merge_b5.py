#!/usr/bin/env python3
"""Batch 5 (-7): fold the first-pass outputs written by tools_confirm_b5.sh (/tmp/first_b5_<P>.out) into
seeded/RESULTS_batch5_first_pass.json and seeded/RESULTS.json (same record format as tools_sweep.py)."""
import json, os, re, subprocess, sys
ROOT = os.path.dirname(os.path.abspath(__file__))
head = subprocess.check_output(["git", "-C", "/repo", "rev-parse", "--short", "HEAD"], text=True).strip()
verif = subprocess.check_output(["git", "-C", ROOT, "rev-parse", "--short", "HEAD"], text=True).strip()
fp_path = os.path.join(ROOT, "seeded", "RESULTS_batch5_first_pass.json")
fp = json.load(open(fp_path)) if os.path.exists(fp_path) else {}
res = json.load(open(os.path.join(ROOT, "seeded", "RESULTS.json")))
for p in sys.argv[1:]:
    out = open("/tmp/first_b5_%s.out" % p).read()
    conf = open("/tmp/confirm_b5_%s.txt" % p).read()
    rc = int(re.search(r"first_pass_rc=(\d+)", conf).group(1))
    lines = [l for l in out.splitlines() if l.startswith("VIOLATION")][:8]
    summ = [l for l in out.splitlines() if re.match(r"^C\d\d: \d+ obligations", l)]
    rec = {"checks": {p: {"lines": lines, "rc": rc, "summary": summ[-1] if summ else "", "wall": None}},
           "detected": rc == 1 and bool(lines), "head": head, "verif": verif}
    if p + "-7" not in fp:
        fp[p + "-7"] = rec
    res[p + "-7"] = rec
    print(p + "-7", "detected" if rec["detected"] else "MISSED", rc)
json.dump(fp, open(fp_path, "w"), indent=1, sort_keys=True)
json.dump(res, open(os.path.join(ROOT, "seeded", "RESULTS.json"), "w"), indent=1, sort_keys=True)
