"""BOUNDED stand-ins (never counted as proved) for functions the contracts do not reach.

Runs under /venv/bin/python with PYTHONPATH=<tree under test>. Each battery enumerates a stated finite scenario space on
the REAL code and compares with an oracle written from the property statement (a pure-Python model, a brute-force scan
or a canonical walk of the file through the public API). Output: one JSON line {battery, bound, evaluations, violations}.
usage: bounded.py <battery> <repo_dir> [quick|thorough]
"""
import itertools
import json
import os
import sys
import tempfile
import uuid

import numpy as np

N = [0]
BAD = []


def newfile(name="t.nix", **kw):
    import nixio
    d = tempfile.mkdtemp(prefix="bnd_")
    return nixio.File.open(os.path.join(d, name), nixio.FileMode.Overwrite, **kw)


def bad(what, **kw):
    if len(BAD) < 5:
        BAD.append(dict(what=what, input=json.loads(json.dumps(kw, default=str))))


def check(cond, what, **kw):
    N[0] += 1
    if not cond:
        bad(what, **kw)


def forests(n):
    """all ordered forests with exactly n nodes (nested lists)"""
    if n == 0:
        yield []
        return
    for k in range(1, n + 1):
        for sub in forests(k - 1):
            for rest in forests(n - k):
                yield [sub] + rest


# ------------------------------------------------------------------------------------------------------------------
# canonical walk: every observable of every entity reachable through the public API
# ------------------------------------------------------------------------------------------------------------------
def _safe(fn):
    try:
        v = fn()
    except Exception as e:            # an accessor that raises is part of the observable state too
        return "!%s" % type(e).__name__
    if isinstance(v, np.ndarray):
        return [v.dtype.str, list(v.shape), v.tolist()]
    if isinstance(v, (tuple, list)):
        return [x.item() if hasattr(x, "item") else x for x in v]
    if hasattr(v, "item") and not isinstance(v, (str, bytes)):
        try:
            return v.item()
        except Exception:
            return str(v)
    return v


def walk_entity(e, kind):
    d = dict(kind=kind, id=_safe(lambda: e.id), name=_safe(lambda: e.name), type=_safe(lambda: e.type),
             definition=_safe(lambda: e.definition), created=_safe(lambda: e.created_at))
    return d


def walk_section(s):
    d = walk_entity(s, "section")
    d.update(repository=_safe(lambda: s.repository), reference=_safe(lambda: s.reference),
             link=_safe(lambda: s.link.id if s.link is not None else None),
             props=[dict(name=_safe(lambda: p.name), id=_safe(lambda: p.id), unit=_safe(lambda: p.unit),
                         values=_safe(lambda: p.values), dtype=_safe(lambda: str(p.data_type)),
                         definition=_safe(lambda: p.definition)) for p in s.props],
             sections=[walk_section(c) for c in s.sections])
    return d


def walk_source(s):
    d = walk_entity(s, "source")
    d.update(meta=_safe(lambda: s.metadata.id if s.metadata is not None else None), sources=[walk_source(c) for c in s.sources])
    return d


def walk_dim(dim):
    import nixio
    t = dim.dimension_type
    d = dict(dtype=str(t), index=_safe(lambda: dim.index))
    if t == nixio.DimensionType.Sample:
        d.update(si=_safe(lambda: dim.sampling_interval), unit=_safe(lambda: dim.unit), offset=_safe(lambda: dim.offset),
                 label=_safe(lambda: dim.label))
    elif t == nixio.DimensionType.Range:
        d.update(ticks=_safe(lambda: dim.ticks), unit=_safe(lambda: dim.unit), label=_safe(lambda: dim.label),
                 linked=_safe(lambda: dim.has_link))
    else:
        d.update(labels=_safe(lambda: dim.labels), linked=_safe(lambda: dim.has_link))
    return d


def walk_array(a):
    d = walk_entity(a, "array")
    d.update(label=_safe(lambda: a.label), unit=_safe(lambda: a.unit), origin=_safe(lambda: a.expansion_origin),
             coeff=_safe(lambda: a.polynom_coefficients), shape=_safe(lambda: a.shape), dtype=_safe(lambda: str(a.dtype)),
             data=_safe(lambda: a[:]), dims=[walk_dim(x) for x in a.dimensions],
             sources=[_safe(lambda s=s: s.id) for s in a.sources],
             meta=_safe(lambda: a.metadata.id if a.metadata is not None else None))
    return d


def walk_tag(t, multi):
    d = walk_entity(t, "mtag" if multi else "tag")
    d.update(units=_safe(lambda: t.units), refs=[_safe(lambda r=r: r.id) for r in t.references],
             sources=[_safe(lambda s=s: s.id) for s in t.sources],
             features=[dict(id=_safe(lambda ft=ft: ft.id), link=_safe(lambda ft=ft: str(ft.link_type)),
                            data=_safe(lambda ft=ft: ft.data.id)) for ft in t.features],
             meta=_safe(lambda: t.metadata.id if t.metadata is not None else None))
    if multi:
        d.update(positions=_safe(lambda: t.positions.id), extents=_safe(lambda: t.extents.id if t.extents is not None else None))
    else:
        d.update(position=_safe(lambda: t.position), extent=_safe(lambda: t.extent))
    return d


def walk_file(f):
    out = dict(version=_safe(lambda: f.version), format=_safe(lambda: f.format), blocks=[], sections=[walk_section(s) for s in f.sections])
    for b in f.blocks:
        d = walk_entity(b, "block")
        d.update(meta=_safe(lambda: b.metadata.id if b.metadata is not None else None),
                 arrays=[walk_array(a) for a in b.data_arrays], tags=[walk_tag(t, False) for t in b.tags],
                 mtags=[walk_tag(t, True) for t in b.multi_tags], sources=[walk_source(s) for s in b.sources],
                 groups=[dict(walk_entity(g, "group"), arrays=[x.id for x in g.data_arrays], tags=[x.id for x in g.tags],
                              mtags=[x.id for x in g.multi_tags], sources=[x.id for x in g.sources],
                              meta=_safe(lambda g=g: g.metadata.id if g.metadata is not None else None)) for g in b.groups])
        out["blocks"].append(d)
    return json.loads(json.dumps(out, default=str, sort_keys=True))


def diff(a, b, path=""):
    if a == "GONE":
        return None if (b is None or (isinstance(b, str) and b.startswith("!"))) else "%s: a link to a deleted entity still yields %r" % (path, b)
    if type(a) is not type(b):
        return "%s: %r vs %r" % (path, a, b)
    if isinstance(a, dict):
        for k in sorted(set(a) | set(b)):
            if k not in a or k not in b:
                return "%s.%s: only on one side" % (path, k)
            r = diff(a[k], b[k], path + "." + k)
            if r:
                return r
        return None
    if isinstance(a, list):
        if len(a) != len(b):
            return "%s: length %d vs %d" % (path, len(a), len(b))
        for i, (x, y) in enumerate(zip(a, b)):
            r = diff(x, y, "%s[%d]" % (path, i))
            if r:
                return r
        return None
    return None if a == b or (a != a and b != b) else "%s: %r vs %r" % (path, a, b)


def sample_file(f):
    """a file with every entity kind, links from several places, namesakes, non-ASCII and None values"""
    import nixio
    sec = f.create_section("sess", "t"); sec.create_property("subject", ["mouse", "ünïcode"]); sec.create_property("n", [1, 2, 3])
    sec.create_property("flag", [True]); sec.create_property("w", [0.5]); sub = sec.create_section("sub", "t"); sub.create_property("n", [7])
    sec2 = f.create_section("other", "t"); sub2 = sec2.create_section("sub", "t"); sec.reference = "ref"; sec2.repository = "repo"
    for bi in range(2):
        b = f.create_block("blk%d" % bi, "t"); b.definition = "def-%d" % bi
        a1 = b.create_data_array("same", "t", data=np.arange(12, dtype=float).reshape(3, 4)); a1.label = "lab"; a1.unit = "mV"
        a1.append_sampled_dimension(0.5, label="time", unit="ms", offset=1.0); a1.append_range_dimension(ticks=[1.0, 2.0, 4.0, 8.0], unit="s")
        a2 = b.create_data_array("ints", "t", data=np.array([1, 2, 3], dtype=np.int32)); a2.append_set_dimension(["a", "b", "c"])
        a2.polynom_coefficients = [1.0, 2.0]; a2.expansion_origin = 0.5
        a3 = b.create_data_array("text", "t", dtype=nixio.DataType.String, data=["x", "yy", "ü"]); a3.append_set_dimension()
        pos = b.create_data_array("pos", "t", data=np.array([[0.5, 1.0], [1.0, 2.0]])); ext = b.create_data_array("ext", "t", data=np.array([[0.5, 1.0], [0.5, 2.0]]))
        t = b.create_tag("tag", "t", [0.5, 1.0]); t.extent = [1.0, 3.0]; t.units = ["ms", "s"]; t.references.append(a1)
        t.create_feature(a2, nixio.LinkType.Untagged)
        mt = b.create_multi_tag("mtag", "t", pos); mt.extents = ext; mt.references.append(a1); mt.units = ["ms", "s"]
        mt.create_feature(pos, nixio.LinkType.Indexed)
        s = b.create_source("src", "t"); c = s.create_source("child", "t"); c2 = c.create_source("child", "t")
        a1.sources.append(c2); t.sources.append(s); mt.sources.append(c)
        g = b.create_group("grp", "t"); g.data_arrays.append(a1); g.data_arrays.append(a2); g.tags.append(t); g.multi_tags.append(mt); g.sources.append(c)
        b.metadata = sec; a1.metadata = sub; t.metadata = sub2 if bi else sub; g.metadata = sec2; s.metadata = sec
    return f


# ------------------------------------------------------------------------------------------------------------------
def b_c02(tier):
    """close/reopen (read-only and read-write) reproduces the canonical walk; multi-handle histories"""
    import nixio
    f = sample_file(newfile())
    path = f._h5file.filename
    before = walk_file(f); f.close()
    for mode in (nixio.FileMode.ReadOnly, nixio.FileMode.ReadWrite):
        g = nixio.File.open(path, mode); after = walk_file(g); g.close()
        r = diff(before, after)
        check(r is None, "state after reopen differs from the state before closing", mode=str(mode), where=r)
    # histories with several handles to the same entity, close+reopen at the end
    hist = 0
    for kind in ("data_arrays", "tags", "multi_tags", "sources"):
        for order in itertools.permutations(range(3)):
            hist += 1
            f = sample_file(newfile()); path = f._h5file.filename
            b = f.blocks[0]
            hA = b.groups["grp"]; hB = b.groups["grp"]
            cont_a, cont_b = getattr(hA, kind), getattr(hB, kind)
            members = list(cont_a)
            pool = list(getattr(b, kind)) if kind != "sources" else b.find_sources()
            extra = [x for x in pool if all(x.id != m.id for m in members)]
            steps = [lambda: [cont_b.__delitem__(m) for m in list(cont_b)],          # B empties the list
                     lambda: cont_a.append(extra[0]) if extra else None,              # A appends
                     lambda: len(cont_b)]                                              # B looks
            try:
                for k in order:
                    steps[k]()
            except Exception as e:
                continue       # a history the API refuses is not a history
            live = sorted(x.id for x in getattr(b.groups["grp"], kind))
            f.close()
            g = nixio.File.open(path, nixio.FileMode.ReadOnly)
            stored = sorted(x.id for x in getattr(g.blocks[0].groups["grp"], kind)); g.close()
            check(live == stored, "what a fresh handle showed before closing is not what the reopened file shows",
                  container=kind, order=list(order), before_close=live, after_reopen=stored)
            if tier == "quick" and hist >= 8:
                break
    return "sample file with every entity kind x {read-only, read-write} reopen; two-handle histories on group link lists: all 3! orders of {empty through B, append through A, read through B} x 4 list kinds"


def b_c13(tier):
    """parents and referring lists against the stored tree / links, handles from every access path"""
    import nixio
    nmax = 4 if tier == "quick" else 5
    for n in range(1, nmax + 1):
        for forest in forests(n):
            f = newfile(); b = f.create_block("b", "t"); da = b.create_data_array("a", "t", data=[1.0])
            nodes = []

            def build(parent, sub, depth, pname):
                for sh in sub:
                    nm = "n%d" % (len(nodes) % 2)             # namesakes in different parents (and clashes avoided per parent)
                    while nm in [x.name for x in (parent.sources)]:
                        nm += "x"
                    s = parent.create_source(nm, "t")
                    nodes.append((s, pname, depth))
                    build(s, sh, depth + 1, s.id)
            build(b, forest, 0, None)
            for s, pid, depth in nodes:
                da.sources.append(s)
            for k, (s, pid, depth) in enumerate(nodes):
                for how, h in (("tree", s), ("link", da.sources[s.id]), ("find", [x for x in b.find_sources() if x.id == s.id][0])):
                    p = h.parent_source
                    check((p.id if p is not None else None) == pid, "parent_source differs from the tree", forest=forest, node=k,
                          via=how, got=(p.id if p is not None else None), expected=pid)
                    check(h.parent_block.id == b.id, "parent_block is not the containing block", forest=forest, node=k, via=how)
            f.close()
    # sections: parent from every access path, referring_* = inverse of the stored metadata links
    for n in range(1, nmax):
        for forest in forests(n):
            f = newfile(); b = f.create_block("b", "t")
            secs = []

            def build(parent, sub, pname):
                for sh in sub:
                    nm = "s%d" % (len(secs) % 2)
                    while nm in [x.name for x in parent.sections]:
                        nm += "x"
                    s = parent.create_section(nm, "t")
                    if len(secs) % 2:
                        s.create_property("p", [1])          # sections with and without properties
                    secs.append((s, pname))
                    build(s, sh, s.id)
            build(f, forest, None)
            ents = dict(blocks=[b], groups=[b.create_group("g%d" % i, "t") for i in range(2)],
                        data_arrays=[b.create_data_array("a%d" % i, "t", data=[1.0]) for i in range(2)],
                        tags=[b.create_tag("t%d" % i, "t", [0.0]) for i in range(2)],
                        multi_tags=[b.create_multi_tag("m%d" % i, "t", b.create_data_array("p%d" % i, "t", data=[1.0])) for i in range(2)],
                        sources=[b.create_source("src%d" % i, "t") for i in range(2)])
            k = 0
            links = {}
            for kind, es in ents.items():
                for e in es:
                    s = secs[k % len(secs)][0]; k += 1
                    e.metadata = s; links.setdefault((s.id, kind), []).append(e.id)
            for s, pid in secs:
                h = [x for x in f.find_sections() if x.id == s.id][0]
                for how, hh in (("tree", s), ("find", h)):
                    p = hh.parent
                    check((p.id if p is not None else None) == pid, "Section.parent differs from the tree", forest=forest,
                          via=how, got=(p.id if p is not None else None), expected=pid)
                for kind in ents:
                    got = sorted(x.id for x in getattr(h, "referring_" + kind))
                    check(got == sorted(links.get((s.id, kind), [])), "referring list is not the inverse of the stored links",
                          kind=kind, forest=forest, section_has_props=bool(len(s.props)), got=got,
                          expected=sorted(links.get((s.id, kind), [])))
            f.close()
    return "all ordered source forests with <= %d nodes and section forests with <= %d nodes (namesakes, sections with/without properties), handles via tree / link list / search" % (nmax, nmax - 1)


# ------------------------------------------------------------------------------------------------------------------
def _coords(kind, n, p):
    """sample coordinates; sampled dimensions and unlabelled set dimensions do not end with the stored data (a region
    reaching samples beyond it "runs past the stored data")"""
    if kind == "sample":
        return [p["off"] + i * p["si"] for i in range(n + 40)]
    if kind == "range":
        return list(p["ticks"])
    return [float(i) for i in range(n + 40)]


def _expected(coords, start, ext, incl):
    if ext is None or ext <= 0:
        return [i for i, c in enumerate(coords) if c == start]
    end = start + ext
    return [i for i, c in enumerate(coords) if c >= start and (c <= end if incl else c < end)]


def _add_dim(da, kind, p, unit):
    if kind == "sample":
        da.append_sampled_dimension(p["si"], unit=unit, offset=p["off"])
    elif kind == "range":
        da.append_range_dimension(ticks=p["ticks"], unit=unit)
    else:
        da.append_set_dimension()


def b_c08(tier):
    """tagged data / feature data = exactly the samples inside the region (brute-force scan of sample coordinates)"""
    import nixio
    from nixio.exceptions import OutOfBounds
    shape = (6, 5)
    data = np.arange(30, dtype=float).reshape(shape)
    dimsets = [(("sample", dict(si=0.5, off=1.0)), ("range", dict(ticks=[1.0, 2.0, 4.0, 4.5, 8.0]))),
               (("set", {}), ("sample", dict(si=2.0, off=0.0))),
               (("range", dict(ticks=[0.0, 0.25, 0.5, 2.0, 3.0, 7.0])), ("set", {}))]
    starts = [0.0, 0.25, 1.0, 1.5, 2.0, 4.0, 9.0] if tier == "quick" else [-1.0, 0.0, 0.25, 0.75, 1.0, 1.5, 2.0, 3.0, 4.0, 4.5, 9.0]
    exts = [None, 0.0, 0.5, 1.0, 2.5] if tier == "quick" else [None, 0.0, 0.25, 0.5, 1.0, 2.0, 2.5, 6.0]
    f = newfile(); b = f.create_block("b", "t")
    k = 0
    for dims in dimsets:
        for scale_unit in (None, "ms"):
            k += 1
            da = b.create_data_array("a%d" % k, "t", data=data)
            units = []
            for kind, p in dims:
                if kind == "set":
                    _add_dim(da, kind, p, None); units.append("" if scale_unit else None)
                else:
                    _add_dim(da, kind, p, "s" if scale_unit else None); units.append(scale_unit)
            factor = 1000.0 if scale_unit else 1.0            # tag in ms, dimension in s
            coords = [_coords(kind, shape[i], p) for i, (kind, p) in enumerate(dims)]
            feat_arr = b.create_data_array("f%d" % k, "t", data=data + 100)
            for kind, p in dims:
                _add_dim(feat_arr, kind, p, ("s" if scale_unit else None) if kind != "set" else None)
            pairs = list(itertools.product(starts, exts))
            for (s0, e0), (s1, e1) in zip(pairs, pairs[3:] + pairs[:3]):
                for npos in (1, 2):
                    pos = [s0 * (factor if dims[0][0] != "set" else 1.0), s1 * (factor if dims[1][0] != "set" else 1.0)][:npos]
                    ext = None if (e0 is None or e1 is None) else \
                        [e0 * (factor if dims[0][0] != "set" else 1.0), e1 * (factor if dims[1][0] != "set" else 1.0)][:npos]
                    k += 1
                    tag = b.create_tag("t%d" % k, "t", pos)
                    if ext is not None:
                        tag.extent = ext
                    if scale_unit:
                        tag.units = units[:npos]
                    tag.references.append(da)
                    parr = b.create_data_array("p%d" % k, "t", data=np.array([pos, pos]))
                    mt = b.create_multi_tag("m%d" % k, "t", parr)
                    if ext is not None:
                        mt.extents = b.create_data_array("e%d" % k, "t", data=np.array([ext, ext]))
                    if scale_unit:
                        mt.units = units[:npos]
                    mt.references.append(da)
                    ftag = tag.create_feature(feat_arr, nixio.LinkType.Tagged)
                    mt.create_feature(feat_arr, nixio.LinkType.Tagged)
                    for incl in (True, False):
                        rule = nixio.SliceMode.Inclusive if incl else nixio.SliceMode.Exclusive
                        idx = []
                        for d in range(2):
                            if d < npos:
                                e = None if ext is None else [e0, e1][d]
                                idx.append(_expected(coords[d], [s0, s1][d], e, incl))
                            else:
                                idx.append(list(range(shape[d])))
                        empty = any(len(ix) == 0 or ix[-1] >= shape[d] for d, ix in enumerate(idx))
                        want = None if empty else data[idx[0][0]:idx[0][-1] + 1, idx[1][0]:idx[1][-1] + 1]
                        for what, call, base in (("Tag.tagged_data", lambda: tag.tagged_data(0, rule), 0),
                                                 ("MultiTag.tagged_data", lambda: mt.tagged_data(1, 0, rule), 0),
                                                 ("Tag.feature_data", lambda: tag.feature_data(0, rule), 100),
                                                 ("MultiTag.feature_data", lambda: mt.feature_data(1, 0, rule), 100)):
                            try:
                                v = call()
                                got = np.array(v[:]) if v.valid else None
                            except OutOfBounds:
                                got = None
                            except Exception as ex:
                                got = "!" + type(ex).__name__
                            ok = (got is None and want is None) or (isinstance(got, np.ndarray) and want is not None and
                                                                   got.shape == want.shape and np.array_equal(got, want + base))
                            check(ok, "%s is not exactly the samples inside the region" % what, dims=[d[0] for d in dims],
                                  position=pos, extent=ext, units=units[:npos] if scale_unit else None, inclusive=incl,
                                  expected_indices=idx, got=(got.tolist() if isinstance(got, np.ndarray) else got))
    f.close()
    return "2-D arrays with 3 descriptor mixes x {no units, ms->s} x %d start/extent pairs x position length 1..2 x both stop rules x {Tag, MultiTag} x {tagged data, tagged feature}" % len(list(itertools.product(starts, exts)))


# ------------------------------------------------------------------------------------------------------------------
def b_c16(tier):
    """data frame = faithful table: every creation variant, appends, overwrites by name and by every legal index, refusals"""
    import nixio
    from collections import OrderedDict
    schemas = [OrderedDict([("name", str), ("id", int), ("w", float), ("ok", bool)]),
               OrderedDict([("a", int)]), OrderedDict([("x", float), ("y", float), ("lab", str)])]
    if tier != "quick":
        schemas.append(OrderedDict([("s8", np.int8), ("u16", np.uint16), ("f32", np.float32), ("t", str), ("b", bool), ("i", int)]))

    def cell(tp, r, c):
        if tp is str: return "r%dc%d" % (r, c)
        if tp is bool: return bool((r + c) % 2)
        if tp in (float, np.float32): return r + c / 4.0
        return int(r * 3 + c)
    f = newfile(); b = f.create_block("b", "t")
    k = 0
    for sch in schemas:
        names, types = list(sch), list(sch.values())
        for nrows in (0, 1, 3):
            rows = [tuple(cell(tp, r, c) for c, tp in enumerate(types)) for r in range(nrows)]
            variants = [("col_dict", dict(col_dict=sch)), ("names+dtypes", dict(col_names=names, col_dtypes=types))]
            if nrows:
                variants.append(("names+data", dict(col_names=names)))
            for vname, kw in variants:
                k += 1
                try:
                    df = b.create_data_frame("df%d" % k, "t", data=(rows if nrows else None), **kw)
                except Exception as e:
                    check(False, "create_data_frame refused a legal table", variant=vname, columns=names, rows=nrows, error=repr(e))
                    continue
                model = [list(r) for r in rows]

                def same(where):
                    got = [list(x) for x in df.read_rows(list(range(len(model))))] if model else []
                    ok = len(df) == len(model) and tuple(df.df_shape) == (len(model), len(names)) and \
                        list(df.column_names) == names and all(
                            all((a == e) and (isinstance(a, (bool, np.bool_)) == isinstance(e, bool)) for a, e in zip(g, m))
                            for g, m in zip(got, model))
                    check(ok, "the frame does not read back as the table that was written", after=where, variant=vname,
                          columns=names, expected=model, got=got, shape=tuple(df.df_shape), names=list(df.column_names))
                same("creation")
                new = [tuple(cell(tp, r + 10, c) for c, tp in enumerate(types)) for r in range(2)]
                df.append_rows(new); model += [list(r) for r in new]; same("append_rows")
                for ci, (nm, tp) in enumerate(zip(names, types)):
                    col = [cell(tp, r + 20, ci) for r in range(len(model))]
                    for how in ("index", "name"):
                        if how == "index": df.write_column(col, index=ci)
                        else: df.write_column(col, name=nm)
                        for r in range(len(model)): model[r][ci] = col[r]
                        same("write_column by %s %r" % (how, ci if how == "index" else nm))
                        got = list(df.read_columns(index=[ci])) if how == "index" else list(df.read_columns(name=[nm]))
                        check(got == col, "read_columns differs from the written column", column=nm, expected=col, got=got)
                    for badlen in (len(model) - 1, len(model) + 1):
                        before = [list(x) for x in df.read_rows(list(range(len(model))))]
                        try:
                            df.write_column([cell(tp, r, ci) for r in range(badlen)], index=ci)
                            check(False, "a column of the wrong length was accepted", column=nm, rows=len(model), given=badlen)
                        except ValueError:
                            check([list(x) for x in df.read_rows(list(range(len(model))))] == before,
                                  "a refused write_column changed the table", column=nm)
                r0 = len(model) - 1
                newrow = tuple(cell(tp, 30, c) for c, tp in enumerate(types))
                df.write_rows([newrow], [r0]); model[r0] = list(newrow); same("write_rows last row")
                df.write_rows([newrow], [0]); model[0] = list(newrow); same("write_rows first row")
                try:
                    df.write_rows([newrow], [len(model)])
                    check(False, "a row index beyond the last row was accepted", rows=len(model))
                except Exception:
                    same("refused write_rows")
                df.write_cell(cell(types[0], 40, 0), position=(1, 0)); model[1][0] = cell(types[0], 40, 0); same("write_cell by position")
                check(df.read_cell(position=(1, 0)) == model[1][0], "read_cell by position differs", expected=model[1][0])
            try:
                b.create_data_frame("dup%d" % k, "t", col_names=names + [names[0]], col_dtypes=types + [types[0]])
                check(False, "a duplicate column name was accepted (names+dtypes)")
            except nixio.exceptions.DuplicateColumnName:
                N[0] += 1
            if nrows:
                try:
                    b.create_data_frame("dupd%d" % k, "t", col_names=names + [names[0]], data=[r + (r[0],) for r in rows])
                    check(False, "a duplicate column name was accepted (names+data)")
                except nixio.exceptions.DuplicateColumnName:
                    N[0] += 1
                check("dupd%d" % k not in b.data_frames, "a refused create_data_frame left a frame behind")
    f.close()
    return "%d schemas x row counts {0,1,3} x creation variants {col_dict, names+dtypes, names+data}; append rows, overwrite every column by index and by name, first/last row, one cell; wrong lengths, out-of-range row, duplicate column names" % len(schemas)


# ------------------------------------------------------------------------------------------------------------------
def b_c05(tier):
    """links are aliases and stay in their block: every link kind, change through every path, acceptance / refusal"""
    import nixio
    f = sample_file(newfile())
    b0, b1 = f.blocks[0], f.blocks[1]
    a = b0.data_arrays["same"]; foreign = b1.data_arrays["same"]
    t = b0.tags["tag"]; mt = b0.multi_tags["mtag"]; g = b0.groups["grp"]
    paths = dict(block=lambda: b0.data_arrays["same"], group=lambda: g.data_arrays[a.id], tag=lambda: t.references[a.id],
                 mtag=lambda: mt.references[a.id])
    for wname, w in paths.items():
        w().label = "via-" + wname
        for rname, r in paths.items():
            check(r().label == "via-" + wname and r().id == a.id, "a change through one path is not visible through another",
                  written_through=wname, read_through=rname)
    for lname, lst, item in (("group.data_arrays", g.data_arrays, foreign), ("tag.references", t.references, foreign),
                             ("mtag.references", mt.references, foreign), ("group.tags", g.tags, b1.tags["tag"]),
                             ("group.multi_tags", g.multi_tags, b1.multi_tags["mtag"]),
                             ("array.sources", a.sources, b1.sources["src"]), ("tag.sources", t.sources, b1.sources["src"].sources["child"]),
                             ("group.data_arrays(wrong kind)", g.data_arrays, t)):
        before = [x.id for x in lst]
        try:
            lst.append(item)
            check(False, "a link list accepted an entity of another block / of the wrong kind", list=lname)
        except (RuntimeError, TypeError):
            check([x.id for x in lst] == before, "a refused append changed the list", list=lname)
    for src in b0.find_sources():              # sources anywhere in the block's tree are accepted
        a2 = b0.data_arrays["ints"]
        a2.sources.append(src)
        check(a2.sources[src.id].id == src.id, "a source of the block's own tree was not linked as itself", depth_name=src.name)
    # features: data of the right block accepted (alias), foreign data refused and the feature left as it was
    ft = t.features[0]
    before = (ft.data.id, str(ft.link_type), type(ft.data).__name__)
    for item in (foreign, b1.data_arrays["ints"]):
        try:
            ft.data = item
            check(False, "Feature.data accepted an array of another block")
        except RuntimeError:
            check((ft.data.id, str(ft.link_type), type(ft.data).__name__) == before, "a refused Feature.data changed the feature",
                  before=before, after=(ft.data.id, str(ft.link_type), type(ft.data).__name__))
    ft.data = b0.data_arrays["pos"]
    check(ft.data.id == b0.data_arrays["pos"].id, "Feature.data is not the array that was set")
    # dimension links: the configured vector, unit / label forwarding, ticks <-> link replacement, re-linking
    vec = b0.create_data_array("vec", "t", data=np.array([[1.0, 2.0, 3.0], [10.0, 20.0, 30.0], [100.0, 200.0, 300.0]])); vec.unit = "ms"; vec.label = "L"
    for index, want in (([-1, 0], [1.0, 10.0, 100.0]), ([-1, 2], [3.0, 30.0, 300.0]), ([0, -1], [1.0, 2.0, 3.0]), ([2, -1], [100.0, 200.0, 300.0])):
        da = b0.create_data_array("d%s" % "".join(map(str, index)).replace("-", "m"), "t", data=[0.0, 0.0, 0.0])
        rd = da.append_range_dimension(ticks=[5.0, 6.0, 7.0])
        rd.link_data_array(vec, index)
        check(list(rd.ticks) == want and rd.unit == "ms" and rd.label == "L", "a linked range dimension does not report the configured vector / unit / label",
              index=index, ticks=list(rd.ticks), unit=rd.unit, label=rd.label)
        vec.unit = "s"; check(rd.unit == "s", "the unit of the linked array is not reported"); vec.unit = "ms"
        rd.ticks = [1.0, 2.0, 3.0]
        check(not rd.has_link and list(rd.ticks) == [1.0, 2.0, 3.0], "explicit ticks did not replace the link")
        rd.link_data_array(vec, index); rd.link_data_array(vec, index[::-1])
        check(list(rd.ticks) == (want if index[::-1] == index else list(np.array(vec[:])[tuple(slice(None) if i == -1 else i for i in index[::-1])])),
              "re-linking does not report the newly configured vector", index=index[::-1], ticks=list(rd.ticks))
        for badidx in ([0, 0], [-1, -1], [-1, -2], [-1]):
            snap = (list(rd.ticks), rd.has_link)
            try:
                rd.link_data_array(vec, badidx)
                check(False, "an invalid link index was accepted", index=badidx)
            except Exception:
                check((list(rd.ticks), rd.has_link) == snap, "a refused link_data_array changed the dimension", index=badidx)
        sd = da.append_set_dimension(["a", "b", "c"])
        sd.link_data_array(vec, index)
        check([float(x) for x in sd.labels] == want, "a linked set dimension does not report the configured vector", index=index)
    df1 = b0.create_data_frame("df1", "t", col_dict={"c0": float, "c1": float}, data=[(1.0, 2.0), (3.0, 4.0)])
    df2 = b0.create_data_frame("df2", "t", col_dict={"c0": float, "c1": float}, data=[(5.0, 6.0), (7.0, 8.0)])
    da = b0.create_data_array("dfl", "t", data=[0.0, 0.0]); rd = da.append_range_dimension(ticks=[0.0, 1.0])
    rd.link_data_frame(df1, 1)
    check([float(x) for x in rd.ticks] == [2.0, 4.0], "a range dimension linked to a frame column does not report that column")
    rd.link_data_frame(df2, 0)
    check([float(x) for x in rd.ticks] == [5.0, 7.0], "re-linking to another frame still reports the old target", ticks=list(rd.ticks))
    f.close()
    return "one sample file: every link kind (group lists, references, sources, features, dimension links to arrays / frame columns): change through every path read through every path, foreign / wrong-kind appends, all 4 vector positions of a 2-D link, replacement and re-linking, invalid indices"


def b_c04(tier):
    """delete removes the entity, its subtree and every link to it - nothing else (canonical walk of the rest)"""
    import nixio

    def strip(w, ids):
        """the walk with every entity / link whose id is in ids removed"""
        if isinstance(w, dict):
            if w.get("id") in ids:
                return None
            out = {}
            for k, v in w.items():
                if k in ("meta", "positions", "extents", "link", "data") and isinstance(v, str) and v in ids:
                    out[k] = "GONE"            # the link is gone: the accessor yields nothing (None) or raises
                else:
                    out[k] = strip(v, ids)
            return out
        if isinstance(w, list):
            return [x for x in (strip(v, ids) for v in w if not (isinstance(v, str) and v in ids)) if x is not None]
        return w
    targets = [("blocks", None, "blk0"), ("data_arrays", "blk0", "same"), ("data_arrays", "blk0", "ints"), ("tags", "blk0", "tag"),
               ("multi_tags", "blk0", "mtag"), ("groups", "blk0", "grp"), ("sources", "blk0", "src"), ("sections", None, "sess"),
               ("sections", None, "other"), ("data_arrays", "blk1", "pos")]
    for cont, blk, name in targets:
        for how in ("name", "id", "index", "object"):
            f = sample_file(newfile())
            owner = f if blk is None else f.blocks[blk]
            c = getattr(owner, cont)
            ent = c[name]
            before = walk_file(f)
            ids = {ent.id}
            if cont in ("sources", "sections"):
                ids |= {x.id for x in (ent.find_sources() if cont == "sources" else ent.find_sections())}
            if cont == "blocks":
                ids |= {x["id"] for k in ("arrays", "tags", "mtags", "groups") for x in [bb for bb in before["blocks"] if bb["id"] == ent.id][0][k]}
                ids |= {s.id for s in ent.find_sources()}
            if cont == "sections":
                ids |= {p["id"] for p in _all_props(before, ids)}
            key = dict(name=name, id=ent.id, index=[x.id for x in c].index(ent.id), object=ent)[how]
            try:
                del c[key]
            except Exception as e:
                check(False, "a legal delete was refused", container=cont, by=how, error=repr(e)); f.close(); continue
            after = walk_file(f)
            r = diff(strip(before, ids), after)
            # a multi-tag whose positions array was deleted is itself inconsistent; everything else must match exactly
            check(r is None, "after a delete the rest of the file differs from (before minus the deleted entities and links to them)",
                  container=cont, entity=name, by=how, where=r)
            f.close()
            if tier == "quick" and how == "id":
                break
    # removing links / clearing metadata never deletes an entity
    f = sample_file(newfile()); b = f.blocks[0]; g = b.groups["grp"]
    before = walk_file(f)
    for lst in (g.data_arrays, g.tags, g.multi_tags, g.sources):
        for x in list(lst):
            del lst[x]
    for e in (b, b.data_arrays["same"], b.tags["tag"], g, b.sources["src"]):
        del e.metadata
    lone = b.create_group("lone", "t"); lone.data_arrays.append(b.data_arrays["ints"]); del lone.data_arrays[0]
    lone2 = b.create_source("lone2", "t"); lone2.metadata = f.sections["sess"]; del lone2.metadata
    after = walk_file(f)
    names = lambda w: sorted(x["name"] for k in ("arrays", "tags", "mtags", "groups", "sources") for x in w["blocks"][0][k])
    check(names(after) == sorted(names(before) + ["lone", "lone2"]) and len(after["sections"]) == len(before["sections"]),
          "removing links / clearing metadata deleted an entity", before=names(before), after=names(after))
    f.close()
    return "sample file: delete each of 10 entities (block, arrays, tag, multi-tag, group, source tree, section trees) by name / id / index / object and compare the canonical walk with (before minus deleted); remove every link of a group, clear metadata links, last entry of a list"


def _all_props(w, secids):
    out = []

    def rec(s):
        if s["id"] in secids:
            out.extend(s["props"])
        for c in s["sections"]:
            rec(c)
    for s in w["sections"]:
        rec(s)
    return out


# ------------------------------------------------------------------------------------------------------------------
def b_c03(tier):
    """all lookups describe one creation-order sequence - through create/delete/re-create histories on live containers"""
    import nixio
    from nixio.exceptions import DuplicateName
    pool = ["zeta", "alpha", str(uuid.uuid4()), " lead", "trail ", "mid dle", "ünï", "a" * 200, "0"]
    f = newfile(); b = f.create_block("b", "t"); sec = f.create_section("s", "t"); src = b.create_source("root", "t")
    makers = dict(data_arrays=(b, lambda n: b.create_data_array(n, "t", data=[1.0])), tags=(b, lambda n: b.create_tag(n, "t", [0.0])),
                  groups=(b, lambda n: b.create_group(n, "t")), sources=(src, lambda n: src.create_source(n, "t")),
                  sections=(sec, lambda n: sec.create_section(n, "t")), blocks=(f, lambda n: f.create_block(n, "t")),
                  props=(sec, lambda n: sec.create_property(n, [1])))
    for cname, (owner, make) in makers.items():
        cont = getattr(owner, cname)             # ONE live container object through the whole history
        model = [(x.name, x.id) for x in cont]
        hist = [("c", n) for n in pool] + [("d", pool[1]), ("c", pool[1]), ("d", pool[2]), ("lookup-old", None), ("c", pool[2]),
                                           ("d", pool[0]), ("c", pool[0]), ("dup", pool[3])]
        old_ids = []
        for op, n in hist:
            if op == "c":
                e = make(n); model.append((n, e.id))
                check(len(e.id) == 36 and e.id not in [i for _, i in model[:-1]] and e.id not in old_ids, "a new id is not a fresh UUID", name=n)
            elif op == "d":
                old_ids.append(dict(model)[n]); _ = cont[n]; _ = cont[dict(model)[n]]       # look it up (by name and id) first
                del cont[n]; model = [(x, i) for x, i in model if x != n]
            elif op == "dup":
                try:
                    make(n); check(False, "a duplicate name was accepted", container=cname, name=n)
                except DuplicateName:
                    N[0] += 1
            names = [x for x, _ in model]
            got = [(x.name, x.id) for x in cont]
            check(got == model and len(cont) == len(model), "iteration / length do not describe the creation-order sequence",
                  container=cname, after=(op, n), expected=names, got=[g[0] for g in got])
            for i, (nm, eid) in enumerate(model):
                ok = cont[i].id == eid and cont[i - len(model)].id == eid and cont[nm].id == eid and cont[eid].name == nm and \
                    nm in cont and eid in cont and cont[nm] in cont
                check(ok, "lookups by index / name / id / membership disagree", container=cname, name=nm, index=i, after=(op, n))
            for gone in old_ids:
                if gone in [i for _, i in model]:
                    continue
                try:
                    x = cont[gone]
                    check(False, "the id of a deleted entity still retrieves something", container=cname, got=x.name)
                except KeyError:
                    check(gone not in cont, "membership and lookup by id disagree for a deleted id", container=cname)
            for badi in (len(model), -len(model) - 1):
                try:
                    cont[badi]; check(False, "an out-of-range index was accepted", index=badi)
                except IndexError:
                    N[0] += 1
    for badname in ("", "a/b", "/"):
        for cname, (owner, make) in makers.items():
            if badname == "" and cname == "blocks":
                continue          # a block created without a name is named after its id (documented)
            try:
                make(badname); check(False, "an illegal name was accepted", container=cname, name=badname)
            except (ValueError, DuplicateName):
                N[0] += 1
    # a name that IS another member's id (kept-id copies of a block that is named after its id): the name retrieves its own entity
    g2 = newfile("ids.nix"); anon = f.create_block("", "t"); nm = anon.name
    g2.create_block(name="backup", copy_from=anon, keep_copy_id=True); g2.create_block(copy_from=anon, keep_copy_id=True)
    check(g2.blocks[nm].name == nm, "lookup by a name that is also another member's id returned the other member", got=g2.blocks[nm].name)
    check(nm in g2.blocks and "backup" in g2.blocks and len(g2.blocks) == 2, "membership after kept-id copies")
    del g2.blocks[nm]
    check([b.name for b in g2.blocks] == ["backup"], "deleting by a name that is also another member's id removed the wrong member",
          left=[b.name for b in g2.blocks])
    g2.close()
    f.close()
    return "7 container kinds x one history of 17 create / lookup / delete / re-create steps on ONE live container object over 9 legal names (uuid-like, leading / trailing blanks, non-ASCII, long), all lookups after every step; illegal names; a name equal to another member's id"


def b_c12(tier):
    """a refused call leaves the file exactly as it was (canonical walk before / after)"""
    import nixio
    f = sample_file(newfile()); b = f.blocks[0]; a = b.data_arrays["same"]; sec = f.sections["sess"]
    rd = a.dimensions[1]; t = b.tags["tag"]; g = b.groups["grp"]; other = f.blocks[1]
    calls = [
        ("create_block dup", lambda: f.create_block("blk0", "t")), ("create_block bad name", lambda: f.create_block("a/b", "t")),
        ("create_block empty type", lambda: f.create_block("fresh", "")), ("create_section dup", lambda: f.create_section("sess", "t")),
        ("create_data_array dup", lambda: b.create_data_array("same", "t", data=[1.0])),
        ("create_data_array no shape", lambda: b.create_data_array("fresh", "t")),
        ("create_data_array shape mismatch", lambda: b.create_data_array("fresh", "t", data=[1.0, 2.0], shape=(3,))),
        ("create_tag dup", lambda: b.create_tag("tag", "t", [0.0])), ("create_tag bad name", lambda: b.create_tag("", "t", [0.0])),
        ("create_multi_tag dup", lambda: b.create_multi_tag("mtag", "t", b.data_arrays["pos"])),
        ("create_multi_tag extents collide", lambda: (b.create_data_array("mx-extents", "t", data=[1.0]) and None) or
         b.create_multi_tag("mx", "t", [[1.0]], [[1.0]])),
        ("create_group dup", lambda: b.create_group("grp", "t")), ("create_source dup", lambda: b.create_source("src", "t")),
        ("nested create_source dup", lambda: b.sources["src"].create_source("child", "t")),
        ("create_section nested dup", lambda: sec.create_section("sub", "t")),
        ("create_property dup", lambda: sec.create_property("n", [1])), ("create_property mixed", lambda: sec.create_property("fresh", [1, "a"])),
        ("create_property bool in ints", lambda: sec.create_property("fresh", [1, True])),
        ("create_property empty", lambda: sec.create_property("fresh", [])),
        ("property values wrong type", lambda: setattr(sec.props["n"], "values", ["x"])),
        ("property extend wrong type", lambda: sec.props["n"].extend_values([1.5])),
        ("dict-style wrong type", lambda: sec.__setitem__("n", [1, 2.5])),
        ("label wrong type", lambda: setattr(a, "label", 5)), ("definition wrong type", lambda: setattr(a, "definition", 5)),
        ("type empty", lambda: setattr(a, "type", None)), ("origin wrong type", lambda: setattr(a, "expansion_origin", "x")),
        ("append wrong rank", lambda: a.append(np.zeros(3))), ("append mismatching shape axis 0", lambda: a.append(np.zeros((2, 5)))),
        ("append mismatching shape axis 1", lambda: a.append(np.zeros((4, 2)), axis=1)),
        ("group append foreign", lambda: g.data_arrays.append(other.data_arrays["same"])),
        ("group append wrong kind", lambda: g.tags.append(a)), ("references append foreign", lambda: t.references.append(other.data_arrays["ints"])),
        ("sources append foreign", lambda: a.sources.append(other.sources["src"])),
        ("link invalid index", lambda: rd.link_data_array(b.data_arrays["pos"], [0, 0])),
        ("link wrong rank", lambda: rd.link_data_array(b.data_arrays["pos"], [-1])),
        ("container index out of range", lambda: b.data_arrays[99]), ("delete missing", lambda: b.data_arrays.__delitem__("nope")),
        ("delete wrong kind", lambda: b.data_arrays.__delitem__(t)),
        ("force_created_at wrong type", lambda: a.force_created_at("x")), ("feature foreign data", lambda: setattr(t.features[0], "data", other.data_arrays["ints"])),
        ("create_feature foreign", lambda: t.create_feature(other.data_arrays["ints"], nixio.LinkType.Untagged)),
        ("create_data_array wrong unit type", lambda: b.create_data_array("fresh", "t", data=[1.0], unit=5)),
        ("create_data_array wrong label type", lambda: b.create_data_array("fresh", "t", data=[1.0], label=5)),
        ("create_data_array dtype/data mismatch", lambda: b.create_data_array("fresh", "t", dtype=np.int32, data=["a"])),
        ("create_data_array unsupported dtype", lambda: b.create_data_array("fresh", "t", dtype="nonsense", shape=(2,))),
        ("create_tag non-numeric position", lambda: b.create_tag("fresh", "t", ["a"])),
        ("append non-convertible data", lambda: a.append(np.array([["a", "b", "c", "d"]]))),
        ("append_range_dimension unsorted ticks", lambda: a.append_range_dimension(ticks=[3.0, 1.0])),
        ("append_range_dimension wrong unit type", lambda: a.append_range_dimension(ticks=[1.0, 2.0], unit=5)),
        ("append_sampled_dimension wrong interval type", lambda: a.append_sampled_dimension("x")),
        ("append_sampled_dimension wrong unit type", lambda: a.append_sampled_dimension(1.0, unit=5)),
        ("append_set_dimension invalid labels", lambda: a.append_set_dimension(labels=5)),
        ("append_range_dimension_using_self invalid index", lambda: a.append_range_dimension_using_self([0, 0])),
        ("create_feature unsupported link type", lambda: t.create_feature(a, "nonsense")),
        ("copy onto existing name", lambda: b.create_data_array(name="ints", copy_from=a)),
        ("copy wrong kind", lambda: b.create_tag(copy_from=a)),
    ]
    setup_done = set()
    for name, call in calls:
        if name == "create_multi_tag extents collide":      # needs the colliding array to exist BEFORE the snapshot
            b.create_data_array("mx-extents", "t", data=[1.0]); gx = b.create_group("gx", "t"); gx.data_arrays.append(b.data_arrays["mx-extents"])
            call = lambda: b.create_multi_tag("mx", "t", [[1.0]], [[1.0]])
        before = walk_file(f)
        try:
            call()
            refused = False
        except Exception as e:
            refused = True
        if not refused:
            continue            # accepted by this tree: not a refusal scenario (acceptance is judged by other batteries)
        r = diff(before, walk_file(f))
        check(r is None, "a refused call changed the file", call=name, where=r)
    f.close()
    return "one sample file x %d refused calls (duplicate / illegal names, empty type, wrong or inconsistent types, shape mismatches, foreign / wrong-kind objects, invalid link index, out-of-range index, copies onto existing names): canonical walk before = after" % len(calls)


# ------------------------------------------------------------------------------------------------------------------
def b_c20(tier):
    """copies: complete, independent, internal links point into the copy, id policy, names, refusals"""
    import nixio

    def norm(w, drop_ids):
        """walk with ids replaced by the entity's name path (so that a fresh-id copy can be compared with its source)"""
        idmap = {}

        def collect(x, path):
            if isinstance(x, dict):
                if "id" in x and "name" in x:
                    idmap[x["id"]] = path + "/" + str(x["name"])
                for k, v in x.items():
                    collect(v, path + "/" + (str(x.get("name")) if "name" in x else k))
            elif isinstance(x, list):
                for v in x:
                    collect(v, path)
        collect(w, "")

        def rep(x):
            if isinstance(x, dict):
                # (a metadata link leaves the copied subtree: only its presence is compared)
                return {k: ("#" if k in ("id", "created") and drop_ids else bool(v) if k == "meta" and drop_ids else rep(v))
                        for k, v in x.items()}
            if isinstance(x, list):
                return [rep(v) for v in x]
            if isinstance(x, str) and x in idmap and drop_ids:
                return "@" + idmap[x].split("/", 3)[-1]
            return x
        return rep(w)
    for keep in (True, False):
        for newname in (None, "copy"):
            for cross in (True, False):
                src = sample_file(newfile("src.nix")); dst = newfile("dst.nix") if cross else src
                sb = src.blocks[0]
                if not cross and newname is None:
                    try:
                        dst.create_block(copy_from=sb, keep_copy_id=keep)
                        check(False, "copying onto an existing name was accepted")
                    except NameError:
                        N[0] += 1
                    src.close(); continue
                def src_block():
                    return [x for x in walk_file(src)["blocks"] if x["name"] == sb.name][0]
                before_src = src_block()
                cb = dst.create_block(name=newname or "", copy_from=sb, keep_copy_id=keep) if newname else dst.create_block(copy_from=sb, keep_copy_id=keep)
                want_name = newname or sb.name
                check(cb.name == want_name, "the handle returned by the copy does not denote the copy", returned=cb.name, expected=want_name)
                wsrc = [x for x in walk_file(src)["blocks"] if x["name"] == sb.name][0]
                wcp = [x for x in walk_file(dst)["blocks"] if x["name"] == want_name][0]
                a, bb = norm(dict(wsrc, name="X", meta=None), True), norm(dict(wcp, name="X", meta=None), True)
                r = diff(a, bb)
                check(r is None, "the copy does not have the same content / internal link structure as the source", keep_id=keep,
                      cross_file=cross, where=r)
                src_ids = {v for v in _ids(wsrc)}; cp_ids = {v for v in _ids(wcp)}
                if keep:
                    check(src_ids == cp_ids, "keep_id=True did not keep the ids", missing=sorted(src_ids - cp_ids)[:3])
                else:
                    check(not (src_ids & cp_ids), "keep_id=False left ids shared with the source", shared=sorted(src_ids & cp_ids)[:3])
                    if cross:
                        linked = {x for k in ("arrays", "tags", "mtags", "groups", "sources") for e in wcp[k] for x in _links(e)}
                        inside = {e["id"] for k in ("arrays", "tags", "mtags", "groups") for e in wcp[k]} | {i for s_ in wcp["sources"] for i in _ids(s_)}
                        check(linked <= inside, "links inside the copy point outside the copy", stray=sorted(linked - inside)[:3])
                # independence: mutate the copy, the source walk must not change (and vice versa)
                cb.data_arrays["same"].label = "changed-in-copy"; cb.data_arrays["ints"][0] = 99
                check(diff(before_src, src_block()) is None,
                      "a change made to the copy is visible in the source", keep_id=keep, cross_file=cross,
                      where=diff(before_src, src_block()))
                # ... deleting something inside the copy, and the copy itself, leaves the source as it was
                before_src = src_block()
                del cb.data_arrays["ints"]
                check(diff(before_src, src_block()) is None, "deleting an array of the copy changed the source", keep_id=keep,
                      cross_file=cross, where=diff(before_src, src_block()))
                del dst.blocks[want_name]
                check(sb.name in src.blocks and diff(before_src, src_block()) is None, "deleting the copy changed / removed the source",
                      keep_id=keep, cross_file=cross, source_blocks=[b.name for b in src.blocks])
                if cross:
                    dst.close()
                src.close()
    # the other direction: deleting the source leaves the copy complete
    for keep in (True, False):
        f = sample_file(newfile("d.nix")); sb = f.blocks[0]; cb = f.create_block(name="cp", copy_from=sb, keep_copy_id=keep)
        w0 = [x for x in walk_file(f)["blocks"] if x["name"] == "cp"][0]
        del sb.data_arrays["same"]; del f.blocks[sb.name]
        w1 = [x for x in walk_file(f)["blocks"] if x["name"] == "cp"]
        check(len(w1) == 1 and diff(w0, w1[0]) is None, "deleting the source (or one of its arrays) changed the copy", keep_id=keep,
              where=diff(w0, w1[0]) if w1 else "copy gone")
        sec = f.sections["sess"]; cs = f.copy_section(sec, keep_id=keep, name="cpsec")
        n0 = [p.name for p in sec.props]; del f.sections["cpsec"]
        check("sess" in f.sections and [p.name for p in f.sections["sess"].props] == n0 and len(f.sections["sess"].sections) == len(sec.sections),
              "deleting a copied section removed / changed the source section", keep_id=keep, sections=[x.name for x in f.sections])
        f.close()
    # names that look like ids: the existing-name test is about names
    import uuid
    src = newfile("u.nix"); dst = newfile("ud.nix")
    ub = src.create_block("", "t"); un = ub.name; ub.create_data_array("a", "t", data=[1, 2])     # (an unnamed block is named after its id)
    try:
        c1 = dst.create_block(name="backup", copy_from=ub, keep_copy_id=True)
        c2 = dst.create_block(copy_from=ub, keep_copy_id=True)
        check(c1.name == "backup" and c2.name == un and len(dst.blocks) == 2, "copies of an id-named block under two names are not both there",
              names=[b.name for b in dst.blocks])
    except Exception as e:
        check(False, "a legal copy (no block of that NAME at the destination) was refused", name=un, error=repr(e))
    try:
        dst.create_block(copy_from=ub, keep_copy_id=False); check(False, "copying onto an existing (id-like) name was accepted")
    except NameError:
        N[0] += 1
    src.close(); dst.close()
    # sections and properties
    for keep in (True, False):
        for children in (True, False):
            f = sample_file(newfile()); sec = f.sections["sess"]; dest = f.sections["other"]
            for where, call in (("file", lambda nm: f.copy_section(sec, children=children, keep_id=keep, name=nm)),
                                ("section", lambda nm: dest.copy_section(sec, children=children, keep_id=keep, name=nm))):
                try:
                    c = call("cp")
                except Exception as e:
                    check(False, "a legal section copy was refused", into=where, children=children, keep_id=keep, error=repr(e)); continue
                check(c.name == "cp", "the handle returned by copy_section does not denote the copy", returned=c.name)
                check([p.name for p in c.props] == [p.name for p in sec.props] and
                      [tuple(p.values) for p in c.props] == [tuple(p.values) for p in sec.props],
                      "the copied section does not have the source's properties", into=where, children=children)
                check((len(c.sections) == len(sec.sections)) == children or len(sec.sections) == 0,
                      "recursive / non-recursive copy has the wrong children", into=where, children=children, got=len(c.sections))
                ids_s = {sec.id} | {p.id for p in sec.props}; ids_c = {c.id} | {p.id for p in c.props}
                check((ids_s == ids_c) if keep else not (ids_s & ids_c), "the id policy was not applied to the section and its properties",
                      keep_id=keep, into=where, children=children)
                try:
                    call("cp"); check(False, "copying onto an existing name was accepted", into=where)
                except NameError:
                    N[0] += 1
            p = dest.create_property(copy_from=sec.props["n"], keep_copy_id=keep, name="pcopy") if True else None
            check(p.name == "pcopy" and tuple(p.values) == tuple(sec.props["n"].values) and ((p.id == sec.props["n"].id) == keep),
                  "a copied property is not a faithful copy under the requested id policy", keep_id=keep, name=p.name)
            f.close()
    return "block copies: {keep, fresh ids} x {default, new name} x {same file, other file}; section copies into file / section x {recursive, flat} x id policy; property copies: content, internal links, id policy, returned handle, independence, existing names"


def _ids(w):
    out = []
    if isinstance(w, dict):
        if "id" in w and isinstance(w["id"], str):
            out.append(w["id"])
        for v in w.values():
            out.extend(_ids(v))
    elif isinstance(w, list):
        for v in w:
            out.extend(_ids(v))
    return out


def _links(e):
    out = []
    for k in ("refs", "sources", "arrays", "tags", "mtags"):
        v = e.get(k)
        if isinstance(v, list):
            out.extend(x for x in v if isinstance(x, str))
    for k in ("positions", "extents"):
        if isinstance(e.get(k), str) and not e[k].startswith("!"):
            out.append(e[k])
    for ft in e.get("features", []) or []:
        if isinstance(ft.get("data"), str) and not ft["data"].startswith("!"):
            out.append(ft["data"])
    return out


BATTERIES = {"c02": b_c02, "c13": b_c13, "c08": b_c08, "c16": b_c16, "c05": b_c05, "c04": b_c04, "c03": b_c03, "c12": b_c12, "c20": b_c20}


def main():
    name, repo = sys.argv[1], sys.argv[2]
    tier = sys.argv[3] if len(sys.argv) > 3 else "quick"
    import nixio
    if not os.path.abspath(nixio.__file__).startswith(os.path.abspath(repo)):
        print(json.dumps(dict(battery=name, error="nixio resolves to %s, not to %s" % (nixio.__file__, repo))))
        sys.exit(3)
    bound = BATTERIES[name](tier)
    print(json.dumps(dict(battery=name, bound=bound, evaluations=N[0], violations=BAD), default=str))


if __name__ == "__main__":
    main()
