"""BOUNDED stand-ins (never counted as proved) for functions the contracts do not reach.

Runs under /venv/bin/python with PYTHONPATH=<tree under test>. Each battery enumerates a stated finite scenario space on
the REAL code and compares with an oracle written from the property statement (a pure-Python model, a brute-force scan
or a canonical walk of the file through the public API). Output: one JSON line {battery, bound, evaluations, violations}.
usage: bounded.py <battery> <repo_dir> [quick|thorough]
"""
import itertools
import json
import os
import sys
import tempfile
import uuid

import numpy as np

N = [0]
BAD = []
KNOWN = {}          # id of a known finding (known_findings.json) -> inputs of this run that show it


def newfile(name="t.nix", **kw):
    import nixio
    d = tempfile.mkdtemp(prefix="bnd_")
    return nixio.File.open(os.path.join(d, name), nixio.FileMode.Overwrite, **kw)


def bad(what, **kw):
    if len(BAD) < 5:
        BAD.append(dict(what=what, input=json.loads(json.dumps(kw, default=str))))


def check(cond, what, **kw):
    N[0] += 1
    if not cond:
        bad(what, **kw)


def forests(n):
    """all ordered forests with exactly n nodes (nested lists)"""
    if n == 0:
        yield []
        return
    for k in range(1, n + 1):
        for sub in forests(k - 1):
            for rest in forests(n - k):
                yield [sub] + rest


# ------------------------------------------------------------------------------------------------------------------
# canonical walk: every observable of every entity reachable through the public API
# ------------------------------------------------------------------------------------------------------------------
def _safe(fn):
    try:
        v = fn()
    except Exception as e:            # an accessor that raises is part of the observable state too
        return "!%s" % type(e).__name__
    if isinstance(v, np.ndarray):
        return [v.dtype.str, list(v.shape), v.tolist()]
    if isinstance(v, (tuple, list)):
        return [x.item() if hasattr(x, "item") else x for x in v]
    if hasattr(v, "item") and not isinstance(v, (str, bytes)):
        try:
            return v.item()
        except Exception:
            return str(v)
    return v


def walk_entity(e, kind):
    d = dict(kind=kind, id=_safe(lambda: e.id), name=_safe(lambda: e.name), type=_safe(lambda: e.type),
             definition=_safe(lambda: e.definition), created=_safe(lambda: e.created_at))
    return d


def walk_section(s):
    d = walk_entity(s, "section")
    d.update(repository=_safe(lambda: s.repository), reference=_safe(lambda: s.reference),
             link=_safe(lambda: s.link.id if s.link is not None else None),
             props=[dict(name=_safe(lambda: p.name), id=_safe(lambda: p.id), unit=_safe(lambda: p.unit),
                         values=_safe(lambda: p.values), dtype=_safe(lambda: str(p.data_type)),
                         definition=_safe(lambda: p.definition)) for p in s.props],
             sections=[walk_section(c) for c in s.sections])
    return d


def walk_source(s):
    d = walk_entity(s, "source")
    d.update(meta=_safe(lambda: s.metadata.id if s.metadata is not None else None), sources=[walk_source(c) for c in s.sources])
    return d


def walk_dim(dim):
    import nixio
    t = dim.dimension_type
    d = dict(dtype=str(t), index=_safe(lambda: dim.index))
    if t == nixio.DimensionType.Sample:
        d.update(si=_safe(lambda: dim.sampling_interval), unit=_safe(lambda: dim.unit), offset=_safe(lambda: dim.offset),
                 label=_safe(lambda: dim.label))
    elif t == nixio.DimensionType.Range:
        d.update(ticks=_safe(lambda: dim.ticks), unit=_safe(lambda: dim.unit), label=_safe(lambda: dim.label),
                 linked=_safe(lambda: dim.has_link))
    else:
        d.update(labels=_safe(lambda: dim.labels), linked=_safe(lambda: dim.has_link))
    return d


def walk_array(a):
    d = walk_entity(a, "array")
    d.update(label=_safe(lambda: a.label), unit=_safe(lambda: a.unit), origin=_safe(lambda: a.expansion_origin),
             coeff=_safe(lambda: a.polynom_coefficients), shape=_safe(lambda: a.shape), dtype=_safe(lambda: str(a.dtype)),
             data=_safe(lambda: a[:]), dims=[walk_dim(x) for x in a.dimensions],
             sources=[_safe(lambda s=s: s.id) for s in a.sources],
             meta=_safe(lambda: a.metadata.id if a.metadata is not None else None))
    return d


def walk_tag(t, multi):
    d = walk_entity(t, "mtag" if multi else "tag")
    d.update(units=_safe(lambda: t.units), refs=[_safe(lambda r=r: r.id) for r in t.references],
             sources=[_safe(lambda s=s: s.id) for s in t.sources],
             features=[dict(id=_safe(lambda ft=ft: ft.id), link=_safe(lambda ft=ft: str(ft.link_type)),
                            data=_safe(lambda ft=ft: ft.data.id)) for ft in t.features],
             meta=_safe(lambda: t.metadata.id if t.metadata is not None else None))
    if multi:
        d.update(positions=_safe(lambda: t.positions.id), extents=_safe(lambda: t.extents.id if t.extents is not None else None))
    else:
        d.update(position=_safe(lambda: t.position), extent=_safe(lambda: t.extent))
    return d


def walk_file(f):
    out = dict(version=_safe(lambda: f.version), format=_safe(lambda: f.format), blocks=[], sections=[walk_section(s) for s in f.sections])
    for b in f.blocks:
        d = walk_entity(b, "block")
        d.update(meta=_safe(lambda: b.metadata.id if b.metadata is not None else None),
                 arrays=[walk_array(a) for a in b.data_arrays], tags=[walk_tag(t, False) for t in b.tags],
                 mtags=[walk_tag(t, True) for t in b.multi_tags], sources=[walk_source(s) for s in b.sources],
                 groups=[dict(walk_entity(g, "group"), arrays=[x.id for x in g.data_arrays], tags=[x.id for x in g.tags],
                              mtags=[x.id for x in g.multi_tags], sources=[x.id for x in g.sources],
                              meta=_safe(lambda g=g: g.metadata.id if g.metadata is not None else None)) for g in b.groups])
        out["blocks"].append(d)
    return json.loads(json.dumps(out, default=str, sort_keys=True))


def diff(a, b, path=""):
    if a == "GONE":
        return None if (b is None or (isinstance(b, str) and b.startswith("!"))) else "%s: a link to a deleted entity still yields %r" % (path, b)
    if type(a) is not type(b):
        return "%s: %r vs %r" % (path, a, b)
    if isinstance(a, dict):
        for k in sorted(set(a) | set(b)):
            if k not in a or k not in b:
                return "%s.%s: only on one side" % (path, k)
            r = diff(a[k], b[k], path + "." + k)
            if r:
                return r
        return None
    if isinstance(a, list):
        if len(a) != len(b):
            return "%s: length %d vs %d" % (path, len(a), len(b))
        for i, (x, y) in enumerate(zip(a, b)):
            r = diff(x, y, "%s[%d]" % (path, i))
            if r:
                return r
        return None
    return None if a == b or (a != a and b != b) else "%s: %r vs %r" % (path, a, b)


def sample_file(f):
    """a file with every entity kind, links from several places, namesakes, non-ASCII and None values"""
    import nixio
    sec = f.create_section("sess", "t"); sec.create_property("subject", ["mouse", "ünïcode"]); sec.create_property("n", [1, 2, 3])
    sec.create_property("flag", [True]); sec.create_property("w", [0.5]); sub = sec.create_section("sub", "t"); sub.create_property("n", [7])
    sec2 = f.create_section("other", "t"); sub2 = sec2.create_section("sub", "t"); sec.reference = "ref"; sec2.repository = "repo"
    for bi in range(2):
        b = f.create_block("blk%d" % bi, "t"); b.definition = "def-%d" % bi
        a1 = b.create_data_array("same", "t", data=np.arange(12, dtype=float).reshape(3, 4)); a1.label = "lab"; a1.unit = "mV"
        a1.append_sampled_dimension(0.5, label="time", unit="ms", offset=1.0); a1.append_range_dimension(ticks=[1.0, 2.0, 4.0, 8.0], unit="s")
        a2 = b.create_data_array("ints", "t", data=np.array([1, 2, 3], dtype=np.int32)); a2.append_set_dimension(["a", "b", "c"])
        a2.polynom_coefficients = [1.0, 2.0]; a2.expansion_origin = 0.5
        a3 = b.create_data_array("text", "t", dtype=nixio.DataType.String, data=["x", "yy", "ü"]); a3.append_set_dimension()
        pos = b.create_data_array("pos", "t", data=np.array([[0.5, 1.0], [1.0, 2.0]])); ext = b.create_data_array("ext", "t", data=np.array([[0.5, 1.0], [0.5, 2.0]]))
        t = b.create_tag("tag", "t", [0.5, 1.0]); t.extent = [1.0, 3.0]; t.units = ["ms", "s"]; t.references.append(a1)
        t.create_feature(a2, nixio.LinkType.Untagged)
        mt = b.create_multi_tag("mtag", "t", pos); mt.extents = ext; mt.references.append(a1); mt.units = ["ms", "s"]
        mt.create_feature(pos, nixio.LinkType.Indexed)
        s = b.create_source("src", "t"); c = s.create_source("child", "t"); c2 = c.create_source("child", "t")
        a1.sources.append(c2); t.sources.append(s); mt.sources.append(c)
        g = b.create_group("grp", "t"); g.data_arrays.append(a1); g.data_arrays.append(a2); g.tags.append(t); g.multi_tags.append(mt); g.sources.append(c)
        b.metadata = sec; a1.metadata = sub; t.metadata = sub2 if bi else sub; g.metadata = sec2; s.metadata = sec
    return f


# ------------------------------------------------------------------------------------------------------------------
def b_c02(tier):
    """close/reopen (read-only and read-write) reproduces the canonical walk; multi-handle histories"""
    import nixio
    f = sample_file(newfile())
    path = f._h5file.filename
    before = walk_file(f); f.close()
    for mode in (nixio.FileMode.ReadOnly, nixio.FileMode.ReadWrite):
        g = nixio.File.open(path, mode); after = walk_file(g); g.close()
        r = diff(before, after)
        check(r is None, "state after reopen differs from the state before closing", mode=str(mode), where=r)
    # histories with several handles to the same entity, close+reopen at the end
    hist = 0
    for kind in ("data_arrays", "tags", "multi_tags", "sources"):
        for order in itertools.permutations(range(3)):
            hist += 1
            f = sample_file(newfile()); path = f._h5file.filename
            b = f.blocks[0]
            hA = b.groups["grp"]; hB = b.groups["grp"]
            cont_a, cont_b = getattr(hA, kind), getattr(hB, kind)
            members = list(cont_a)
            pool = list(getattr(b, kind)) if kind != "sources" else b.find_sources()
            extra = [x for x in pool if all(x.id != m.id for m in members)]
            steps = [lambda: [cont_b.__delitem__(m) for m in list(cont_b)],          # B empties the list
                     lambda: cont_a.append(extra[0]) if extra else None,              # A appends
                     lambda: len(cont_b)]                                              # B looks
            try:
                for k in order:
                    steps[k]()
            except Exception as e:
                continue       # a history the API refuses is not a history
            live = sorted(x.id for x in getattr(b.groups["grp"], kind))
            live_a = sorted(x.id for x in cont_a); live_b = sorted(x.id for x in cont_b)
            check(live == live_a == live_b, "handles to the same entity show different link lists", container=kind, order=list(order),
                  fresh=live, handle_a=live_a, handle_b=live_b)
            f.close()
            g = nixio.File.open(path, nixio.FileMode.ReadOnly)
            stored = sorted(x.id for x in getattr(g.blocks[0].groups["grp"], kind)); g.close()
            check(live == stored, "what a fresh handle showed before closing is not what the reopened file shows",
                  container=kind, order=list(order), before_close=live, after_reopen=stored)
            if tier == "quick" and hist >= 8:
                break
    return "sample file with every entity kind x {read-only, read-write} reopen; two-handle histories on group link lists: all 3! orders of {empty through B, append through A, read through B} x 4 list kinds"


def b_c13(tier):
    """parents and referring lists against the stored tree / links, handles from every access path"""
    import nixio
    nmax = 4 if tier == "quick" else 5
    for n in range(1, nmax + 1):
        for forest in forests(n):
            f = newfile(); b = f.create_block("b", "t"); da = b.create_data_array("a", "t", data=[1.0])
            nodes = []

            def build(parent, sub, depth, pname):
                for sh in sub:
                    nm = "n%d" % (len(nodes) % 2)             # namesakes in different parents (and clashes avoided per parent)
                    while nm in [x.name for x in (parent.sources)]:
                        nm += "x"
                    s = parent.create_source(nm, "t")
                    nodes.append((s, pname, depth))
                    build(s, sh, depth + 1, s.id)
            build(b, forest, 0, None)
            for s, pid, depth in nodes:
                da.sources.append(s)
            for k, (s, pid, depth) in enumerate(nodes):
                for how, h in (("tree", s), ("link", da.sources[s.id]), ("find", [x for x in b.find_sources() if x.id == s.id][0])):
                    p = h.parent_source
                    check((p.id if p is not None else None) == pid, "parent_source differs from the tree", forest=forest, node=k,
                          via=how, got=(p.id if p is not None else None), expected=pid)
                    check(h.parent_block.id == b.id, "parent_block is not the containing block", forest=forest, node=k, via=how)
            f.close()
    # sections: parent from every access path, referring_* = inverse of the stored metadata links
    for n in range(1, nmax):
        for forest in forests(n):
            f = newfile(); b = f.create_block("b", "t")
            secs = []

            def build(parent, sub, pname):
                for sh in sub:
                    nm = "s%d" % (len(secs) % 2)
                    while nm in [x.name for x in parent.sections]:
                        nm += "x"
                    s = parent.create_section(nm, "t")
                    if len(secs) % 2:
                        s.create_property("p", [1])          # sections with and without properties
                    secs.append((s, pname))
                    build(s, sh, s.id)
            build(f, forest, None)
            ents = dict(blocks=[b], groups=[b.create_group("g%d" % i, "t") for i in range(2)],
                        data_arrays=[b.create_data_array("a%d" % i, "t", data=[1.0]) for i in range(2)],
                        tags=[b.create_tag("t%d" % i, "t", [0.0]) for i in range(2)],
                        multi_tags=[b.create_multi_tag("m%d" % i, "t", b.create_data_array("p%d" % i, "t", data=[1.0])) for i in range(2)],
                        sources=[b.create_source("src%d" % i, "t") for i in range(2)])
            k = 0
            links = {}
            for kind, es in ents.items():
                for e in es:
                    s = secs[k % len(secs)][0]; k += 1
                    e.metadata = s; links.setdefault((s.id, kind), []).append(e.id)
            for s, pid in secs:
                h = [x for x in f.find_sections() if x.id == s.id][0]
                for how, hh in (("tree", s), ("find", h)):
                    p = hh.parent
                    check((p.id if p is not None else None) == pid, "Section.parent differs from the tree", forest=forest,
                          via=how, got=(p.id if p is not None else None), expected=pid)
                for kind in ents:
                    got = sorted(x.id for x in getattr(h, "referring_" + kind))
                    check(got == sorted(links.get((s.id, kind), [])), "referring list is not the inverse of the stored links",
                          kind=kind, forest=forest, section_has_props=bool(len(s.props)), got=got,
                          expected=sorted(links.get((s.id, kind), [])))
            f.close()
    return "all ordered source forests with <= %d nodes and section forests with <= %d nodes (namesakes, sections with/without properties), handles via tree / link list / search" % (nmax, nmax - 1)


# ------------------------------------------------------------------------------------------------------------------
def _coords(kind, n, p):
    """sample coordinates; sampled dimensions and unlabelled set dimensions do not end with the stored data (a region
    reaching samples beyond it "runs past the stored data")"""
    if kind == "sample":
        return [p["off"] + i * p["si"] for i in range(n + 40)]
    if kind == "range":
        return list(p["ticks"])
    return [float(i) for i in range(n + 40)]


def _expected(coords, start, ext, incl):
    if ext is None or ext <= 0:
        return [i for i, c in enumerate(coords) if c == start]
    end = start + ext
    return [i for i, c in enumerate(coords) if c >= start and (c <= end if incl else c < end)]


def _add_dim(da, kind, p, unit):
    if kind == "sample":
        da.append_sampled_dimension(p["si"], unit=unit, offset=p["off"])
    elif kind == "range":
        da.append_range_dimension(ticks=p["ticks"], unit=unit)
    else:
        da.append_set_dimension()


def b_c08(tier):
    """tagged data / feature data = exactly the samples inside the region (brute-force scan of sample coordinates)"""
    import nixio
    from nixio.exceptions import OutOfBounds
    shape = (6, 5)
    data = np.arange(30, dtype=float).reshape(shape)
    dimsets = [(("sample", dict(si=0.5, off=1.0)), ("range", dict(ticks=[1.0, 2.0, 4.0, 4.5, 8.0]))),
               (("set", {}), ("sample", dict(si=2.0, off=0.0))),
               (("range", dict(ticks=[0.0, 0.25, 0.5, 2.0, 3.0, 7.0])), ("set", {}))]
    starts = [0.0, 0.25, 1.0, 1.5, 2.0, 4.0, 9.0] if tier == "quick" else [-1.0, 0.0, 0.25, 0.75, 1.0, 1.5, 2.0, 3.0, 4.0, 4.5, 9.0]
    exts = [None, 0.0, 0.5, 1.0, 2.5] if tier == "quick" else [None, 0.0, 0.25, 0.5, 1.0, 2.0, 2.5, 6.0]
    f = newfile(); b = f.create_block("b", "t")
    k = 0
    for dims in dimsets:
        for scale_unit in (None, "ms"):
            k += 1
            da = b.create_data_array("a%d" % k, "t", data=data)
            units = []
            for kind, p in dims:
                if kind == "set":
                    _add_dim(da, kind, p, None); units.append("" if scale_unit else None)
                else:
                    _add_dim(da, kind, p, "s" if scale_unit else None); units.append(scale_unit)
            factor = 1000.0 if scale_unit else 1.0            # tag in ms, dimension in s
            coords = [_coords(kind, shape[i], p) for i, (kind, p) in enumerate(dims)]
            feat_arr = b.create_data_array("f%d" % k, "t", data=data + 100)
            for kind, p in dims:
                _add_dim(feat_arr, kind, p, ("s" if scale_unit else None) if kind != "set" else None)
            pairs = list(itertools.product(starts, exts))
            for (s0, e0), (s1, e1) in zip(pairs, pairs[3:] + pairs[:3]):
                for npos in (1, 2):
                    pos = [s0 * (factor if dims[0][0] != "set" else 1.0), s1 * (factor if dims[1][0] != "set" else 1.0)][:npos]
                    ext = None if (e0 is None or e1 is None) else \
                        [e0 * (factor if dims[0][0] != "set" else 1.0), e1 * (factor if dims[1][0] != "set" else 1.0)][:npos]
                    k += 1
                    tag = b.create_tag("t%d" % k, "t", pos)
                    if ext is not None:
                        tag.extent = ext
                    if scale_unit:
                        tag.units = units[:npos]
                    tag.references.append(da)
                    parr = b.create_data_array("p%d" % k, "t", data=np.array([pos, pos]))
                    mt = b.create_multi_tag("m%d" % k, "t", parr)
                    if ext is not None:
                        mt.extents = b.create_data_array("e%d" % k, "t", data=np.array([ext, ext]))
                    if scale_unit:
                        mt.units = units[:npos]
                    mt.references.append(da)
                    ftag = tag.create_feature(feat_arr, nixio.LinkType.Tagged)
                    mt.create_feature(feat_arr, nixio.LinkType.Tagged)
                    for incl in (True, False):
                        rule = nixio.SliceMode.Inclusive if incl else nixio.SliceMode.Exclusive
                        idx = []
                        for d in range(2):
                            if d < npos:
                                e = None if ext is None else [e0, e1][d]
                                idx.append(_expected(coords[d], [s0, s1][d], e, incl))
                            else:
                                idx.append(list(range(shape[d])))
                        empty = any(len(ix) == 0 or ix[-1] >= shape[d] for d, ix in enumerate(idx))
                        want = None if empty else data[idx[0][0]:idx[0][-1] + 1, idx[1][0]:idx[1][-1] + 1]
                        for what, call, base in (("Tag.tagged_data", lambda: tag.tagged_data(0, rule), 0),
                                                 ("MultiTag.tagged_data", lambda: mt.tagged_data(1, 0, rule), 0),
                                                 ("Tag.feature_data", lambda: tag.feature_data(0, rule), 100),
                                                 ("MultiTag.feature_data", lambda: mt.feature_data(1, 0, rule), 100)):
                            try:
                                v = call()
                                got = np.array(v[:]) if v.valid else None
                            except OutOfBounds:
                                got = None
                            except Exception as ex:
                                got = "!" + type(ex).__name__
                            ok = (got is None and want is None) or (isinstance(got, np.ndarray) and want is not None and
                                                                   got.shape == want.shape and np.array_equal(got, want + base))
                            check(ok, "%s is not exactly the samples inside the region" % what, dims=[d[0] for d in dims],
                                  position=pos, extent=ext, units=units[:npos] if scale_unit else None, inclusive=incl,
                                  expected_indices=idx, got=(got.tolist() if isinstance(got, np.ndarray) else got))
    f.close()
    return "2-D arrays with 3 descriptor mixes x {no units, ms->s} x %d start/extent pairs x position length 1..2 x both stop rules x {Tag, MultiTag} x {tagged data, tagged feature}" % len(list(itertools.product(starts, exts)))


# ------------------------------------------------------------------------------------------------------------------
def b_c16(tier):
    """data frame = faithful table: every creation variant, appends, overwrites by name and by every legal index, refusals"""
    import nixio
    from collections import OrderedDict
    schemas = [OrderedDict([("name", str), ("id", int), ("w", float), ("ok", bool)]),
               OrderedDict([("a", int)]), OrderedDict([("x", float), ("y", float), ("lab", str)])]
    if tier != "quick":
        schemas.append(OrderedDict([("s8", np.int8), ("u16", np.uint16), ("f32", np.float32), ("t", str), ("b", bool), ("i", int)]))

    def cell(tp, r, c):
        if tp is str: return "r%dc%d" % (r, c)
        if tp is bool: return bool((r + c) % 2)
        if tp in (float, np.float32): return r + c / 4.0
        return int(r * 3 + c)
    f = newfile(); b = f.create_block("b", "t")
    k = 0
    for sch in schemas:
        names, types = list(sch), list(sch.values())
        for nrows in (0, 1, 3):
            rows = [tuple(cell(tp, r, c) for c, tp in enumerate(types)) for r in range(nrows)]
            variants = [("col_dict", dict(col_dict=sch)), ("names+dtypes", dict(col_names=names, col_dtypes=types))]
            if nrows:
                variants.append(("names+data", dict(col_names=names)))
            for vname, kw in variants:
                k += 1
                try:
                    df = b.create_data_frame("df%d" % k, "t", data=(rows if nrows else None), **kw)
                except Exception as e:
                    check(False, "create_data_frame refused a legal table", variant=vname, columns=names, rows=nrows, error=repr(e))
                    continue
                model = [list(r) for r in rows]

                def same(where):
                    got = [list(x) for x in df.read_rows(list(range(len(model))))] if model else []
                    ok = len(df) == len(model) and tuple(df.df_shape) == (len(model), len(names)) and \
                        list(df.column_names) == names and all(
                            all((a == e) and (isinstance(a, (bool, np.bool_)) == isinstance(e, bool)) for a, e in zip(g, m))
                            for g, m in zip(got, model))
                    check(ok, "the frame does not read back as the table that was written", after=where, variant=vname,
                          columns=names, expected=model, got=got, shape=tuple(df.df_shape), names=list(df.column_names))
                same("creation")
                new = [tuple(cell(tp, r + 10, c) for c, tp in enumerate(types)) for r in range(2)]
                df.append_rows(new); model += [list(r) for r in new]; same("append_rows")
                for ci, (nm, tp) in enumerate(zip(names, types)):
                    col = [cell(tp, r + 20, ci) for r in range(len(model))]
                    for how in ("index", "name"):
                        if how == "index": df.write_column(col, index=ci)
                        else: df.write_column(col, name=nm)
                        for r in range(len(model)): model[r][ci] = col[r]
                        same("write_column by %s %r" % (how, ci if how == "index" else nm))
                        got = list(df.read_columns(index=[ci])) if how == "index" else list(df.read_columns(name=[nm]))
                        check(got == col, "read_columns differs from the written column", column=nm, expected=col, got=got)
                    for badlen in (len(model) - 1, len(model) + 1):
                        before = [list(x) for x in df.read_rows(list(range(len(model))))]
                        try:
                            df.write_column([cell(tp, r, ci) for r in range(badlen)], index=ci)
                            check(False, "a column of the wrong length was accepted", column=nm, rows=len(model), given=badlen)
                        except ValueError:
                            check([list(x) for x in df.read_rows(list(range(len(model))))] == before,
                                  "a refused write_column changed the table", column=nm)
                r0 = len(model) - 1
                newrow = tuple(cell(tp, 30, c) for c, tp in enumerate(types))
                df.write_rows([newrow], [r0]); model[r0] = list(newrow); same("write_rows last row")
                df.write_rows([newrow], [0]); model[0] = list(newrow); same("write_rows first row")
                try:
                    df.write_rows([newrow], [len(model)])
                    check(False, "a row index beyond the last row was accepted", rows=len(model))
                except Exception:
                    same("refused write_rows")
                # several rows at once: every ordered selection of 2..4 row indices (all of them for <= 4 rows, a sample plus the
                # disordered-interior lists otherwise): accepted -> every given row stands at ITS index, refused -> table unchanged
                nr = len(model)
                osel = [list(c) for r_ in range(2, min(4, nr) + 1) for c in itertools.permutations(range(nr), r_)]
                if len(osel) > 48:
                    osel = osel[::max(1, len(osel) // 40)] + [x for x in ([0, 2, 1, 3], [1, 3, 2, 4], [1, 0], [nr - 1, nr - 3, nr - 2])
                                                             if max(x) < nr and min(x) >= 0]
                for si, sel in enumerate(osel):
                    rws = [tuple(cell(tp, 50 + si + j, c) for c, tp in enumerate(types)) for j in range(len(sel))]
                    try:
                        df.write_rows(rws, sel)
                    except Exception:
                        same("refused write_rows of rows %r" % (sel,))
                        continue
                    for j, r_ in enumerate(sel):
                        model[r_] = list(rws[j])
                    same("write_rows of rows %r" % (sel,))
                # several rows of which ONE is unusable (too few fields / text in a numeric column), at every place of the call: the
                # call must be refused and the table must read as before - no earlier row of the call may have been written
                numcols = [c for c, tp in enumerate(types) if tp not in (str, bool)]
                for nsel in (2, 3):
                    if nr < nsel:
                        continue
                    sel = list(range(nr - nsel, nr))
                    for badpos in range(nsel):
                        for kind in ("short", "text"):
                            if kind == "text" and not numcols:
                                continue
                            rws = [list(cell(tp, 70 + j, c) for c, tp in enumerate(types)) for j in range(nsel)]
                            if kind == "short":
                                rws[badpos] = rws[badpos][:-1]
                            else:
                                rws[badpos][numcols[0]] = "not a number"
                            try:
                                df.write_rows([tuple(r_) for r_ in rws], sel)
                                check(False, "write_rows accepted a row it cannot store", rows=rws, index=sel, bad=badpos, kind=kind)
                                break
                            except Exception:
                                same("write_rows refused for its row #%d (%s) of %d" % (badpos, kind, nsel))
                df.write_cell(cell(types[0], 40, 0), position=(1, 0)); model[1][0] = cell(types[0], 40, 0); same("write_cell by position")
                check(df.read_cell(position=(1, 0)) == model[1][0], "read_cell by position differs", expected=model[1][0])
                # read_columns: every ordered selection of up to all columns, by index and by name, whole and sliced, both groupings
                if len(names) >= 2 and model:
                    sels = [list(c) for r_ in range(2, len(names) + 1) for c in itertools.permutations(range(len(names)), r_)]
                    for sel in (sels if len(sels) <= 40 else sels[::max(1, len(sels) // 40)] + [list(range(len(names)))[::-1]]):
                        for how in ("index", "name"):
                            for sl in (None, slice(1, None)):
                                kw = dict(index=sel) if how == "index" else dict(name=[names[c] for c in sel])
                                if sl is not None:
                                    kw["slc"] = sl
                                rows_m = model if sl is None else model[sl]
                                got = df.read_columns(**kw)
                                ok = list(got.dtype.names) == [names[c] for c in sel] and [list(r_) for r_ in got.tolist()] == [[r_[c] for c in sel] for r_ in rows_m]
                                check(ok, "read_columns does not return the requested columns in the requested order", columns=sel, by=how, sliced=sl is not None,
                                      got_names=list(got.dtype.names))
                                gc = df.read_columns(group_by_cols=True, **kw)
                                check([list(x) for x in gc.tolist()] == [[str(r_[c]) if isinstance(gc.flat[0], str) else r_[c] for r_ in rows_m] for c in sel]
                                      or [[type(v)(x) if not isinstance(v, str) else x for x, v in zip(col, [r_[c] for r_ in rows_m])] for col, c in zip(gc.tolist(), sel)]
                                      == [[r_[c] for r_ in rows_m] for c in sel],
                                      "read_columns(group_by_cols=True) does not return the requested columns in the requested order", columns=sel, by=how)
                # a second handle that has looked at the columns before a column is appended through the first
                h2 = b.data_frames[df.name]; seen = (list(h2.column_names), tuple(h2.df_shape))
                # a new column through the SAME handle whose shape was read before
                shp0 = tuple(df.df_shape); extra = [float(r) for r in range(len(model))]
                df.append_column(extra, "extra%d" % k, float)
                check(tuple(df.df_shape) == (shp0[0], shp0[1] + 1) and list(df.column_names) == names + ["extra%d" % k] and
                      [float(x) for x in df.read_columns(name=["extra%d" % k])] == extra,
                      "after append_column the same handle does not show the new column", shape_before=shp0, shape_after=tuple(df.df_shape),
                      names=list(df.column_names))
                # ... and rows can still be appended after the column
                try:
                    more = tuple(cell(tp, 5, c) for c, tp in enumerate(types)) + (2.5,)
                    df.append_rows([more])
                    check(len(df) == len(model) + 1 and list(df.read_rows([len(model)])[0]) == list(more),
                          "a row appended after append_column does not read back", expected=list(more))
                    extra = extra + [2.5]
                except Exception as e:
                    check(False, "append_rows was refused after append_column", error=repr(e)[:160])
                check(list(h2.column_names) == list(df.column_names) and tuple(h2.df_shape) == tuple(df.df_shape) and
                      [float(x) for x in h2.read_columns(index=[len(names)])] == extra,
                      "a second handle on the frame does not show the column appended through the first", second=list(h2.column_names),
                      first=list(df.column_names), before=seen)
            try:
                b.create_data_frame("dup%d" % k, "t", col_names=names + [names[0]], col_dtypes=types + [types[0]])
                check(False, "a duplicate column name was accepted (names+dtypes)")
            except nixio.exceptions.DuplicateColumnName:
                N[0] += 1
            if nrows:
                try:
                    b.create_data_frame("dupd%d" % k, "t", col_names=names + [names[0]], data=[r + (r[0],) for r in rows])
                    check(False, "a duplicate column name was accepted (names+data)")
                except nixio.exceptions.DuplicateColumnName:
                    N[0] += 1
                check("dupd%d" % k not in b.data_frames, "a refused create_data_frame left a frame behind")
    # names + data with small element types: the column types are those of the data that was written
    small = [(np.int8(1), np.uint8(200), np.int16(-300), np.float32(0.5), "a"), (np.int8(-2), np.uint8(7), np.int16(9), np.float32(1.5), "b")]
    dfs = b.create_data_frame("small", "t", col_names=["i8", "u8", "i16", "f32", "s"], data=small)
    got = dfs.read_rows([0, 1])
    want_dt = [np.dtype(np.int8), np.dtype(np.uint8), np.dtype(np.int16), np.dtype(np.float32)]
    got_dt = [np.asarray(got[nm]).dtype if hasattr(got, "dtype") and got.dtype.names else None for nm in ("i8", "u8", "i16", "f32")]
    check(got_dt == want_dt, "a frame created from names + data does not keep the element types of the data", got=[str(x) for x in got_dt],
          expected=[str(x) for x in want_dt])
    check([tuple(r)[:4] for r in got] == [tuple(r)[:4] for r in small], "a frame created from small-typed data does not read back equal")
    f.close()
    return "%d schemas x row counts {0,1,3} x creation variants {col_dict, names+dtypes, names+data}; append rows, overwrite every column by index and by name, first/last row, several rows at once (every ordered selection of 2..4 row indices, sampled above 48: each given row at ITS index or refused with the table unchanged; one unusable row at every place of a 2- / 3-row call: refused, table unchanged), one cell; wrong lengths, out-of-range row, duplicate column names; a column appended through a handle whose shape was read; small element types from names + data" % len(schemas)


# ------------------------------------------------------------------------------------------------------------------
def b_c05(tier):
    """links are aliases and stay in their block: every link kind, change through every path, acceptance / refusal"""
    import nixio
    f = sample_file(newfile())
    b0, b1 = f.blocks[0], f.blocks[1]
    a = b0.data_arrays["same"]; foreign = b1.data_arrays["same"]
    t = b0.tags["tag"]; mt = b0.multi_tags["mtag"]; g = b0.groups["grp"]
    paths = dict(block=lambda: b0.data_arrays["same"], group=lambda: g.data_arrays[a.id], tag=lambda: t.references[a.id],
                 mtag=lambda: mt.references[a.id])
    for wname, w in paths.items():
        w().label = "via-" + wname
        for rname, r in paths.items():
            check(r().label == "via-" + wname and r().id == a.id, "a change through one path is not visible through another",
                  written_through=wname, read_through=rname)
    for lname, lst, item in (("group.data_arrays", g.data_arrays, foreign), ("tag.references", t.references, foreign),
                             ("mtag.references", mt.references, foreign), ("group.tags", g.tags, b1.tags["tag"]),
                             ("group.multi_tags", g.multi_tags, b1.multi_tags["mtag"]),
                             ("array.sources", a.sources, b1.sources["src"]), ("tag.sources", t.sources, b1.sources["src"].sources["child"]),
                             ("group.data_arrays(wrong kind)", g.data_arrays, t)):
        before = [x.id for x in lst]
        try:
            lst.append(item)
            check(False, "a link list accepted an entity of another block / of the wrong kind", list=lname)
        except (RuntimeError, TypeError):
            check([x.id for x in lst] == before, "a refused append changed the list", list=lname)
    for src in b0.find_sources():              # sources anywhere in the block's tree are accepted
        a2 = b0.data_arrays["ints"]
        a2.sources.append(src)
        check(a2.sources[src.id].id == src.id, "a source of the block's own tree was not linked as itself", depth_name=src.name)
    # features: data of the right block accepted (alias), foreign data refused and the feature left as it was
    ft = t.features[0]
    before = (ft.data.id, str(ft.link_type), type(ft.data).__name__)
    for item in (foreign, b1.data_arrays["ints"]):
        try:
            ft.data = item
            check(False, "Feature.data accepted an array of another block")
        except RuntimeError:
            check((ft.data.id, str(ft.link_type), type(ft.data).__name__) == before, "a refused Feature.data changed the feature",
                  before=before, after=(ft.data.id, str(ft.link_type), type(ft.data).__name__))
    ft.data = b0.data_arrays["pos"]
    check(ft.data.id == b0.data_arrays["pos"].id, "Feature.data is not the array that was set")
    # dimension links: the configured vector, unit / label forwarding, ticks <-> link replacement, re-linking
    vec = b0.create_data_array("vec", "t", data=np.array([[1.0, 2.0, 3.0], [10.0, 20.0, 30.0], [100.0, 200.0, 300.0]])); vec.unit = "ms"; vec.label = "L"
    for index, want in (([-1, 0], [1.0, 10.0, 100.0]), ([-1, 2], [3.0, 30.0, 300.0]), ([0, -1], [1.0, 2.0, 3.0]), ([2, -1], [100.0, 200.0, 300.0])):
        da = b0.create_data_array("d%s" % "".join(map(str, index)).replace("-", "m"), "t", data=[0.0, 0.0, 0.0])
        rd = da.append_range_dimension(ticks=[5.0, 6.0, 7.0])
        rd.link_data_array(vec, index)
        check(list(rd.ticks) == want and rd.unit == "ms" and rd.label == "L", "a linked range dimension does not report the configured vector / unit / label",
              index=index, ticks=list(rd.ticks), unit=rd.unit, label=rd.label)
        vec.unit = "s"; check(rd.unit == "s", "the unit of the linked array is not reported"); vec.unit = "ms"
        rd.ticks = [1.0, 2.0, 3.0]
        check(not rd.has_link and list(rd.ticks) == [1.0, 2.0, 3.0], "explicit ticks did not replace the link")
        rd.link_data_array(vec, index); rd.link_data_array(vec, index[::-1])
        check(list(rd.ticks) == (want if index[::-1] == index else list(np.array(vec[:])[tuple(slice(None) if i == -1 else i for i in index[::-1])])),
              "re-linking does not report the newly configured vector", index=index[::-1], ticks=list(rd.ticks))
        for badidx in ([0, 0], [-1, -1], [-1, -2], [-1]):
            snap = (list(rd.ticks), rd.has_link)
            try:
                rd.link_data_array(vec, badidx)
                check(False, "an invalid link index was accepted", index=badidx)
            except Exception:
                check((list(rd.ticks), rd.has_link) == snap, "a refused link_data_array changed the dimension", index=badidx)
        sd = da.append_set_dimension(["a", "b", "c"])
        sd.link_data_array(vec, index)
        check([float(x) for x in sd.labels] == want, "a linked set dimension does not report the configured vector", index=index)
    df1 = b0.create_data_frame("df1", "t", col_dict={"c0": float, "c1": float}, data=[(1.0, 2.0), (3.0, 4.0)])
    df2 = b0.create_data_frame("df2", "t", col_dict={"c0": float, "c1": float}, data=[(5.0, 6.0), (7.0, 8.0)])
    da = b0.create_data_array("dfl", "t", data=[0.0, 0.0]); rd = da.append_range_dimension(ticks=[0.0, 1.0])
    rd.link_data_frame(df1, 1)
    check([float(x) for x in rd.ticks] == [2.0, 4.0], "a range dimension linked to a frame column does not report that column")
    rd.link_data_frame(df2, 0)
    check([float(x) for x in rd.ticks] == [5.0, 7.0], "re-linking to another frame still reports the old target", ticks=list(rd.ticks))
    # a linked range dimension forwards unit and label of the array it is linked to - also when it carried its own before
    srcv = b0.create_data_array("lsrc", "t", data=np.array([0.5, 1.5, 2.5])); srcv.unit = "ms"; srcv.label = "time"
    own = b0.create_data_array("lown", "t", data=np.array([1.0, 2.0, 3.0]))
    ld = own.append_range_dimension(ticks=[0.0, 1.0, 2.0], label="own label", unit="s")
    ld.link_data_array(srcv, [-1])
    check(ld.unit == "ms" and ld.label == "time" and [float(x) for x in ld.ticks] == [0.5, 1.5, 2.5],
          "a linked range dimension does not report ticks / unit / label of the linked array", unit=ld.unit, label=ld.label, ticks=list(ld.ticks))
    srcv.unit = "s"; srcv.label = "t2"
    check(ld.unit == "s" and ld.label == "t2", "a change of the linked array's unit / label is not visible through the dimension", unit=ld.unit,
          label=ld.label)
    ld.unit = "ks"; ld.label = "via dim"
    check(srcv.unit == "ks" and srcv.label == "via dim" and ld.unit == "ks" and ld.label == "via dim",
          "a unit / label set through a linked dimension does not reach the linked array (or is not read back)", array=[srcv.unit, srcv.label],
          dim=[ld.unit, ld.label])
    # a feature's data: refused assignments (an entity of another block, of either kind) leave the link AND its kind as they were
    fdf = b1.create_data_frame("df1", "t", col_dict={"c0": float}, data=[(1.0,)])
    for tg in (t, mt):
        ft = tg.features[0]; cur = ft.data
        for foreign_obj in (b1.data_arrays["ints"], fdf, b1.data_arrays[cur.name] if cur.name in b1.data_arrays else b1.data_arrays["pos"]):
            try:
                ft.data = foreign_obj
                check(False, "a feature accepted data of another block", tag=tg.name, data=foreign_obj.name)
            except Exception:
                now = tg.features[0].data
                check(type(now) is type(cur) and now.id == cur.id and now.name == cur.name, "a refused feature.data assignment changed the feature",
                      tag=tg.name, refused=type(foreign_obj).__name__, before=[type(cur).__name__, cur.name], after=[type(now).__name__, _safe(lambda: now.name)])
        ft2 = tg.create_feature(df1, nixio.LinkType.Untagged)
        check(type(ft2.data).__name__ == "DataFrame" and ft2.data.id == df1.id, "a feature linking a data frame does not hand back that frame", tag=tg.name)
        ft2.data = b0.data_arrays["ints"]
        check(type(ft2.data).__name__ == "DataArray" and ft2.data.id == b0.data_arrays["ints"].id, "re-pointing a feature to an array of its block failed",
              tag=tg.name)
    f.close()
    return "one sample file: every link kind (group lists, references, sources, features, dimension links to arrays / frame columns): change through every path read through every path, foreign / wrong-kind appends, all 4 vector positions of a 2-D link, replacement and re-linking, invalid indices; accepted / refused feature data of both kinds"


def b_c04(tier):
    """delete removes the entity, its subtree and every link to it - nothing else (canonical walk of the rest)"""
    import nixio

    def strip(w, ids):
        """the walk with every entity / link whose id is in ids removed"""
        if isinstance(w, dict):
            if w.get("id") in ids:
                return None
            out = {}
            for k, v in w.items():
                if k in ("meta", "positions", "extents", "link", "data") and isinstance(v, str) and v in ids:
                    out[k] = "GONE"            # the link is gone: the accessor yields nothing (None) or raises
                else:
                    out[k] = strip(v, ids)
            return out
        if isinstance(w, list):
            return [x for x in (strip(v, ids) for v in w if not (isinstance(v, str) and v in ids)) if x is not None]
        return w
    targets = [("blocks", None, "blk0"), ("data_arrays", "blk0", "same"), ("data_arrays", "blk0", "ints"), ("tags", "blk0", "tag"),
               ("multi_tags", "blk0", "mtag"), ("groups", "blk0", "grp"), ("sources", "blk0", "src"), ("sections", None, "sess"),
               ("sections", None, "other"), ("data_arrays", "blk1", "pos")]
    for cont, blk, name in targets:
        for how in ("name", "id", "index", "object"):
            f = sample_file(newfile())
            owner = f if blk is None else f.blocks[blk]
            c = getattr(owner, cont)
            ent = c[name]
            before = walk_file(f)
            ids = {ent.id}
            if cont in ("sources", "sections"):
                ids |= {x.id for x in (ent.find_sources() if cont == "sources" else ent.find_sections())}
            if cont == "blocks":
                ids |= {x["id"] for k in ("arrays", "tags", "mtags", "groups") for x in [bb for bb in before["blocks"] if bb["id"] == ent.id][0][k]}
                ids |= {s.id for s in ent.find_sources()}
            if cont == "sections":
                ids |= {p["id"] for p in _all_props(before, ids)}
            key = dict(name=name, id=ent.id, index=[x.id for x in c].index(ent.id), object=ent)[how]
            try:
                del c[key]
            except Exception as e:
                check(False, "a legal delete was refused", container=cont, by=how, error=repr(e)); f.close(); continue
            after = walk_file(f)
            r = diff(strip(before, ids), after)
            # a multi-tag whose positions array was deleted is itself inconsistent; everything else must match exactly
            check(r is None, "after a delete the rest of the file differs from (before minus the deleted entities and links to them)",
                  container=cont, entity=name, by=how, where=r)
            f.close()
            if tier == "quick" and how == "id":
                break
    # removing links / clearing metadata never deletes an entity
    f = sample_file(newfile()); b = f.blocks[0]; g = b.groups["grp"]
    before = walk_file(f)
    for lst in (g.data_arrays, g.tags, g.multi_tags, g.sources):
        for x in list(lst):
            del lst[x]
    for e in (b, b.data_arrays["same"], b.tags["tag"], g, b.sources["src"]):
        del e.metadata
    lone = b.create_group("lone", "t"); lone.data_arrays.append(b.data_arrays["ints"]); del lone.data_arrays[0]
    lone2 = b.create_source("lone2", "t"); lone2.metadata = f.sections["sess"]; del lone2.metadata
    after = walk_file(f)
    names = lambda w: sorted(x["name"] for k in ("arrays", "tags", "mtags", "groups", "sources") for x in w["blocks"][0][k])
    check(names(after) == sorted(names(before) + ["lone", "lone2"]) and len(after["sections"]) == len(before["sections"]),
          "removing links / clearing metadata deleted an entity", before=names(before), after=names(after))
    f.close()
    return "sample file: delete each of 10 entities (block, arrays, tag, multi-tag, group, source tree, section trees) by name / id / index / object and compare the canonical walk with (before minus deleted); remove every link of a group, clear metadata links, last entry of a list"


def _all_props(w, secids):
    out = []

    def rec(s):
        if s["id"] in secids:
            out.extend(s["props"])
        for c in s["sections"]:
            rec(c)
    for s in w["sections"]:
        rec(s)
    return out


# ------------------------------------------------------------------------------------------------------------------
def b_c03(tier):
    """all lookups describe one creation-order sequence - through create/delete/re-create histories on live containers"""
    import nixio
    from nixio.exceptions import DuplicateName
    pool = ["zeta", "alpha", str(uuid.uuid4()), " lead", "trail ", "mid dle", "ünï", "a" * 200, "0"]
    f = newfile(); b = f.create_block("b", "t"); sec = f.create_section("s", "t"); src = b.create_source("root", "t")
    makers = dict(data_arrays=(b, lambda n: b.create_data_array(n, "t", data=[1.0])), tags=(b, lambda n: b.create_tag(n, "t", [0.0])),
                  groups=(b, lambda n: b.create_group(n, "t")), sources=(src, lambda n: src.create_source(n, "t")),
                  sections=(sec, lambda n: sec.create_section(n, "t")), blocks=(f, lambda n: f.create_block(n, "t")),
                  props=(sec, lambda n: sec.create_property(n, [1])))
    for cname, (owner, make) in makers.items():
        cont = getattr(owner, cname)             # ONE live container object through the whole history
        model = [(x.name, x.id) for x in cont]
        hist = [("c", n) for n in pool] + [("d", pool[1]), ("c", pool[1]), ("d", pool[2]), ("lookup-old", None), ("c", pool[2]),
                                           ("d", pool[0]), ("c", pool[0]), ("dup", pool[3])]
        old_ids = []
        for op, n in hist:
            if op == "c":
                e = make(n); model.append((n, e.id))
                check(len(e.id) == 36 and e.id not in [i for _, i in model[:-1]] and e.id not in old_ids, "a new id is not a fresh UUID", name=n)
            elif op == "d":
                old_ids.append(dict(model)[n]); _ = cont[n]; _ = cont[dict(model)[n]]       # look it up (by name and id) first
                del cont[n]; model = [(x, i) for x, i in model if x != n]
            elif op == "dup":
                try:
                    make(n); check(False, "a duplicate name was accepted", container=cname, name=n)
                except DuplicateName:
                    N[0] += 1
            names = [x for x, _ in model]
            got = [(x.name, x.id) for x in cont]
            check(got == model and len(cont) == len(model), "iteration / length do not describe the creation-order sequence",
                  container=cname, after=(op, n), expected=names, got=[g[0] for g in got])
            for i, (nm, eid) in enumerate(model):
                ok = cont[i].id == eid and cont[i - len(model)].id == eid and cont[nm].id == eid and cont[eid].name == nm and \
                    nm in cont and eid in cont and cont[nm] in cont
                check(ok, "lookups by index / name / id / membership disagree", container=cname, name=nm, index=i, after=(op, n))
            for gone in old_ids:
                if gone in [i for _, i in model]:
                    continue
                try:
                    x = cont[gone]
                    check(False, "the id of a deleted entity still retrieves something", container=cname, got=x.name)
                except KeyError:
                    check(gone not in cont, "membership and lookup by id disagree for a deleted id", container=cname)
            for badi in (len(model), -len(model) - 1):
                try:
                    cont[badi]; check(False, "an out-of-range index was accepted", index=badi)
                except IndexError:
                    N[0] += 1
    for badname in ("", "a/b", "/"):
        for cname, (owner, make) in makers.items():
            if badname == "" and cname == "blocks":
                continue          # a block created without a name is named after its id (documented)
            try:
                make(badname); check(False, "an illegal name was accepted", container=cname, name=badname)
            except (ValueError, DuplicateName):
                N[0] += 1
    # data frames: a second frame under an existing name is refused like every other duplicate
    fb = f.create_block("framesb", "t"); fb.create_data_frame("df", "t", col_dict={"a": int}, data=[(1,)])
    for kw in (dict(col_dict={"a": int}, data=[(5,)]), dict(col_dict={"z": float}, data=[(2.0,)])):
        try:
            fb.create_data_frame("df", "t", **kw); check(False, "a second data frame under an existing name was accepted", columns=list(kw["col_dict"]))
        except DuplicateName:
            N[0] += 1
        except Exception as e:
            check(False, "a duplicate data frame name was refused with %s, not with a duplicate-name error" % type(e).__name__)
        check(len(fb.data_frames) == 1 and list(fb.data_frames["df"].column_names) == ["a"] and fb.data_frames["df"].read_rows([0])[0][0] == 1,
              "a refused duplicate create_data_frame changed the existing frame")
    # a legal name that is the id of a SIBLING is accepted by every creator (it is a name nobody carries)
    sib = {"blocks": (lambda n: f.create_block(n, "t"), f.create_block("sibb", "t")),
           "sections": (lambda n: f.create_section(n, "t"), f.create_section("sibs", "t")),
           "arrays": (lambda n: fb.create_data_array(n, "t", data=[1.0]), fb.create_data_array("siba", "t", data=[1.0])),
           "sources": (lambda n: fb.create_source(n, "t"), fb.create_source("sibsrc", "t")),
           "subsections": (lambda n: f.sections["sibs"].create_section(n, "t"), f.sections["sibs"].create_section("sibsub", "t"))}
    for cname, (mk, other_) in sib.items():
        try:
            e = mk(other_.id)
            check(e.name == other_.id and e.id != other_.id, "an entity named after a sibling's id is not a new entity with that name", container=cname)
        except Exception as ex:
            check(False, "a legal name equal to a sibling's id was refused", container=cname, error=repr(ex)[:120])
    # a name that IS another member's id (kept-id copies of a block that is named after its id): the name retrieves its own entity
    g2 = newfile("ids.nix"); anon = f.create_block("", "t"); nm = anon.name
    g2.create_block(name="backup", copy_from=anon, keep_copy_id=True); g2.create_block(copy_from=anon, keep_copy_id=True)
    check(g2.blocks[nm].name == nm, "lookup by a name that is also another member's id returned the other member", got=g2.blocks[nm].name)
    check(nm in g2.blocks and "backup" in g2.blocks and len(g2.blocks) == 2, "membership after kept-id copies")
    del g2.blocks[nm]
    check([b.name for b in g2.blocks] == ["backup"], "deleting by a name that is also another member's id removed the wrong member",
          left=[b.name for b in g2.blocks])
    g2.close()
    f.close()
    return "7 container kinds x one history of 17 create / lookup / delete / re-create steps on ONE live container object over 9 legal names (uuid-like, leading / trailing blanks, non-ASCII, long), all lookups after every step; illegal names; a name equal to another member's id"


def b_c12(tier):
    """a refused call leaves the file exactly as it was (canonical walk before / after)"""
    import nixio
    f = sample_file(newfile()); b = f.blocks[0]; a = b.data_arrays["same"]; sec = f.sections["sess"]
    rd = a.dimensions[1]; t = b.tags["tag"]; g = b.groups["grp"]; other = f.blocks[1]
    # dimensions that are ALREADY linked (a refused re-link must keep the old link)
    src1 = b.create_data_array("ticksrc", "t", data=np.array([0.5, 1.5, 2.5])); src1.append_set_dimension()
    lin = b.create_data_array("lin", "t", data=np.array([1.0, 2.0, 3.0])); lrd = lin.append_range_dimension(ticks=[0.0, 1.0, 2.0])
    lrd.link_data_array(src1, [-1]); lsd = b.data_arrays["ints"].dimensions[0]; lsd.link_data_array(b.data_arrays["text"], [-1])
    calls = [
        ("create_block dup", lambda: f.create_block("blk0", "t")), ("create_block bad name", lambda: f.create_block("a/b", "t")),
        ("create_block empty type", lambda: f.create_block("fresh", "")), ("create_section dup", lambda: f.create_section("sess", "t")),
        ("create_data_array dup", lambda: b.create_data_array("same", "t", data=[1.0])),
        ("create_data_array no shape", lambda: b.create_data_array("fresh", "t")),
        ("create_data_array shape mismatch", lambda: b.create_data_array("fresh", "t", data=[1.0, 2.0], shape=(3,))),
        ("create_tag dup", lambda: b.create_tag("tag", "t", [0.0])), ("create_tag bad name", lambda: b.create_tag("", "t", [0.0])),
        ("create_multi_tag dup", lambda: b.create_multi_tag("mtag", "t", b.data_arrays["pos"])),
        ("create_multi_tag extents collide", lambda: (b.create_data_array("mx-extents", "t", data=[1.0]) and None) or
         b.create_multi_tag("mx", "t", [[1.0]], [[1.0]])),
        ("create_group dup", lambda: b.create_group("grp", "t")), ("create_source dup", lambda: b.create_source("src", "t")),
        ("nested create_source dup", lambda: b.sources["src"].create_source("child", "t")),
        ("create_section nested dup", lambda: sec.create_section("sub", "t")),
        ("create_property dup", lambda: sec.create_property("n", [1])), ("create_property mixed", lambda: sec.create_property("fresh", [1, "a"])),
        ("create_property bool in ints", lambda: sec.create_property("fresh", [1, True])),
        ("create_property empty", lambda: sec.create_property("fresh", [])),
        ("property values wrong type", lambda: setattr(sec.props["n"], "values", ["x"])),
        ("property extend wrong type", lambda: sec.props["n"].extend_values([1.5])),
        ("dict-style wrong type", lambda: sec.__setitem__("n", [1, 2.5])),
        ("label wrong type", lambda: setattr(a, "label", 5)), ("definition wrong type", lambda: setattr(a, "definition", 5)),
        ("type empty", lambda: setattr(a, "type", None)), ("origin wrong type", lambda: setattr(a, "expansion_origin", "x")),
        ("append wrong rank", lambda: a.append(np.zeros(3))), ("append mismatching shape axis 0", lambda: a.append(np.zeros((2, 5)))),
        ("append mismatching shape axis 1", lambda: a.append(np.zeros((4, 2)), axis=1)),
        ("group append foreign", lambda: g.data_arrays.append(other.data_arrays["same"])),
        ("group append wrong kind", lambda: g.tags.append(a)), ("references append foreign", lambda: t.references.append(other.data_arrays["ints"])),
        ("sources append foreign", lambda: a.sources.append(other.sources["src"])),
        ("link invalid index", lambda: rd.link_data_array(b.data_arrays["pos"], [0, 0])),
        ("link wrong rank", lambda: rd.link_data_array(b.data_arrays["pos"], [-1])),
        ("re-link range no -1", lambda: lrd.link_data_array(b.data_arrays["pos"], [0, 0])),
        ("re-link range two -1", lambda: lrd.link_data_array(b.data_arrays["pos"], [-1, -1])),
        ("re-link range wrong rank", lambda: lrd.link_data_array(b.data_arrays["pos"], [-1])),
        ("re-link set no -1", lambda: lsd.link_data_array(b.data_arrays["pos"], [0, 0])),
        ("re-link set negative entry", lambda: lsd.link_data_array(b.data_arrays["pos"], [-2, 0])),
        ("re-link set two -1", lambda: lsd.link_data_array(b.data_arrays["pos"], [-1, -1])),
        ("re-link set wrong rank", lambda: lsd.link_data_array(b.data_arrays["pos"], [-1, 0, 0])),
        ("container index out of range", lambda: b.data_arrays[99]), ("delete missing", lambda: b.data_arrays.__delitem__("nope")),
        ("delete wrong kind", lambda: b.data_arrays.__delitem__(t)),
        ("force_created_at wrong type", lambda: a.force_created_at("x")), ("feature foreign data", lambda: setattr(t.features[0], "data", other.data_arrays["ints"])),
        ("create_feature foreign", lambda: t.create_feature(other.data_arrays["ints"], nixio.LinkType.Untagged)),
        ("create_data_array wrong unit type", lambda: b.create_data_array("fresh", "t", data=[1.0], unit=5)),
        ("create_data_array wrong label type", lambda: b.create_data_array("fresh", "t", data=[1.0], label=5)),
        ("create_data_array dtype/data mismatch", lambda: b.create_data_array("fresh", "t", dtype=np.int32, data=["a"])),
        ("create_data_array unsupported dtype", lambda: b.create_data_array("fresh", "t", dtype="nonsense", shape=(2,))),
        ("create_tag non-numeric position", lambda: b.create_tag("fresh", "t", ["a"])),
        ("append non-convertible data", lambda: a.append(np.array([["a", "b", "c", "d"]]))),
        ("append complex data", lambda: a.append(np.array([[1j, 2j, 3j, 4j]]))),
        ("append bytes data", lambda: a.append(np.array([[b"a", b"b", b"c", b"d"]]))),
        ("append object data", lambda: a.append(np.array([[None, {}, [], ()]], dtype=object))),
        ("append datetime data", lambda: a.append(np.array([["2020-01-01"] * 4], dtype="datetime64[D]"))),
        ("append_range_dimension unsorted ticks", lambda: a.append_range_dimension(ticks=[3.0, 1.0])),
        ("append_range_dimension wrong unit type", lambda: a.append_range_dimension(ticks=[1.0, 2.0], unit=5)),
        ("append_sampled_dimension wrong interval type", lambda: a.append_sampled_dimension("x")),
        ("append_sampled_dimension wrong unit type", lambda: a.append_sampled_dimension(1.0, unit=5)),
        ("append_set_dimension invalid labels", lambda: a.append_set_dimension(labels=5)),
        ("append_range_dimension_using_self invalid index", lambda: a.append_range_dimension_using_self([0, 0])),
        ("create_feature unsupported link type", lambda: t.create_feature(a, "nonsense")),
        ("copy onto existing name", lambda: b.create_data_array(name="ints", copy_from=a)),
        ("copy wrong kind", lambda: b.create_tag(copy_from=a)),
    ]
    setup_done = set()
    for name, call in calls:
        if name == "create_multi_tag extents collide":      # needs the colliding array to exist BEFORE the snapshot
            b.create_data_array("mx-extents", "t", data=[1.0]); gx = b.create_group("gx", "t"); gx.data_arrays.append(b.data_arrays["mx-extents"])
            call = lambda: b.create_multi_tag("mx", "t", [[1.0]], [[1.0]])
        before = walk_file(f)
        try:
            call()
            refused = False
        except Exception as e:
            refused = True
        if not refused:
            continue            # accepted by this tree: not a refusal scenario (acceptance is judged by other batteries)
        r = diff(before, walk_file(f))
        check(r is None, "a refused call changed the file", call=name, where=r)
    # a refusal must not disturb live handles either: containers emptied earlier, then a refused creation, then a legal one
    a2 = b.create_data_array("hd", "t", data=[1.0, 2.0]); a2.append_set_dimension(["x", "y"]); a2.delete_dimensions()
    try:
        a2.append_range_dimension(ticks=[3.0, 1.0])
    except Exception:
        pass
    a2.append_set_dimension(["x", "y"])
    check(len(a2.dimensions) == len(b.data_arrays["hd"].dimensions) == 1, "after a refused append_range_dimension a live handle and a fresh one disagree",
          live=len(a2.dimensions), fresh=len(b.data_arrays["hd"].dimensions))
    nb = f.create_block("hb", "t"); cont = nb.data_arrays; nb.create_data_array("x", "t", data=[1.0]); del cont["x"]
    try:
        nb.create_data_array("z", "t", data=[1.0], unit=5)
    except Exception:
        pass
    nb.create_data_array("ok", "t", data=[1.0])
    check(len(cont) == len(f.blocks["hb"].data_arrays) == 1, "after a refused create_data_array a live container and a fresh one disagree",
          live=len(cont), fresh=len(f.blocks["hb"].data_arrays))
    tg = nb.tags; nb.create_tag("t1", "t", [0.0]); del tg["t1"]
    try:
        nb.create_tag("t2", "t", ["a"])
    except Exception:
        pass
    nb.create_tag("t3", "t", [1.0])
    check(len(tg) == len(f.blocks["hb"].tags) == 1, "after a refused create_tag a live container and a fresh one disagree", live=len(tg),
          fresh=len(f.blocks["hb"].tags))
    tt = nb.create_tag("t4", "t", [1.0]); fts = tt.features; ft = tt.create_feature(nb.data_arrays["ok"], nixio.LinkType.Untagged); del fts[ft.id]
    try:
        tt.create_feature(other.data_arrays["ints"], nixio.LinkType.Untagged)
    except Exception:
        pass
    tt.create_feature(nb.data_arrays["ok"], nixio.LinkType.Untagged)
    check(len(fts) == len(nb.tags["t4"].features) == 1, "after a refused create_feature a live container and a fresh one disagree", live=len(fts),
          fresh=len(nb.tags["t4"].features))
    f.close()
    return "one sample file x %d refused calls (duplicate / illegal names, empty type, wrong or inconsistent types, shape mismatches, foreign / wrong-kind objects, invalid link index, out-of-range index, copies onto existing names): canonical walk before = after; live handles vs fresh handles after refusals on emptied containers" % len(calls)


# ------------------------------------------------------------------------------------------------------------------
def b_c20(tier):
    """copies: complete, independent, internal links point into the copy, id policy, names, refusals"""
    import nixio

    def norm(w, drop_ids):
        """walk with ids replaced by the entity's name path (so that a fresh-id copy can be compared with its source)"""
        idmap = {}

        def collect(x, path):
            if isinstance(x, dict):
                if "id" in x and "name" in x:
                    idmap[x["id"]] = path + "/" + str(x["name"])
                for k, v in x.items():
                    collect(v, path + "/" + (str(x.get("name")) if "name" in x else k))
            elif isinstance(x, list):
                for v in x:
                    collect(v, path)
        collect(w, "")

        def rep(x):
            if isinstance(x, dict):
                # (a metadata link leaves the copied subtree: only its presence is compared)
                return {k: ("#" if k in ("id", "created") and drop_ids else bool(v) if k == "meta" and drop_ids else rep(v))
                        for k, v in x.items()}
            if isinstance(x, list):
                return [rep(v) for v in x]
            if isinstance(x, str) and x in idmap and drop_ids:
                return "@" + idmap[x].split("/", 3)[-1]
            return x
        return rep(w)
    for keep in (True, False):
        for newname in (None, "copy"):
            for cross in (True, False):
                src = sample_file(newfile("src.nix")); dst = newfile("dst.nix") if cross else src
                sb = src.blocks[0]
                if not cross and newname is None:
                    try:
                        dst.create_block(copy_from=sb, keep_copy_id=keep)
                        check(False, "copying onto an existing name was accepted")
                    except NameError:
                        N[0] += 1
                    src.close(); continue
                def src_block():
                    return [x for x in walk_file(src)["blocks"] if x["name"] == sb.name][0]
                before_src = src_block()
                cb = dst.create_block(name=newname or "", copy_from=sb, keep_copy_id=keep) if newname else dst.create_block(copy_from=sb, keep_copy_id=keep)
                want_name = newname or sb.name
                check(cb.name == want_name, "the handle returned by the copy does not denote the copy", returned=cb.name, expected=want_name)
                wsrc = [x for x in walk_file(src)["blocks"] if x["name"] == sb.name][0]
                wcp = [x for x in walk_file(dst)["blocks"] if x["name"] == want_name][0]
                a, bb = norm(dict(wsrc, name="X", meta=None), True), norm(dict(wcp, name="X", meta=None), True)
                r = diff(a, bb)
                check(r is None, "the copy does not have the same content / internal link structure as the source", keep_id=keep,
                      cross_file=cross, where=r)
                src_ids = {v for v in _ids(wsrc)}; cp_ids = {v for v in _ids(wcp)}
                if keep:
                    check(src_ids == cp_ids, "keep_id=True did not keep the ids", missing=sorted(src_ids - cp_ids)[:3])
                else:
                    check(not (src_ids & cp_ids), "keep_id=False left ids shared with the source", shared=sorted(src_ids & cp_ids)[:3])
                    if cross:
                        linked = {x for k in ("arrays", "tags", "mtags", "groups", "sources") for e in wcp[k] for x in _links(e)}
                        inside = {e["id"] for k in ("arrays", "tags", "mtags", "groups") for e in wcp[k]} | {i for s_ in wcp["sources"] for i in _ids(s_)}
                        check(linked <= inside, "links inside the copy point outside the copy", stray=sorted(linked - inside)[:3])
                # independence: mutate the copy, the source walk must not change (and vice versa)
                cb.data_arrays["same"].label = "changed-in-copy"; cb.data_arrays["ints"][0] = 99
                check(diff(before_src, src_block()) is None,
                      "a change made to the copy is visible in the source", keep_id=keep, cross_file=cross,
                      where=diff(before_src, src_block()))
                # ... deleting something inside the copy, and the copy itself, leaves the source as it was
                before_src = src_block()
                del cb.data_arrays["ints"]
                check(diff(before_src, src_block()) is None, "deleting an array of the copy changed the source", keep_id=keep,
                      cross_file=cross, where=diff(before_src, src_block()))
                del dst.blocks[want_name]
                check(sb.name in src.blocks and diff(before_src, src_block()) is None, "deleting the copy changed / removed the source",
                      keep_id=keep, cross_file=cross, source_blocks=[b.name for b in src.blocks])
                if cross:
                    dst.close()
                src.close()
    # the other direction: deleting the source leaves the copy complete
    for keep in (True, False):
        f = sample_file(newfile("d.nix")); sb = f.blocks[0]; cb = f.create_block(name="cp", copy_from=sb, keep_copy_id=keep)
        w0 = [x for x in walk_file(f)["blocks"] if x["name"] == "cp"][0]
        del sb.data_arrays["same"]; del f.blocks[sb.name]
        w1 = [x for x in walk_file(f)["blocks"] if x["name"] == "cp"]
        check(len(w1) == 1 and diff(w0, w1[0]) is None, "deleting the source (or one of its arrays) changed the copy", keep_id=keep,
              where=diff(w0, w1[0]) if w1 else "copy gone")
        sec = f.sections["sess"]; cs = f.copy_section(sec, keep_id=keep, name="cpsec")
        n0 = [p.name for p in sec.props]; del f.sections["cpsec"]
        check("sess" in f.sections and [p.name for p in f.sections["sess"].props] == n0 and len(f.sections["sess"].sections) == len(sec.sections),
              "deleting a copied section removed / changed the source section", keep_id=keep, sections=[x.name for x in f.sections])
        f.close()
    # names that look like ids: the existing-name test is about names
    import uuid
    src = newfile("u.nix"); dst = newfile("ud.nix")
    ub = src.create_block("", "t"); un = ub.name; ub.create_data_array("a", "t", data=[1, 2])     # (an unnamed block is named after its id)
    try:
        c1 = dst.create_block(name="backup", copy_from=ub, keep_copy_id=True)
        c2 = dst.create_block(copy_from=ub, keep_copy_id=True)
        check(c1.name == "backup" and c2.name == un and len(dst.blocks) == 2, "copies of an id-named block under two names are not both there",
              names=[b.name for b in dst.blocks])
    except Exception as e:
        check(False, "a legal copy (no block of that NAME at the destination) was refused", name=un, error=repr(e))
    try:
        dst.create_block(copy_from=ub, keep_copy_id=False); check(False, "copying onto an existing (id-like) name was accepted")
    except NameError:
        N[0] += 1
    src.close(); dst.close()
    # sections and properties
    for keep in (True, False):
        for children in (True, False):
            f = sample_file(newfile()); sec = f.sections["sess"]; dest = f.sections["other"]
            for where, call in (("file", lambda nm: f.copy_section(sec, children=children, keep_id=keep, name=nm)),
                                ("section", lambda nm: dest.copy_section(sec, children=children, keep_id=keep, name=nm))):
                try:
                    c = call("cp")
                except Exception as e:
                    check(False, "a legal section copy was refused", into=where, children=children, keep_id=keep, error=repr(e)); continue
                check(c.name == "cp", "the handle returned by copy_section does not denote the copy", returned=c.name)
                check([p.name for p in c.props] == [p.name for p in sec.props] and
                      [tuple(p.values) for p in c.props] == [tuple(p.values) for p in sec.props],
                      "the copied section does not have the source's properties", into=where, children=children)
                check((len(c.sections) == len(sec.sections)) == children or len(sec.sections) == 0,
                      "recursive / non-recursive copy has the wrong children", into=where, children=children, got=len(c.sections))
                ids_s = {sec.id} | {p.id for p in sec.props}; ids_c = {c.id} | {p.id for p in c.props}
                check((ids_s == ids_c) if keep else not (ids_s & ids_c), "the id policy was not applied to the section and its properties",
                      keep_id=keep, into=where, children=children)
                try:
                    call("cp"); check(False, "copying onto an existing name was accepted", into=where)
                except NameError:
                    N[0] += 1
            # sub-sections, whichever way the handle was obtained and whatever the parent holds
            bare = f.create_section("bare%s%s" % (keep, children), "t"); made = bare.create_section("inner", "t"); made.create_property("q", [1.5])
            for label, src_sec in (("handle from create_section, parent without properties", made),
                                   ("handle fetched through the parent", f.sections[bare.name].sections["inner"]),
                                   ("handle fetched through the parent, parent with properties", f.sections["sess"].sections["sub"])):
                for where, tgt in (("file", f), ("section", dest)):
                    nm = "sc%d" % (len(f.sections) + len(dest.sections))
                    try:
                        c = tgt.copy_section(src_sec, children=children, keep_id=keep, name=nm)
                    except Exception as e:
                        check(False, "a legal copy of a sub-section was refused", handle=label, into=where, children=children, keep_id=keep,
                              error=repr(e)[:160]); continue
                    check(c.name == nm and [p.name for p in c.props] == [p.name for p in src_sec.props] and
                          [tuple(p.values) for p in c.props] == [tuple(p.values) for p in src_sec.props] and ((c.id == src_sec.id) == keep),
                          "the copy of a sub-section is not a faithful copy under the requested id policy", handle=label, into=where)
            p = dest.create_property(copy_from=sec.props["n"], keep_copy_id=keep, name="pcopy") if True else None
            check(p.name == "pcopy" and tuple(p.values) == tuple(sec.props["n"].values) and ((p.id == sec.props["n"].id) == keep),
                  "a copied property is not a faithful copy under the requested id policy", keep_id=keep, name=p.name)
            f.close()
    return "block copies: {keep, fresh ids} x {default, new name} x {same file, other file}; section copies into file / section x {recursive, flat} x id policy; property copies: content, internal links, id policy, returned handle, independence, existing names"


def b_c18(tier):
    """format upgrade: old-format files built with raw h5py from files written by the library"""
    import h5py
    import nixio
    from nixio.cmd import upgrade
    vlen = h5py.special_dtype(vlen=str)
    LIB = tuple(nixio.file.HDF_FF_VERSION)

    def props_of(h):
        out = []

        def visit(_, o):
            if isinstance(o, h5py.Dataset) and "entity_id" in o.attrs and "/properties/" in o.name:
                out.append(o.name)
        h["metadata"].visititems(visit)
        return out

    def make_old(path, unc_of, with_id, n_alias, extras):
        """write a current file with the library, then rewrite it into the old layout"""
        f = nixio.File.open(path, nixio.FileMode.Overwrite)
        s = f.create_section("sess", "t"); s.create_property("ints", [1, 2, 3]); s.create_property("floats", [0.5, 1.5]).unit = "mV"
        p = s.create_property("text", ["a", "ünï"]); p.definition = "words"; s.create_property("flag", [True]); s.create_property("one", [7.25])
        sub = s.create_section("sub", "t"); sub.create_property("deep", [1.0, 2.0, 3.0]); f.create_section("empty", "t")
        sub.create_property("novalues", nixio.DataType.Double); s.create_property("cleared", [1, 2]).values = []
        b = f.create_block("blk", "t"); a0 = b.create_data_array("plain", "t", data=np.arange(6.0).reshape(2, 3))
        a0.append_sampled_dimension(0.5, label="x", unit="s"); a0.append_set_dimension(["a", "b", "c"])
        arrs = []
        for k in range(n_alias):
            a = b.create_data_array("alias%d" % k, "t", data=np.array([0.5, 1.5, 4.0 + k])); a.unit = "ms"; a.label = "time%d" % k
            a.append_range_dimension_using_self(); arrs.append(a.name)
        expected = walk_file(f); f.close()
        unc = {}
        with h5py.File(path, "a") as h:
            for pn in props_of(h):
                old = h[pn]; vals = old[()]; attrs = dict(old.attrs); n = len(vals)
                u = unc_of(pn.split("/")[-1], n)
                dt = np.dtype([("value", old.dtype if old.dtype.kind != "O" else vlen), ("uncertainty", "<f8"), ("reference", vlen),
                               ("filename", vlen), ("encoder", vlen), ("checksum", vlen)])
                rec = np.zeros(n, dtype=dt)
                rec["value"] = vals; rec["uncertainty"] = u
                ex = extras and pn.endswith("/text")
                for fld in ("reference", "filename", "encoder", "checksum"):
                    rec[fld] = [("%s%d" % (fld, i)) if ex else "" for i in range(n)]
                del h[pn]
                ds = h.create_dataset(pn, data=rec, dtype=dt, chunks=True, maxshape=(None,))
                for k_, v_ in attrs.items():
                    ds.attrs[k_] = v_
                unc[pn] = (list(u), ex)
            for an in arrs:
                da = h["data/blk/data_arrays/" + an]; dim = da["dimensions/1"]
                daid = da.attrs["entity_id"]
                if "link" in dim:
                    del dim["link"]
                dim[daid] = da                        # the old alias range dimension: a link to its own array, no ticks
            h.attrs["version"] = (1, 1, 1)
            if not with_id:
                if "id" in h.attrs:
                    del h.attrs["id"]
        return expected, unc

    def norm(w):
        """ids / creation times of converted properties are new: compare everything else"""
        def rep(x, key=None):
            if isinstance(x, dict):
                drop = ("id", "created") if x.get("kind") is None and "values" in x else ()
                return {k: ("#" if k in drop else rep(v, k)) for k, v in x.items() if k != "version"}
            if isinstance(x, list):
                return [rep(v) for v in x]
            return x
        return rep(w)

    def strip_companions(w):
        def rec(sec):
            # (converted properties are re-created, in name order: the order within a section is not compared)
            sec = dict(sec); sec["props"] = sorted((p for p in sec["props"] if "." not in str(p["name"])), key=lambda p: str(p["name"]))
            sec["sections"] = [rec(c) for c in sec["sections"]]; return sec
        w = dict(w); w["sections"] = [rec(s) for s in w["sections"]]; return w

    def check_upgraded(path, expected, unc, label):
        mode_rw = True
        try:
            f = nixio.File.open(path, nixio.FileMode.ReadWrite)
        except Exception as e:
            check(False, "the upgraded file cannot be opened for writing", case=label, error=repr(e)); return None
        got = walk_file(f)
        check(tuple(f.version) == LIB, "the format version was not raised to the library's", case=label, version=f.version)
        check(bool(f.id) and nixio.util.is_uuid(f.id) if hasattr(nixio.util, "is_uuid") else True, "no valid file id after the upgrade", case=label)
        r = diff(norm(strip_companions(expected)), norm(strip_companions(got)))
        check(r is None, "content differs after the upgrade", case=label, where=r)
        # per-value extras remain retrievable
        for pn, (u, ex) in unc.items():
            parts = pn.split("/"); sec = f.sections[parts[2]]
            for q in parts[3:-2]:
                if q != "sections":
                    sec = sec.sections[q]
            name = parts[-1]; prop = sec.props[name]
            if len(set(u)) > 1:
                comp = name + ".uncertainty"
                ok = comp in sec.props and [float(x) for x in sec.props[comp].values] == [float(x) for x in u]
                check(ok, "distinct per-value uncertainties are not retrievable after the upgrade", case=label, prop=name, uncertainties=u,
                      companion=list(sec.props[comp].values) if comp in sec.props else None, attr=_safe(lambda: prop.uncertainty))
            elif u and u[0] != 0:
                check(prop.uncertainty is not None and float(prop.uncertainty) == float(u[0]),
                      "a uniform non-zero uncertainty was lost in the upgrade", case=label, prop=name, uncertainties=u,
                      attr=_safe(lambda: prop.uncertainty))
            else:
                check(prop.uncertainty in (None, 0, 0.0) and (name + ".uncertainty") not in sec.props,
                      "an uncertainty appeared from nowhere", case=label, prop=name)
            if mode_rw and len(u):
                try:
                    keepv = list(prop.values); prop.values = keepv + keepv[:1]
                    check(list(prop.values) == keepv + keepv[:1], "a converted property does not take another number of values", case=label, prop=name)
                    prop.values = keepv
                except Exception as e:
                    check(False, "a converted property refuses another number of values (not resizable)", case=label, prop=name, error=repr(e)[:120])
            for fld in ("reference", "filename", "encoder", "checksum"):
                comp = "%s.%s" % (name, fld)
                if ex:
                    check(comp in sec.props and list(sec.props[comp].values) == ["%s%d" % (fld, i) for i in range(len(u))],
                          "per-value extras are not retrievable after the upgrade", case=label, prop=name, extra=fld)
                else:
                    check(comp not in sec.props, "an empty extra produced a companion property", case=label, prop=name, extra=fld)
        f.close()
        return got

    UNC = {
        "zero": lambda nm, n: [0.0] * n,
        "uniform": lambda nm, n: [0.25] * n,
        "distinct": lambda nm, n: [0.1 * (i + 1) for i in range(n)],
        "close": lambda nm, n: [1e-9 * (1 + (i * 2) % 3) for i in range(n)],
        "nearly": lambda nm, n: [0.25 + 2e-6 * i for i in range(n)],
        "mixed": lambda nm, n: ([0.0] * (n - 1) + [0.5]) if n > 1 else [0.0],
    }
    d = tempfile.mkdtemp(prefix="bnd_up_")
    cases = [(u, wid, na, ex) for u in UNC for wid in (True, False) for na in (0, 2) for ex in (False, True)]
    if tier == "quick":
        cases = [c for c in cases if (c[1], c[2], c[3]) in ((False, 2, True), (True, 0, False))]
    for ci, (uk, wid, na, ex) in enumerate(cases):
        label = "unc=%s id=%s alias=%d extras=%s" % (uk, wid, na, ex)
        path = os.path.join(d, "c%d.nix" % ci)
        expected, unc = make_old(path, UNC[uk], wid, na, ex)
        # an old file is refused for writing before the upgrade
        try:
            nixio.File.open(path, nixio.FileMode.ReadWrite).close(); check(False, "an old-format file was opened for writing", case=label)
        except Exception:
            N[0] += 1
        import shutil
        resumed = os.path.join(d, "r%d.nix" % ci); shutil.copy(path, resumed)
        ok = upgrade.file_upgrade(path, quiet=True)
        check(ok is True, "file_upgrade reported failure", case=label)
        got = check_upgraded(path, expected, unc, label)
        # idempotence: a second run finds nothing to do and changes nothing
        tasks, _, _ = upgrade.collect_tasks(path)
        check(tasks == [], "an up-to-date file still has upgrade tasks", case=label, tasks=[t.__doc__ for t in tasks])
        before = open(path, "rb").read(); upgrade.file_upgrade(path, quiet=True)
        check(open(path, "rb").read() == before, "upgrading an up-to-date file changed it", case=label)
        # resumability: stop after each task in turn (the version is raised last), then run the whole upgrade again
        tasks, _, _ = upgrade.collect_tasks(resumed)
        check(tasks and "version" in (tasks[-1].__doc__ or ""), "the version update is not the last task", case=label,
              tasks=[t.__doc__ for t in tasks])
        for stop in range(len(tasks)):
            rp = os.path.join(d, "r%d_%d.nix" % (ci, stop)); shutil.copy(resumed, rp)
            tl, _, _ = upgrade.collect_tasks(rp)
            for t in tl[:stop]:
                t()
            with h5py.File(rp, "r") as h:
                ver = tuple(h.attrs["version"])
            check(ver < LIB, "the version was raised before every conversion step had completed", case=label, stopped_after=stop, version=ver)
            check(upgrade.file_upgrade(rp, quiet=True) is True, "the re-run after an interruption failed", case=label, stopped_after=stop)
            g2 = check_upgraded(rp, expected, unc, label + " resumed after %d task(s)" % stop)
            if got is not None and g2 is not None:
                r = diff(norm(got), norm(g2))
                check(r is None, "a resumed upgrade ends in a different state than an uninterrupted one", case=label, stopped_after=stop, where=r)
            os.remove(rp)
        # ... and inside the property task: interrupted between two property conversions
        rp = os.path.join(d, "ri%d.nix" % ci); shutil.copy(resumed, rp)
        proptask = [t for t in upgrade.collect_tasks(rp)[0] if "propert" in (t.__doc__ or "")]
        if proptask:
            # run the conversion on a copy of the task restricted to the first half of the properties
            cells = {v: c for v, c in zip(proptask[0].__code__.co_freevars, proptask[0].__closure__)}
            plist = cells["props"].cell_contents; full = list(plist); del plist[len(full) // 2:]
            proptask[0]()
            plist[:] = full
            check(upgrade.file_upgrade(rp, quiet=True) is True, "the re-run after an interruption inside the property task failed", case=label)
            g3 = check_upgraded(rp, expected, unc, label + " resumed inside the property task")
            if got is not None and g3 is not None:
                r = diff(norm(got), norm(g3))
                check(r is None, "a resumed upgrade (inside the property task) ends in a different state", case=label, where=r)
        os.remove(rp)
    import shutil
    shutil.rmtree(d, ignore_errors=True)
    return ("old-format files derived from a library-written file (7 properties of 4 value types in nested sections, a 2-D array, "
            "0 / 2 alias range dimensions) x 6 uncertainty patterns x {with, without file id} x {no, all} per-value extras "
            "(quick: 12 of the 48 combinations): content, extras, version last, idempotence, re-run after stopping at every task "
            "boundary and between two property conversions")


def b_c11(tier):
    """open modes and version gating on header variants written with raw h5py"""
    import h5py
    import shutil
    import nixio
    LIB = tuple(nixio.file.HDF_FF_VERSION)
    d = tempfile.mkdtemp(prefix="bnd_c11_")
    base = os.path.join(d, "base.nix")
    f = sample_file(nixio.File.open(base, nixio.FileMode.Overwrite)); ref = walk_file(f); f.close()
    bare = os.path.join(d, "bare.h5")
    with h5py.File(bare, "w") as h:
        h.attrs["format"] = "nix"; h.attrs["version"] = LIB; h.attrs["id"] = str(uuid.uuid4()); h.create_group("stuff").attrs["x"] = 1

    def content(p):
        with open(p, "rb") as fh:
            return fh.read()
    vers = sorted({(x, y, z) for x in (LIB[0] - 1, LIB[0], LIB[0] + 1) for y in (0, LIB[1] - 1, LIB[1], LIB[1] + 1)
                   for z in (0, LIB[2], LIB[2] + 1) if x >= 0 and y >= 0})
    if tier == "quick":
        vers = [v for v in vers if v[2] in (LIB[2], LIB[2] + 1) or v[:2] == LIB[:2]]
    ids = {"valid": str(uuid.uuid4()), "invalid": "not-an-id", "missing": None}
    k = 0
    for src in (base, bare):
        for ver in vers:
            for idk, idv in ids.items():
                for tag in ("nix", "hdf5"):
                    for mode in ("r", "a", "w"):
                        k += 1
                        p = os.path.join(d, "v.nix"); shutil.copy(src, p)
                        with h5py.File(p, "a") as h:
                            h.attrs["format"] = tag; h.attrs["version"] = ver
                            if idv is None:
                                if "id" in h.attrs:
                                    del h.attrs["id"]
                            else:
                                h.attrs["id"] = idv
                        before = content(p)
                        id_ok = idk == "valid" or ver < (1, 2, 0)
                        want = {"w": True,
                                "a": tag == "nix" and ver == LIB and id_ok,
                                "r": tag == "nix" and ver[0] == LIB[0] and ver[1] <= LIB[1] and id_ok}[mode]
                        case = dict(version=ver, id=idk, format=tag, mode=mode, file="library-written" if src == base else "foreign layout")
                        if src == bare and (want or mode == "w"):
                            continue           # the foreign layout only serves the refusals: a refused file is left untouched
                        err = None
                        try:
                            g = nixio.File.open(p, mode)
                        except Exception as e:
                            err = repr(e)
                        if err is not None:
                            import gc
                            gc.collect()          # (the half-constructed File object of the refused open still held the HDF5 handle)
                            check(not want, "a file that must be accepted was refused", error=err, **case)
                            check(content(p) == before, "a refused file was written to", **case)
                            continue
                        if not want:
                            check(False, "a file that must be refused was opened", **case); g.close(); continue
                        N[0] += 1
                        if mode == "w":
                            check(len(g.blocks) == 0 and len(g.sections) == 0 and tuple(g.version) == LIB and g.format == "nix"
                                  and nixio.util.util.is_uuid(g.id) and g.id != idv, "overwrite did not yield an empty file with a fresh header",
                                  blocks=len(g.blocks), got_version=g.version, **case)
                        elif src == base and ver == LIB:        # (the sample has the current layout: only then are its reads meaningful)
                            w = walk_file(g); w["version"] = ref["version"]; w["format"] = ref["format"]
                            r = diff(ref, w)
                            check(r is None, "existing content is not kept / not read the same", where=r, **case)
                        g.close()
                        if mode == "r":
                            check(content(p) == before, "a read-only session changed the bytes on disk", **case)
    # read-only: every mutating call fails, nothing changes
    p = os.path.join(d, "ro.nix"); shutil.copy(base, p); before = content(p)
    g = nixio.File.open(p, nixio.FileMode.ReadOnly); b = g.blocks[0]; a = b.data_arrays["ints"]; s = g.sections["sess"]
    muts = {
        "create_block": lambda: g.create_block("n", "t"), "create_section": lambda: g.create_section("n", "t"),
        "create_data_array": lambda: b.create_data_array("n", "t", data=[1]), "create_tag": lambda: b.create_tag("n", "t", [0.0]),
        "create_group": lambda: b.create_group("n", "t"), "create_source": lambda: b.create_source("n", "t"),
        "array.label": lambda: setattr(a, "label", "x"), "array.unit": lambda: setattr(a, "unit", "mV"),
        "array write": lambda: a.__setitem__(0, 5), "array append": lambda: a.append(np.array([1], dtype=a.dtype)),
        "append dimension": lambda: a.append_set_dimension(["q"]), "entity.definition": lambda: setattr(b, "definition", "x"),
        "delete array": lambda: b.data_arrays.__delitem__("ints"), "delete block": lambda: g.blocks.__delitem__(b.name),
        "create_property": lambda: s.create_property("n", [1]), "property values": lambda: setattr(s.props["n"], "values", [5]),
        "section item": lambda: s.__setitem__("zz", 1), "delete section": lambda: g.sections.__delitem__("other"),
        "group link": lambda: b.groups[0].data_arrays.append(a), "tag position": lambda: setattr(b.tags[0], "position", [9.0]),
        "metadata link": lambda: setattr(a, "metadata", s), "force_updated_at": lambda: b.force_updated_at(),
        "file force_updated_at": lambda: g.force_updated_at(), "copy block": lambda: g.create_block(name="cp", copy_from=b),
        "copy section": lambda: g.copy_section(s, name="cps"),
        "unlink from group": lambda: b.groups[0].data_arrays.__delitem__(b.groups[0].data_arrays[0]),
        "unlink reference": lambda: b.tags[0].references.__delitem__(b.tags[0].references[0]),
        "unlink source": lambda: b.data_arrays["same"].sources.__delitem__(b.data_arrays["same"].sources[0]),
        "clear block metadata": lambda: delattr(b, "metadata") if False else setattr(b, "metadata", None),
        "clear array metadata": lambda: setattr(b.data_arrays["same"], "metadata", None),
        "delete feature": lambda: b.tags[0].features.__delitem__(b.tags[0].features[0]),
        "clear extents": lambda: setattr(b.multi_tags[0], "extents", None),
        "clear tag units": lambda: setattr(b.tags[0], "units", None),
        "delete property": lambda: s.props.__delitem__("n"),
        "delete dimensions": lambda: a.delete_dimensions(),
    }
    for nm, m in muts.items():
        try:
            m(); check(False, "a mutating call succeeded on a file opened read-only", call=nm)
        except Exception:
            N[0] += 1
    w = walk_file(g); r = diff(ref, w)
    check(r is None, "reads in a read-only session differ from the writable session (after refused mutations)", where=r)
    g.close()
    check(content(p) == before, "the bytes on disk changed during a read-only session with refused mutations")
    # missing paths
    try:
        nixio.File.open(os.path.join(d, "nope.nix"), nixio.FileMode.ReadOnly); check(False, "a missing path was opened read-only")
    except Exception:
        check(not os.path.exists(os.path.join(d, "nope.nix")), "opening a missing path read-only created it")
    g = nixio.File.open(os.path.join(d, "new.nix"), nixio.FileMode.ReadWrite)
    check(len(g.blocks) == 0 and tuple(g.version) == LIB, "read-write on a missing path did not create an empty file"); g.close()
    shutil.rmtree(d, ignore_errors=True)
    return ("%d header variants: version grid around the library's x {valid, invalid, missing} id x {nix, other} format tag x 3 modes x "
            "{library-written file, foreign HDF5 layout}; 35 mutating calls on a read-only sample file; missing paths" % k)


def b_c10(tier):
    """typed value lists and dictionary-style section access against a pure-Python model"""
    import math
    import nixio
    SAMPLES = {
        "bool": [[True], [False, True, True]],
        "int": [[0], [2 ** 62, -1, 7], [-2 ** 63]],
        "float": [[0.5], [1e308, -0.0, float("nan")], [float("inf"), 2.5]],
        "text": [["a"], ["", "ünï – 語", "x" * 300], [""]],
    }

    def typ(v):
        return "bool" if isinstance(v, (bool, np.bool_)) else "int" if isinstance(v, (int, np.integer)) else \
            "float" if isinstance(v, (float, np.floating)) else "text" if isinstance(v, str) else "?"

    def same(got, want):
        got = list(got)
        if len(got) != len(want):
            return False
        for g, w in zip(got, want):
            if typ(g) != typ(w):
                return False
            if isinstance(w, float) and math.isnan(w):
                if not math.isnan(g):
                    return False
            elif g != w or (isinstance(w, float) and math.copysign(1, g) != math.copysign(1, w)):
                return False
        return True
    path = os.path.join(tempfile.mkdtemp(prefix="bnd_c10_"), "p.nix")
    f = nixio.File.open(path, nixio.FileMode.Overwrite); sec = f.create_section("s", "t")
    model = {}          # name -> (type, values) in creation order
    k = 0
    for t, lists in SAMPLES.items():
        for vals in lists:
            k += 1; nm = "%s%d" % (t, k)
            p = sec.create_property(nm, list(vals)); model[nm] = (t, list(vals))
            check(same(p.values, vals), "reading does not return the values stored at creation", name=nm, stored=vals, got=_safe(lambda: p.values))
            # refused: another type, mixed types - same length, shorter and longer than the stored list
            for t2, lists2 in SAMPLES.items():
                if t2 == t:
                    continue
                for cand in (lists2[0], lists2[1], [lists2[0][0]] * (len(vals) + 2), list(vals) + [lists2[0][0]], [lists2[0][0]] + list(vals)):
                    for how in ("assign", "extend", "item"):
                        try:
                            if how == "assign":
                                p.values = list(cand)
                            elif how == "extend":
                                p.extend_values(list(cand))
                            else:
                                sec[nm] = list(cand)
                            check(False, "values of another type / mixed types were accepted", name=nm, stored_type=t, candidate=cand, how=how)
                            p.values = list(vals)
                        except TypeError:
                            check(same(p.values, model[nm][1]), "a refused %s changed the stored values" % how, name=nm, stored=model[nm][1],
                                  candidate=cand, now=_safe(lambda: p.values))
                        except Exception as e:
                            check(False, "wrong-type values were refused with %s instead of a type error" % type(e).__name__, name=nm, candidate=cand,
                                  how=how)
            # accepted: extend and assign with the same type
            more = lists[0]
            p.extend_values(list(more)); model[nm] = (t, list(vals) + list(more))
            check(same(p.values, model[nm][1]), "appending did not add the new values after the existing ones", name=nm, want=model[nm][1],
                  got=_safe(lambda: p.values))
            new = lists[-1]
            p.values = list(new); model[nm] = (t, list(new))
            check(same(p.values, new), "assigning did not replace the values", name=nm, want=new, got=_safe(lambda: p.values))
            check(typ(p.values[0]) == t, "the value type changed", name=nm, type=t)
    # dictionary-style access
    sub = sec.create_section("child", "t"); sec.create_section("child2", "t")

    def consistent(where):
        names = [p.name for p in sec.props]
        check(names == list(model), "the property list differs from the model", where=where, names=names, model=list(model))
        check(len(sec.props) <= len(sec) <= len(sec.props) + len(sec.sections), "len(section) is inconsistent with its properties / subsections",
              where=where, len=len(sec))
        its = [getattr(x, "name", None) for x in sec]
        check(its == names + [s_.name for s_ in sec.sections], "iteration is not the properties followed by the subsections", where=where, got=its)
        check([k_ for k_, _ in sec.items()] == its, "items() and iteration disagree", where=where)
        for nm, (t, vals) in model.items():
            check(nm in sec, "membership denies an existing property", name=nm, where=where)
            got = sec[nm]
            want = vals[0] if len(vals) == 1 else vals
            ok = same([got], [want]) if len(vals) == 1 else same(got, want)
            check(ok, "dictionary-style lookup does not return the stored value(s)", name=nm, want=want, got=got, where=where)
        check("child" in sec and sec["child"].id == sub.id, "dictionary-style access does not reach a subsection", where=where)
        check("nope" not in sec, "membership admits a missing key", where=where)
        try:
            sec["nope"]; check(False, "lookup of a missing key returned something", where=where)
        except KeyError:
            N[0] += 1
    consistent("after the typed histories")
    for nm, val in (("d_int", 5), ("d_float", 2.5), ("d_text", "hello"), ("d_empty_text", ""), ("d_bool", False), ("d_list", [1, 2, 3]),
                    ("d_texts", ["a", ""]), ("d_zero", 0), ("d_uni", "ü")):
        try:
            sec[nm] = val
        except Exception as e:
            check(False, "a legal dictionary-style assignment of a new key was refused", key=nm, value=val, error=repr(e)); continue
        model[nm] = (typ(val[0] if isinstance(val, list) else val), list(val) if isinstance(val, list) else [val])
    for nm, val in (("m1", [1, "x"]), ("m2", [1.5, 2]), ("m3", [True, 1]), ("m4", ["a", 1]), ("m5", [1, None])):
        for how in ("create_property", "item"):
            try:
                if how == "item":
                    sec[nm] = val
                else:
                    sec.create_property(nm, val)
                check(False, "a mixed-type list was accepted for a new property", values=val, how=how)
                del sec.props[nm]
            except (TypeError, ValueError):
                check(nm not in sec and nm not in [p.name for p in sec.props], "a refused creation left a property behind", key=nm, values=val,
                      how=how)
    consistent("after dictionary-style creation")
    for nm, val in (("d_int", 9), ("d_text", ""), ("d_empty_text", "now"), ("d_list", [4]), ("d_texts", ["", ""]), ("d_bool", True), ("d_float", -0.0)):
        try:
            sec[nm] = val
        except Exception as e:
            check(False, "a legal dictionary-style assignment to an existing key was refused", key=nm, value=val, error=repr(e)); continue
        if nm in model:
            model[nm] = (model[nm][0], list(val) if isinstance(val, list) else [val])
    consistent("after dictionary-style assignment")
    for nm in ("d_int", list(model)[0], "d_texts"):
        if nm not in model:
            continue
        del sec[nm]; del model[nm]
        check(nm not in sec, "a deleted key is still a member", key=nm)
    consistent("after dictionary-style deletion")
    if "d_list" not in model:
        sec["d_list"] = [1]
    sec.props["d_list"].values = []; model["d_list"] = ("int", [])
    check(tuple(sec.props["d_list"].values) == (), "clearing did not leave an empty value list")
    sec.props["d_list"].values = [8, 9]; model["d_list"] = ("int", [8, 9])
    consistent("after clear and refill")
    f.close()
    f = nixio.File.open(path, nixio.FileMode.ReadOnly); sec = f.sections["s"]; sub = sec.sections["child"]
    consistent("after reopening")
    f.close()
    return ("10 value lists of the 4 types (extremes, NaN, -0.0, empty / non-ASCII / long text) x 3 other types x 5 wrong-type / mixed candidates "
            "(same, shorter, longer length) x {assign, extend, dictionary-style}; accepted extend / assign; 9 + 7 dictionary-style "
            "assignments (incl. the empty string), deletions, membership, iteration, length; all again after reopening")


def b_c01(tier):
    """array data: exact round trip, NumPy index semantics on arrays and views, calibration on every read path"""
    import h5py
    import nixio
    path = os.path.join(tempfile.mkdtemp(prefix="bnd_c01_"), "a.nix")
    f = nixio.File.open(path, nixio.FileMode.Overwrite); b = f.create_block("b", "t")
    shapes = [(0,), (1,), (5,), (1, 1), (2, 3), (1, 1, 1), (2, 1, 3), (3, 4, 2)]
    dtypes = ["<f8", "<f4", "<i8", "<i1", "<u2", "?"]
    if tier == "quick":
        dtypes = ["<f8", "<f4", "<i8", "?"]
    rng = np.random.RandomState(7)
    made = {}

    def gen(shape, dt):
        n = int(np.prod(shape))
        if dt == "?":
            v = rng.randint(0, 2, n).astype(bool)
        elif dt.startswith("<f"):
            v = (rng.randn(n) * 100).astype(dt)
            if n > 2:
                v[0], v[1] = np.finfo(dt).max, -0.0
        else:
            info = np.iinfo(dt); v = rng.randint(max(info.min, -1000), min(info.max, 1000), n).astype(dt)
            if n > 2:
                v[0], v[1] = info.min, info.max
        return v.reshape(shape)

    def cmp(got, want, what, **kw):
        got = np.asarray(got)
        if want.ndim == 0:
            want = want.reshape((1,))          # (documented: a single value is returned as a length-1 array)
        ok = got.shape == want.shape and got.dtype == want.dtype and np.array_equal(got, want, equal_nan=got.dtype.kind == "f") and \
            (got.dtype.kind != "f" or np.array_equal(np.signbit(got), np.signbit(want)))
        check(ok, what, got_shape=list(got.shape), want_shape=list(want.shape), got_dtype=str(got.dtype), want_dtype=str(want.dtype),
              got=got.tolist() if got.size < 8 else "...", want=want.tolist() if want.size < 8 else "...", **kw)

    def indices(shape):
        r = len(shape); out = [(), Ellipsis, slice(None)]
        if r >= 1 and shape[0] > 0:
            n0 = shape[0]
            out += [0, -1, n0 - 1, slice(0, 1), slice(1, None), slice(None, -1), slice(None, None, 2), slice(n0, None), slice(-2, None), slice(0, 0)]
            if r == 1:
                out += [(Ellipsis, 0), (0, Ellipsis), (Ellipsis, slice(1, None))]          # an ellipsis standing for zero dimensions
        if r >= 2:
            n1 = shape[1]
            out += [(0, 0), (slice(None), 0), (0, slice(None)), (Ellipsis, 0), (slice(0, 1), slice(0, 1)), (-1, slice(None, None, 2)),
                    (slice(None), slice(n1 - 1, n1)), (Ellipsis, slice(0, 1)), (0, Ellipsis)]
            if r == 2:
                out += [(0, Ellipsis, 0), (Ellipsis, 0, 0), (slice(None), Ellipsis, 0)]
        if r >= 3:
            out += [(0, 0, 0), (slice(0, 1), slice(0, 1), slice(0, 1)), (0, Ellipsis, 0), (Ellipsis, 0, slice(None)), (slice(None), 0, slice(1, None))]
        return out
    for si, shape in enumerate(shapes):
        for dt in dtypes:
            data = gen(shape, dt); nm = "a%d_%s" % (si, dt.strip("<?") or "b")
            da = b.create_data_array(nm, "t", data=data); made[nm] = data.copy()
            cmp(da[:] if len(shape) else da[()], data, "the whole array does not read back as written", shape=list(shape), dtype=dt)
            check(tuple(da.shape) == shape and da.dtype == data.dtype, "shape / element type are not those of the data written", shape=list(shape),
                  dtype=dt, got_shape=list(da.shape), got_dtype=str(da.dtype))
            if 0 in shape:
                continue
            for ix in indices(shape):
                try:
                    want = data[ix]
                except IndexError:
                    continue
                try:
                    got = da[ix]
                except Exception as e:
                    check(False, "an index expression NumPy accepts was refused by the array", shape=list(shape), index=ix, error=repr(e)); continue
                cmp(got, want, "an index expression on the array does not mean what it means in NumPy", shape=list(shape), dtype=dt, index=ix)
    # views (get_slice in index mode) and writes through arrays and views
    wk = [10]
    for nm in [n for n in made if made[n].ndim in (1, 2, 3) and made[n].size > 3 and n.endswith(("f8", "i8"))]:
        data = made[nm]; da = b.data_arrays[nm]; shape = data.shape
        pos = [1 if s > 2 else 0 for s in shape]; ext = [max(1, s - 2) if s > 2 else s for s in shape]
        win = tuple(slice(p, p + e) for p, e in zip(pos, ext))
        v = da.get_slice(pos, ext); sub = data[win]
        cmp(v[:], sub, "a view does not show the window of the array", array=nm, window=[pos, ext])
        cmp(np.array(v), sub, "np.array(view) differs from the window", array=nm)
        for ix in indices(sub.shape):
            try:
                want = sub[ix]
            except IndexError:
                continue
            try:
                got = v[ix]
            except Exception as e:
                check(False, "an index expression NumPy accepts was refused by the view", array=nm, window=[pos, ext], index=ix, error=repr(e)); continue
            cmp(got, want, "an index expression on a view does not mean what it means in NumPy", array=nm, window=[pos, ext], index=ix)
        for ix in indices(sub.shape)[:12]:
            try:
                target = sub[ix]
            except IndexError:
                continue
            if np.asarray(target).size == 0:
                continue
            wk[0] += 1
            newv = (np.asarray(target) * 0 + wk[0]).astype(data.dtype)
            v[ix] = newv if np.asarray(target).ndim else newv.item()
            sub[ix] = newv                      # sub is a NumPy view of data: data is the model of the stored array
            cmp(da[:], data, "a write through a view did not change exactly the addressed elements", array=nm, window=[pos, ext], index=ix)
        for ix in indices(shape)[:14]:
            try:
                target = data[ix]
            except IndexError:
                continue
            if np.asarray(target).size == 0:
                continue
            wk[0] += 1
            newv = (np.asarray(target) * 0 + wk[0]).astype(data.dtype)
            da[ix] = newv if np.asarray(target).ndim else newv.item()
            data[ix] = newv
            cmp(da[:], data, "a write through the array did not change exactly the addressed elements", array=nm, index=ix)
        for bad in ((slice(None),) * (len(shape) + 1), len(data) + 5 if len(shape) == 1 else (0,) * (len(shape) + 1)):
            try:
                da[bad]; check(False, "an index NumPy refuses was accepted by the array", array=nm, index=bad)
            except (IndexError, ValueError, TypeError):
                N[0] += 1
            try:
                v[bad]; check(False, "an index NumPy refuses was accepted by the view", array=nm, index=bad)
            except (IndexError, ValueError, TypeError):
                N[0] += 1
    # growth by append along every axis
    for nm in [n for n in made if made[n].ndim == 2 and n.endswith(("f8", "i1", "i8"))][:4]:
        data = made[nm]; da = b.data_arrays[nm]
        for axis in range(data.ndim):
            blk = np.take(data, [0], axis=axis) * 0 + 1
            da.append(blk, axis=axis); data = np.concatenate([data, blk], axis=axis); made[nm] = data
            cmp(da[:], data, "append did not add exactly the new block after the existing data", array=nm, axis=axis)
        # two handles on the same array: nothing about the extent may be remembered in a handle
        h1, h2 = b.data_arrays[nm], b.data_arrays[nm]
        check(tuple(h1.shape) == tuple(h2.shape) == data.shape, "two handles disagree on the shape", array=nm)
        blk = np.take(data, [0], axis=0) * 0 + 2
        h1.append(blk, axis=0); data = np.concatenate([data, blk], axis=0)
        check(tuple(h2.shape) == data.shape and len(h2) == data.shape[0], "a second handle does not see the growth made through the first",
              array=nm, seen=list(h2.shape), real=list(data.shape))
        h2.append(blk, axis=0); data = np.concatenate([data, blk], axis=0); made[nm] = data
        cmp(h1[:], data, "appends through two handles did not both land after the existing data", array=nm)
        for wrong in (np.ones((data.shape[0] + 1, data.shape[1] + 1), dtype=data.dtype),):
            try:
                da.append(wrong, axis=0); check(False, "an append with a mismatching shape was accepted", array=nm)
            except Exception:
                cmp(da[:], data, "a refused append changed the array", array=nm)
    # calibration: applied on every read path, never to the stored values
    cal = {}
    for nm in [n for n in made if made[n].size > 1 and not n.endswith("b")][:10]:
        data = made[nm]; da = b.data_arrays[nm]
        for coeff, origin in (((1.0, 2.0), 0.0), ((0.5, 0.0, 3.0), 1.5), ((), 2.0), ((0.0, 0.0), 0.0), ((2.0,), 0.0)):
            da.polynom_coefficients = coeff; da.expansion_origin = origin
            x = data.astype("<f8") - origin
            want = sum(c * x ** k for k, c in enumerate(coeff)) if len(coeff) else x
            if not len(coeff) and not origin:
                want = data
            got = da[:]
            okv = got.shape == want.shape and np.allclose(got, want, rtol=1e-12, atol=0, equal_nan=True) and got.dtype == np.dtype("<f8")
            check(okv, "a read of a calibrated array is not the polynomial of (stored value - origin) in double precision", array=nm,
                  coefficients=coeff, origin=origin, got_dtype=str(got.dtype), first=got.ravel()[:2].tolist(), want_first=want.ravel()[:2].tolist())
            if data.ndim >= 1 and data.shape[0] > 1 and okv:
                part = da[1:]
                check(part.shape == want[1:].shape and np.allclose(part, want[1:], rtol=1e-12, atol=0, equal_nan=True), "a slice read is calibrated differently from a whole read",
                      array=nm, coefficients=coeff, origin=origin)
                v = da.get_slice([0] * data.ndim, list(data.shape))
                for how, r in (("view[:]", lambda: v[:]), ("np.array(view)", lambda: np.array(v)), ("np.asarray(view)", lambda: np.asarray(v))):
                    got = r()
                    check(got.shape == want.shape and np.allclose(got, want, rtol=1e-12, atol=0, equal_nan=True),
                          "a read through a view is not calibrated like a read of the array", array=nm, how=how, coefficients=coeff, origin=origin)
            cal[nm] = (coeff, origin)
    f.close()
    with h5py.File(path, "r") as h:
        for nm, data in made.items():
            raw = h["data/b/data_arrays/%s/data" % nm][()]
            ok = raw.shape == data.shape and raw.dtype == data.dtype and np.array_equal(raw, data, equal_nan=raw.dtype.kind == "f")
            check(ok, "the stored values are not exactly the values written (calibration / reads must never touch them)", array=nm,
                  stored_dtype=str(raw.dtype), dtype=str(data.dtype))
    f = nixio.File.open(path, nixio.FileMode.ReadOnly); b = f.blocks["b"]
    for nm, data in made.items():
        if nm in cal or 0 in data.shape:
            continue
        cmp(b.data_arrays[nm][:], data, "the array does not read back as written after reopening", array=nm)
    f.close()
    return ("%d arrays: %d shapes (rank 1-3, extents 0 and 1 included) x %d element types with extremes; up to 27 index expressions "
            "per array and per view window (ints, negatives, stepped / empty slices, ellipsis, tuples) for reads, 12-14 for writes; appends "
            "along every axis; 5 calibration settings x {whole, slice, view, np.array(view)} reads; raw stored values via h5py; reopen"
            % (len(made), len(shapes), len(dtypes)))


C17_CHILD = r'''
import json, os, sys, time
sys.path.insert(0, %(here)r)
import numpy as np
import bounded as B
import nixio
path, side, stop_at, how, compr = sys.argv[1], sys.argv[2], int(sys.argv[3]), sys.argv[4], sys.argv[5]
f = nixio.File.open(path, nixio.FileMode.Overwrite, compression=getattr(nixio.Compression, compr))
steps = []
def step(fn):
    steps.append(fn)
blk = {}
step(lambda: blk.setdefault("b", f.create_block("grow", "t")))
step(lambda: blk.setdefault("a", blk["b"].create_data_array("a", "t", data=np.arange(12.0).reshape(3, 4))))
step(lambda: blk["a"].append(np.ones((2, 4)), axis=0))
step(lambda: B.sample_file(f))
step(lambda: [blk["a"].append(np.full((1, 4), float(i)), axis=0) for i in range(20)])
step(lambda: blk["b"].create_data_array("big", "t", data=np.arange(50000, dtype="<i4")))
step(lambda: (setattr(blk["a"], "label", "grown"), blk["a"].append_sampled_dimension(0.1), f.sections["sess"].create_property("late", ["x"])))
step(lambda: f.blocks.__delitem__("blk1"))
for k, s in enumerate(steps):
    s()
    if k == stop_at:
        break
expected = B.walk_file(f)
with open(side, "w") as fh:
    json.dump(expected, fh)
if how == "flush":
    f.flush()
else:
    f.close()
with open(side + ".ready", "w") as fh:
    fh.write("ready")
time.sleep(600)
'''


def b_c17(tier):
    """flush() / close() durability: the writer is killed with SIGKILL right after the call returned"""
    import signal
    import subprocess
    import time
    import shutil
    import nixio
    d = tempfile.mkdtemp(prefix="bnd_c17_")
    script = os.path.join(d, "child.py")
    with open(script, "w") as fh:
        fh.write(C17_CHILD % dict(here=os.path.dirname(os.path.abspath(__file__))))
    cases = [(k, how, compr) for k in range(8) for how in ("flush", "close") for compr in ("No", "DeflateNormal")]
    if tier == "quick":
        cases = [c for c in cases if (c[0] + (c[1] == "close") + (c[2] == "No")) % 2 == 0 or c[0] in (4, 7)]
    procs = []
    for ci, (k, how, compr) in enumerate(cases):
        path = os.path.join(d, "f%d.nix" % ci); side = os.path.join(d, "s%d.json" % ci)
        p = subprocess.Popen([sys.executable, script, path, side, str(k), how, compr], stdout=subprocess.DEVNULL, stderr=subprocess.PIPE,
                             env=dict(os.environ))
        procs.append((p, path, side, k, how, compr))
    for p, path, side, k, how, compr in procs:
        t0 = time.time()
        while not os.path.exists(side + ".ready") and p.poll() is None and time.time() - t0 < 120:
            time.sleep(0.02)
        case = dict(history_steps=k + 1, call=how, compression=compr)
        if not os.path.exists(side + ".ready"):
            err = p.stderr.read().decode()[-300:] if p.poll() is not None else "timeout"
            p.kill(); check(False, "the writer did not reach the %s point" % how, error=err, **case); continue
        os.kill(p.pid, signal.SIGKILL); p.wait()
        expected = json.load(open(side))
        for mode in (nixio.FileMode.ReadOnly, nixio.FileMode.ReadWrite):
            cp = path + ".copy"; shutil.copy(path, cp)
            try:
                g = nixio.File.open(cp, mode)
            except Exception as e:
                check(False, "the file cannot be opened after the writer was killed", mode=mode, error=repr(e)[:200], **case); continue
            r = diff(expected, walk_file(g))
            check(r is None, "the file does not show the state at the moment of the %s" % how, mode=mode, where=r, **case)
            g.close(); os.remove(cp)
    shutil.rmtree(d, ignore_errors=True)
    return ("%d writer processes: histories of 1..8 steps (entities of every kind, an array grown by 21 appends, a 50000-element array, "
            "late attribute / dimension / property changes, a delete) x {flush, close} x {uncompressed, deflate}; SIGKILL immediately "
            "after the call returned; reopened read-only and read-write and compared by a canonical walk" % len(cases))


def b_c19(tier):
    """timestamps under a controlled clock: creation fixed, update follows attribute changes of exactly that entity"""
    import nixio
    from nixio.util import util as uu
    CLK = [1600000000]

    def fake_now():
        return CLK[0]
    saved = (nixio.util.now_int, uu.now_int)
    nixio.util.now_int = fake_now; uu.now_int = fake_now

    def stamps(f):
        out = {("file",): (f.created_at, f.updated_at)}

        def sec(s, path):
            out[path + (s.name,)] = (s.created_at, s.updated_at)
            for p in s.props:
                out[path + (s.name, "prop:" + p.name)] = (p.created_at, p.updated_at) if hasattr(p, "created_at") else (None, None)
            for c in s.sections:
                sec(c, path + (s.name,))

        def src(s, path):
            out[path + (s.name,)] = (s.created_at, s.updated_at)
            for c in s.sources:
                src(c, path + (s.name,))
        for s in f.sections:
            sec(s, ("md",))
        for b in f.blocks:
            out[("b", b.name)] = (b.created_at, b.updated_at)
            for a in b.data_arrays:
                out[("b", b.name, "a", a.name)] = (a.created_at, a.updated_at)
            for kind, cont in (("t", b.tags), ("m", b.multi_tags)):
                for t in cont:
                    out[("b", b.name, kind, t.name)] = (t.created_at, t.updated_at)
                    for i, ft in enumerate(t.features):
                        out[("b", b.name, kind, t.name, "f", i)] = (ft.created_at, ft.updated_at)
            for g in b.groups:
                out[("b", b.name, "g", g.name)] = (g.created_at, g.updated_at)
            for s in b.sources:
                src(s, ("b", b.name, "s"))
        return out
    try:
        for auto_at_open in (True, False):
            for toggled in (False, True):
                path = os.path.join(tempfile.mkdtemp(prefix="bnd_c19_"), "t.nix")
                f = nixio.File.open(path, nixio.FileMode.Overwrite, auto_update_timestamps=auto_at_open if not toggled else not auto_at_open)
                sample_file(f); tk = f.blocks[0].create_data_array("ticks1d", "t", data=np.array([0.5, 1.5, 3.0]))
                if toggled:
                    f.auto_update_timestamps = auto_at_open
                auto = auto_at_open
                b = f.blocks[0]; a = b.data_arrays["same"]; a2 = b.data_arrays["ints"]; t = b.tags[0]; m = b.multi_tags[0]; g = b.groups[0]
                so = b.sources[0]; s = f.sections["sess"]
                ops = [
                    ("block.type", ("b", b.name), lambda: setattr(b, "type", "nt")), ("block.definition", ("b", b.name), lambda: setattr(b, "definition", "d")),
                    ("array.type", ("b", b.name, "a", a.name), lambda: setattr(a, "type", "nt")),
                    ("array.definition", ("b", b.name, "a", a.name), lambda: setattr(a, "definition", "dd")),
                    ("array.definition=None", ("b", b.name, "a", a.name), lambda: setattr(a, "definition", None)),
                    ("array.label", ("b", b.name, "a", a.name), lambda: setattr(a, "label", "lbl")),
                    ("array.unit", ("b", b.name, "a", a.name), lambda: setattr(a, "unit", "mV")),
                    ("array.unit=None", ("b", b.name, "a", a.name), lambda: setattr(a, "unit", None)),
                    ("array.polynom_coefficients", ("b", b.name, "a", a.name), lambda: setattr(a, "polynom_coefficients", (1.0, 2.0))),
                    ("array.polynom_coefficients=()", ("b", b.name, "a", a.name), lambda: setattr(a, "polynom_coefficients", ())),
                    ("array.expansion_origin", ("b", b.name, "a", a.name), lambda: setattr(a, "expansion_origin", 1.5)),
                    ("array.append_set_dimension", ("b", b.name, "a", a2.name), lambda: a2.append_set_dimension(["x"])),
                    ("array.append_sampled_dimension", ("b", b.name, "a", a2.name), lambda: a2.append_sampled_dimension(0.5)),
                    ("array.append_range_dimension", ("b", b.name, "a", a2.name), lambda: a2.append_range_dimension([1.0, 2.0])),
                    ("array.append_range_dimension()", ("b", b.name, "a", a2.name), lambda: a2.append_range_dimension()),
                    ("array.append_range_dimension_using_self", ("b", b.name, "a", "ticks1d"), lambda: tk.append_range_dimension_using_self()),
                    ("tag.position", ("b", b.name, "t", t.name), lambda: setattr(t, "position", [0.5])),
                    ("tag.extent", ("b", b.name, "t", t.name), lambda: setattr(t, "extent", [1.0])),
                    ("tag.units", ("b", b.name, "t", t.name), lambda: setattr(t, "units", ["ms"])),
                    ("tag.units=[]", ("b", b.name, "t", t.name), lambda: setattr(t, "units", [])),
                    ("tag.units=None", ("b", b.name, "t", t.name), lambda: setattr(t, "units", None)),
                    ("tag.type", ("b", b.name, "t", t.name), lambda: setattr(t, "type", "nt")),
                    ("mtag.units", ("b", b.name, "m", m.name), lambda: setattr(m, "units", ["s"])),
                    ("mtag.units=None", ("b", b.name, "m", m.name), lambda: setattr(m, "units", None)),
                    ("mtag.positions", ("b", b.name, "m", m.name), lambda: setattr(m, "positions", b.data_arrays["same"])),
                    ("mtag.extents", ("b", b.name, "m", m.name), lambda: setattr(m, "extents", b.data_arrays["same"])),
                    ("mtag.extents=None", ("b", b.name, "m", m.name), lambda: setattr(m, "extents", None)),
                    ("mtag.definition", ("b", b.name, "m", m.name), lambda: setattr(m, "definition", "x")),
                    ("group.type", ("b", b.name, "g", g.name), lambda: setattr(g, "type", "nt")),
                    ("source.definition", ("b", b.name, "s", so.name), lambda: setattr(so, "definition", "x")),
                    ("section.reference", ("md", s.name), lambda: setattr(s, "reference", "r2")),
                    ("section.repository", ("md", s.name), lambda: setattr(s, "repository", "rp")),
                    ("section.type", ("md", s.name), lambda: setattr(s, "type", "nt")),
                    ("section.definition", ("md", s.name, "sub"), lambda: setattr(s.sections["sub"], "definition", "x")),
                ]
                tf = [(kind, tg) for kind, cont in (("t", b.tags), ("m", b.multi_tags)) for tg in cont if len(tg.features)]
                if tf:
                    kind, tg = tf[0]
                    ops.append(("feature.link_type", ("b", b.name, kind, tg.name, "f", 0), lambda: setattr(tg.features[0], "link_type", nixio.LinkType.Untagged)))
                    ops.append(("feature.data", ("b", b.name, kind, tg.name, "f", 0), lambda: setattr(tg.features[0], "data", b.data_arrays["ints"])))
                for nm, key, op in ops:
                    before = stamps(f); CLK[0] += 1000
                    try:
                        op()
                    except Exception as e:
                        check(False, "a legal attribute change was refused", op=nm, error=repr(e)[:200]); continue
                    after = stamps(f)
                    for k_ in before:
                        if k_ not in after:
                            continue
                        c0, u0 = before[k_]; c1, u1 = after[k_]
                        check(c0 == c1, "a creation time changed as a side effect", op=nm, entity=k_, auto=auto, toggled=toggled)
                        if k_ == key and auto:
                            check(u1 == CLK[0], "the update time of the changed entity was not set to the current time", op=nm, entity=k_,
                                  toggled=toggled, before=u0, after=u1, clock=CLK[0])
                        else:
                            check(u1 == u0, "an update time changed although " + ("automatic timestamps are off" if not auto else
                                                                                    "another entity was changed"), op=nm, entity=k_, auto=auto,
                                  toggled=toggled, before=u0, after=u1)
                # forced whole seconds, read back now and after reopening
                secs = [0, 1, 86399, 951782400, 1230768000, 1356998399, 1609459199, 1609459200, 2 ** 31 - 1, 2 ** 31, 4102444799]
                want = {}
                ents = [("file", f), ("block", b), ("array", a), ("tag", t), ("mtag", m), ("group", g), ("source", so), ("section", s)]
                for i, (nm, e) in enumerate(ents):
                    for j, sec_ in enumerate(secs):
                        e.force_created_at(sec_); e.force_updated_at(secs[-1 - j])
                        check(e.created_at == sec_ and e.updated_at == secs[-1 - j], "a forced timestamp does not read back as that second", entity=nm,
                              created=sec_, updated=secs[-1 - j], got=[e.created_at, e.updated_at])
                    e.force_created_at(secs[i % len(secs)]); e.force_updated_at(secs[(i + 3) % len(secs)])
                    want[nm] = (secs[i % len(secs)], secs[(i + 3) % len(secs)])
                names = dict(block=b.name, array=a.name, tag=t.name, mtag=m.name, group=g.name, source=so.name, section=s.name)
                f.close()
                CLK[0] += 5000
                f = nixio.File.open(path, nixio.FileMode.ReadOnly); b = f.blocks[names["block"]]
                objs = dict(file=f, block=b, array=b.data_arrays[names["array"]], tag=b.tags[names["tag"]], mtag=b.multi_tags[names["mtag"]],
                            group=b.groups[names["group"]], source=b.sources[names["source"]], section=f.sections[names["section"]])
                for nm, (c_, u_) in want.items():
                    check((objs[nm].created_at, objs[nm].updated_at) == (c_, u_), "forced timestamps are not the same after reopening", entity=nm,
                          want=[c_, u_], got=[objs[nm].created_at, objs[nm].updated_at])
                f.close()
    finally:
        nixio.util.now_int, uu.now_int = saved
    return ("2 auto-update settings x {set at open, toggled later} x 36 attribute changes on every entity kind under a stepped fake clock: "
            "every timestamp of the file before / after each change; 11 forced whole seconds (1970 .. 2099, year boundaries where the ISO week-year differs, 2^31 boundary) x 8 entity "
            "kinds incl. the file, read back and after reopening")


def b_c14(tier):
    """validation: nothing on a consistent file; every injected catalogue inconsistency is reported for exactly its object"""
    import nixio
    from nixio.validator import ValidationError as VE

    def build():
        f = newfile("v.nix"); b = f.create_block("blk", "t")
        a = b.create_data_array("sig", "t", data=np.arange(12.0).reshape(3, 4)); a.unit = "mV"
        a.append_sampled_dimension(0.5, unit="ms"); a.append_range_dimension(ticks=[1.0, 2.0, 4.0, 8.0], unit="s")
        c = b.create_data_array("cat", "t", data=np.arange(6.0).reshape(2, 3)); c.append_set_dimension(["x", "y"]); c.append_sampled_dimension(1.0, unit="s")
        o = b.create_data_array("other", "t", data=np.arange(5.0)); o.append_range_dimension(ticks=[0.0, 1.0, 2.0, 3.0, 4.0], unit="ms")
        fr = b.create_data_array("free", "t", data=np.arange(5.0)); fr.append_range_dimension(ticks=[0.0, 1.0, 2.0, 3.0, 4.0], unit="ms")
        pos = b.create_data_array("pos", "t", data=np.array([[0.5, 1.0], [1.0, 2.0]])); pos.append_set_dimension(); pos.append_set_dimension()
        ext = b.create_data_array("ext", "t", data=np.array([[0.5, 1.0], [0.5, 2.0]])); ext.append_set_dimension(); ext.append_set_dimension()
        t = b.create_tag("tag", "t", [0.5, 1.0]); t.extent = [1.0, 3.0]; t.units = ["us", "ms"]; t.references.append(a)
        t.create_feature(o, nixio.LinkType.Untagged)
        m = b.create_multi_tag("mtag", "t", pos); m.extents = ext; m.units = ["s", "ks"]; m.references.append(a)
        t2 = b.create_tag("tag1d", "t", [1.5]); t2.units = ["s"]; t2.references.append(o)
        g = b.create_group("grp", "t"); g.data_arrays.append(a); s = b.create_source("src", "t"); s.create_source("child", "t")
        sec = f.create_section("sess", "t"); sec.create_property("n", [1]).unit = "mV"; sec.create_section("sub", "t")
        return f

    def report(f):
        res = f.validate()
        out = {}
        for obj, errs in res["errors"].items():
            key = "%s:%s" % (type(obj).__name__, _safe(lambda: obj.name) if not isinstance(obj, nixio.File) else "file")
            out[key] = sorted(errs)
        return out

    def raw(e):
        return e._h5group.group

    def dimgrp(a, i):
        return raw(a)["dimensions"][str(i)]

    def set_ticks(a, i, ticks):
        g = dimgrp(a, i)
        if "ticks" in g:
            del g["ticks"]
        if ticks is not None:
            g.create_dataset("ticks", data=np.array(ticks, dtype=float))

    def retick(a, i, n):
        a.dimensions[i - 1].ticks = [float(x) for x in range(n)]
    INJ = {
        # name: (object key, injection, expected errors on that object)
        "surplus descriptor": ("DataArray:free", lambda f, b: b.data_arrays["free"].append_set_dimension(), [VE.DimensionMismatch]),
        "missing descriptor": ("DataArray:cat", lambda f, b: (b.data_arrays["cat"].delete_dimensions(), b.data_arrays["cat"].append_set_dimension(["x", "y"])),
                               [VE.DimensionMismatch]),
        "tick count": ("DataArray:free", lambda f, b: retick(b.data_arrays["free"], 1, 4), [VE.RangeDimTicksMismatch.format(1)]),
        "label count": ("DataArray:cat", lambda f, b: setattr(b.data_arrays["cat"].dimensions[0], "labels", ["x", "y", "z"]),
                        [VE.SetDimLabelsMismatch.format(1)]),
        "unsorted ticks": ("DataArray:sig", lambda f, b: set_ticks(b.data_arrays["sig"], 2, [1.0, 2.0, 8.0, 4.0]), [VE.UnsortedTicks.format(2)]),
        "unsorted last pair": ("DataArray:free", lambda f, b: set_ticks(b.data_arrays["free"], 1, [0.0, 1.0, 2.0, 4.0, 3.0]), [VE.UnsortedTicks.format(1)]),
        "equal ticks": ("DataArray:free", lambda f, b: set_ticks(b.data_arrays["free"], 1, [0.0, 1.0, 1.0, 3.0, 4.0]), [VE.UnsortedTicks.format(1)]),
        "missing ticks": ("DataArray:free", lambda f, b: set_ticks(b.data_arrays["free"], 1, None), [VE.NoTicks.format(1)]),          # (+ optionally the count mismatch: 0 ticks)
        "non-SI range unit": ("DataArray:free", lambda f, b: dimgrp(b.data_arrays["free"], 1).attrs.__setitem__("unit", "parsec"),
                              [VE.InvalidDimensionUnit.format(1)]),
        "compound sampled unit": ("DataArray:cat", lambda f, b: dimgrp(b.data_arrays["cat"], 2).attrs.__setitem__("unit", "mV/s"),
                                  [VE.InvalidDimensionUnit.format(2)]),
        "missing interval": ("DataArray:cat", lambda f, b: dimgrp(b.data_arrays["cat"], 2).attrs.__delitem__("sampling_interval"),
                             [VE.NoSamplingInterval.format(2)]),
        "negative interval": ("DataArray:sig", lambda f, b: dimgrp(b.data_arrays["sig"], 1).attrs.__setitem__("sampling_interval", -0.5),
                              [VE.InvalidSamplingInterval.format(1)]),
        "position length": ("Tag:tag1d", lambda f, b: setattr(b.tags["tag1d"], "position", [1.0, 2.0]), [VE.PositionDimensionMismatch]),
        "extent length": ("Tag:tag", lambda f, b: setattr(b.tags["tag"], "extent", [1.0]), [VE.PositionExtentMismatch, VE.ExtentDimensionMismatch]),
        "unit count": ("Tag:tag", lambda f, b: setattr(b.tags["tag"], "units", ["ms"]), [VE.ReferenceUnitsMismatch]),
        "unconvertible unit": ("Tag:tag", lambda f, b: setattr(b.tags["tag"], "units", ["ms", "mV"]), [VE.ReferenceUnitsIncompatible]),
        "unit vs unitless dimension": ("Tag:tag1d", lambda f, b: dimgrp(b.data_arrays["other"], 1).attrs.__delitem__("unit"),
                                       [VE.ReferenceUnitsIncompatible]),
        "s vs S": ("Tag:tag1d", lambda f, b: setattr(b.tags["tag1d"], "units", ["mS"]), [VE.ReferenceUnitsIncompatible]),
        "non-SI tag unit": ("Tag:tag1d", lambda f, b: raw(b.tags["tag1d"])["units"].__setitem__(0, "parsec"),
                            [VE.ReferenceUnitsIncompatible, VE.InvalidUnit]),
        "mtag unit count": ("MultiTag:mtag", lambda f, b: setattr(b.multi_tags["mtag"], "units", ["s"]), [VE.ReferenceUnitsMismatch]),
        "mtag unconvertible": ("MultiTag:mtag", lambda f, b: setattr(b.multi_tags["mtag"], "units", ["s", "V"]), [VE.ReferenceUnitsIncompatible]),
        "mtag extents shape": ("MultiTag:mtag", lambda f, b: setattr(b.multi_tags["mtag"], "extents", b.data_arrays["other"]),
                               [VE.PositionsExtentsMismatch, VE.ExtentsDimensionMismatch]),
        "mtag positions width": ("MultiTag:mtag", lambda f, b: (setattr(b.multi_tags["mtag"], "extents", None),
                                                                 setattr(b.multi_tags["mtag"], "positions", b.data_arrays["other"])),
                                 [VE.PositionsDimensionMismatch]),
        "one of two references has another rank": ("Tag:tag1d", lambda f, b: b.tags["tag1d"].references.append(b.data_arrays["sig"]),
                                                   [VE.PositionDimensionMismatch, VE.ReferenceUnitsMismatch]),
        "extent fits only one of two references": ("Tag:tag1d", lambda f, b: (setattr(b.tags["tag1d"], "extent", [1.0]),
                                                                            b.tags["tag1d"].references.append(b.data_arrays["sig"])),
                                                   [VE.PositionDimensionMismatch, VE.ExtentDimensionMismatch, VE.ReferenceUnitsMismatch]),
        "missing type": ("DataArray:pos", lambda f, b: raw(b.data_arrays["pos"]).attrs.__delitem__("type"), [VE.NoType]),
        "missing date": ("Group:grp", lambda f, b: raw(b.groups["grp"]).attrs.__delitem__("created_at"), [VE.NoDate]),
        "missing id": ("Source:child", lambda f, b: raw(b.sources["src"].sources["child"]).attrs.__delitem__("entity_id"), [VE.NoID]),
        "missing type (section)": ("Section:sub", lambda f, b: raw(f.sections["sess"].sections["sub"]).attrs.__delitem__("type"), [VE.NoType]),
        "missing type (block)": ("Block:blk", lambda f, b: raw(b).attrs.__delitem__("type"), [VE.NoType]),
    }
    OPTIONAL = {"missing ticks": {VE.RangeDimTicksMismatch.format(1)}}       # no ticks is also a tick count of 0
    SI = ["m", "g", "s", "A", "K", "mol", "cd", "Hz", "N", "Pa", "J", "W", "C", "V", "F", "S", "Wb", "T", "H", "lm", "lx", "Bq", "Gy", "Sv", "kat",
          "l", "L", "Ohm", "dB", "rad"]
    f = build(); bl = f.blocks["blk"]; fr = bl.data_arrays["free"]
    for i, u in enumerate(SI):
        for pre in ("", "k", "m", "u", "M", "da"):
            fr.dimensions[0].unit = pre + u
            if i % 3 == 0 and pre in ("", "k"):
                bl.tags["tag1d"].units = [pre + u]; bl.data_arrays["other"].dimensions[0].unit = u
            r = report(f)
            check(r == {}, "an atomic SI unit on a dimension / tag of an otherwise consistent file is reported as an error", unit=pre + u, reported=r)
    f.close()
    f = build(); r = report(f); f.close()
    check(r == {}, "a consistent file is reported to have errors", reported=r)
    names = list(INJ)
    for nm in names:
        key, inj, want = INJ[nm]
        f = build()
        try:
            inj(f, f.blocks["blk"])
        except Exception as e:
            f.close(); check(False, "the battery could not inject the inconsistency (API changed?)", injection=nm, error=repr(e)[:200]); continue
        try:
            r = report(f)
        except Exception as e:
            f.close()
            if nm == "missing id" and isinstance(e, ValueError) and "UUID" in str(e):
                # known finding C14-missing-id: no handle can be made for an entity without a valid id, so the validator aborts
                KNOWN.setdefault("C14-missing-id", []).append("validate() on a file whose source 'child' has no entity_id: " + repr(e)); N[0] += 1
            else:
                check(False, "validation aborted instead of reporting the inconsistency", injection=nm, error=repr(e)[:200])
            continue
        f.close()
        got = set(r.get(key, []))
        check(set(want) <= got <= set(want) | OPTIONAL.get(nm, set()), "an injected inconsistency is not reported for its object exactly as catalogued",
              injection=nm, object=key, reported=r.get(key), expected=sorted(want))
        others = {k_: v for k_, v in r.items() if k_ != key}
        check(not others, "an inconsistency of one object is reported for other objects", injection=nm, others=others)
    # pairs of inconsistencies at different objects
    pairs = [(x, y) for i, x in enumerate(names) for y in names[i + 1:] if INJ[x][0] != INJ[y][0]
             and not {x, y} & {"unit vs unitless dimension"}]
    if tier == "quick":
        pairs = pairs[::9]
    npairs = 0
    for x, y in pairs:
        # (injections that touch an array another injected object refers to would interact: keep the objects independent)
        touched = {"DataArray:other": {"Tag:tag1d", "MultiTag:mtag"}, "DataArray:sig": {"Tag:tag", "MultiTag:mtag"}}
        if INJ[y][0] in touched.get(INJ[x][0], ()) or INJ[x][0] in touched.get(INJ[y][0], ()):
            continue
        f = build()
        try:
            INJ[x][1](f, f.blocks["blk"]); INJ[y][1](f, f.blocks["blk"])
        except Exception:
            f.close(); continue
        if "missing id" in (x, y):
            f.close(); continue
        r = report(f); f.close(); npairs += 1
        want = {INJ[x][0]: sorted(INJ[x][2]), INJ[y][0]: sorted(INJ[y][2])}
        for z in (x, y):
            if z in OPTIONAL and INJ[z][0] in r:
                r[INJ[z][0]] = sorted(set(r[INJ[z][0]]) - OPTIONAL[z])
        check(r == want, "two injected inconsistencies are not reported as exactly those two", injections=[x, y], reported=r, expected=want)
    return ("one well-formed file (3 arrays with all descriptor kinds, tag, 1-D tag, multi-tag, group, source tree, sections); %d single "
            "injections of catalogue inconsistencies and %d pairs at independent objects; report compared object by object" % (len(names), npairs))


def b_c07(tier):
    """descriptors: generated axes, position <-> index conversions and index ranges against the order-theoretic definition"""
    import nixio
    from nixio import IndexMode, SliceMode
    f = newfile(); b = f.create_block("b", "t")
    k = [0]

    def fresh_array(n=40):
        k[0] += 1
        return b.create_data_array("a%d" % k[0], "t", data=np.zeros(n))

    def spec_index(pos_list, p, mode, unbounded):
        """pos_list: sample positions (ascending); unbounded: samples continue beyond the list (sampled dimension)"""
        if mode == IndexMode.LessOrEqual:
            c = [i for i, x in enumerate(pos_list) if x <= p]
        elif mode == IndexMode.Less:
            c = [i for i, x in enumerate(pos_list) if x < p]
        else:
            c = [i for i, x in enumerate(pos_list) if x >= p]
            return c[0] if c else ("beyond" if unbounded else None)
        if unbounded and c and c[-1] == len(pos_list) - 1:
            return "beyond"
        return c[-1] if c else None
    intervals = [0.1, 0.2, 0.3, 0.25, 1.0, 2.0, 0.001] if tier != "quick" else [0.1, 0.3, 0.25, 2.0]
    offsets = [0.0, 0.05, -1.0, 3.7] if tier != "quick" else [0.0, -1.0, 3.7]
    for si in intervals:
        for off in offsets:
            da = fresh_array(); dim = da.append_sampled_dimension(si, offset=off)
            for count in range(0, 31):
                for start in (None, 0, 3):
                    ax = dim.axis(count) if start is None else dim.axis(count, start)
                    s0 = start or 0
                    check(len(ax) == count, "a generated axis does not have the requested number of entries", interval=si, offset=off, count=count,
                          start=start, got=len(ax))
                    okp = all(abs(ax[j] - dim.position_at(s0 + j)) <= 1e-9 * max(1.0, abs(ax[j])) for j in range(min(len(ax), count)))
                    check(okp, "a generated axis disagrees with position_at", interval=si, offset=off, count=count, start=start)
            ax = dim.axis(12, start_position=off + 2 * si)
            check(len(ax) == 12 and abs(ax[0] - (off + 2 * si)) < 1e-12, "an axis from a start position does not start there", interval=si, offset=off)
            n = 12; pos = [off + j * si for j in range(n)]
            for j in range(n):
                check(dim.index_of(dim.position_at(j)) == j, "converting the position of sample i back does not yield i", interval=si, offset=off, i=j)
            # between samples / before the first (away from the rounding band around samples)
            for j in range(n - 1):
                mid = pos[j] + si / 2
                for mode, want in ((IndexMode.LessOrEqual, j), (IndexMode.Less, j), (IndexMode.GreaterOrEqual, j + 1)):
                    check(dim.index_of(mid, mode) == want, "index_of between two samples is not the order-theoretic answer", interval=si, offset=off,
                          position=mid, mode=str(mode), got=_safe(lambda: dim.index_of(mid, mode)), expected=want)
            for mode, want in ((IndexMode.LessOrEqual, None), (IndexMode.Less, None), (IndexMode.GreaterOrEqual, 0)):
                try:
                    got = dim.index_of(off - si / 2, mode)
                    check(got == want, "index_of before the first sample", mode=str(mode), got=got, expected=want, interval=si, offset=off)
                except IndexError:
                    check(want is None, "index_of raised although a sample exists", mode=str(mode), interval=si, offset=off)
            for mode, want in ((IndexMode.Less, None), (IndexMode.LessOrEqual, 0), (IndexMode.GreaterOrEqual, 0)):
                try:
                    got = dim.index_of(off, mode)
                    check(got == want, "index_of exactly on the first sample", mode=str(mode), got=got, expected=want, interval=si, offset=off)
                except IndexError:
                    check(want is None, "index_of raised although a sample exists", mode=str(mode), interval=si, offset=off, position=off)
            for a_, e_ in ((1, 4), (0, 0), (2, 9)):
                lo, hi = pos[a_] - si / 4, pos[e_] + si / 4
                check(dim.range_indices(lo, hi, SliceMode.Inclusive) == (a_ if lo <= pos[a_] else a_ + 1, e_) and
                      dim.range_indices(lo, hi, SliceMode.Exclusive) == (a_, e_), "range_indices does not cover exactly the samples in the interval",
                      interval=si, offset=off, start=lo, end=hi, got=[_safe(lambda: dim.range_indices(lo, hi, SliceMode.Inclusive)),
                                                                     _safe(lambda: dim.range_indices(lo, hi, SliceMode.Exclusive))])
                r_in = dim.range_indices(pos[a_] + si / 2 - si / 2, pos[e_], SliceMode.Inclusive); r_ex = dim.range_indices(pos[a_], pos[e_], SliceMode.Exclusive)
                check(r_in == (a_, e_), "a closed interval ending on a sample does not include it", interval=si, offset=off, got=r_in, expected=[a_, e_])
                check(r_ex == ((a_, e_ - 1) if e_ > a_ else None), "an interval open at the end includes its end sample (or is not empty)", interval=si,
                      offset=off, got=r_ex, expected=[a_, e_ - 1] if e_ > a_ else None)
            check(dim.range_indices(pos[2] + si / 4, pos[2] + si / 2, SliceMode.Inclusive) is None, "an interval between two samples is not reported empty",
                  interval=si, offset=off)
    # a descriptor whose interval / offset were first whole numbers and are then set to fractions (and back)
    da = fresh_array(); dim = da.append_sampled_dimension(2, offset=3)
    for si2, off2 in ((1.5, -1.25), (4, 1), (0.125, 0.5), (3, -2), (2.5, 7)):
        dim.sampling_interval = si2; dim.offset = off2
        d2 = b.data_arrays[da.name].dimensions[0]
        check(d2.sampling_interval == si2 and d2.offset == off2 and dim.sampling_interval == si2 and dim.offset == off2,
              "interval / offset do not read back as set", set=[si2, off2], got=[d2.sampling_interval, d2.offset])
        for j in range(6):
            check(abs(dim.position_at(j) - (off2 + j * si2)) < 1e-12 and dim.index_of(off2 + j * si2) == j and len(dim.axis(5)) == 5 and
                  abs(dim.axis(5)[4] - (off2 + 4 * si2)) < 1e-12, "conversions do not follow a changed interval / offset", set=[si2, off2], i=j,
                  position=_safe(lambda: dim.position_at(j)))
    # range dimensions: several tick vectors incl. repeated and single ticks
    for ticks in ([0.5], [1.0, 2.0, 4.0, 8.0], [-3.0, -1.5, 0.0, 0.25, 10.0], [1.0, 2.0, 2.0, 3.0], [0.0, 1e-3, 2e-3]):
        da = fresh_array(len(ticks)); dim = da.append_range_dimension(ticks=ticks); n = len(ticks)
        probes = sorted(set(ticks + [t - 0.1 for t in ticks[:1]] + [t + 0.1 for t in ticks[-1:]] + [(x + y) / 2 for x, y in zip(ticks, ticks[1:]) if x != y]))
        for p in probes:
            for mode in (IndexMode.LessOrEqual, IndexMode.Less, IndexMode.GreaterOrEqual):
                want = spec_index(ticks, p, mode, False)
                try:
                    got = dim.index_of(p, mode)
                    check(got == want, "index_of on a range dimension is not the order-theoretic answer", ticks=ticks, position=p, mode=str(mode),
                          got=got, expected=want)
                except IndexError:
                    check(want is None, "index_of raised although a tick exists", ticks=ticks, position=p, mode=str(mode), expected=want)
        for j in range(n):
            check(dim.tick_at(j) == ticks[j] and list(dim.axis(n - j, j)) == ticks[j:], "tick_at / axis disagree with the ticks", ticks=ticks, i=j)
        for lo in probes:
            for hi in probes:
                if hi < lo:
                    continue
                for mode in (SliceMode.Inclusive, SliceMode.Exclusive):
                    inside = [i for i, t in enumerate(ticks) if lo <= t and (t <= hi if mode == SliceMode.Inclusive else t < hi)]
                    want = (inside[0], inside[-1]) if inside else None
                    got = dim.range_indices(lo, hi, mode)
                    check(got == want, "range_indices on a range dimension does not cover exactly the ticks in the interval", ticks=ticks, start=lo, end=hi,
                          mode=str(mode), got=got, expected=want)
        try:
            dim.axis(n + 1); check(False, "an axis longer than the ticks was handed out", ticks=ticks)
        except IndexError:
            N[0] += 1
    # set dimensions: positions are category indices
    for labels in (None, ["a"], ["a", "b", "c", "d"]):
        da = fresh_array(4); dim = da.append_set_dimension(labels) if labels else da.append_set_dimension(); n = len(labels) if labels else None
        cats = list(range(n)) if n else list(range(6))
        for p in [-0.5, 0, 0.4, 1, 2.5, 3, 3.5, 7.2]:
            for mode in (IndexMode.LessOrEqual, IndexMode.Less, IndexMode.GreaterOrEqual):
                full = cats if n else list(range(0, 12))
                want = spec_index([float(c) for c in full], p, mode, False)
                try:
                    got = dim.index_of(p, mode)
                    check(got == want, "index_of on a set dimension is not the order-theoretic answer", labels=labels, position=p, mode=str(mode), got=got,
                          expected=want)
                except IndexError:
                    check(want is None, "index_of on a set dimension raised although a category exists", labels=labels, position=p, mode=str(mode),
                          expected=want)
        for lo, hi in ((0, 2), (0.5, 2), (1, 1), (1.2, 1.8), (0, 3), (2, 5.5)):
            for mode in (SliceMode.Inclusive, SliceMode.Exclusive):
                full = cats if n else list(range(0, 12))
                inside = [c for c in full if lo <= c and (c <= hi if mode == SliceMode.Inclusive else c < hi)]
                want = (inside[0], inside[-1]) if inside else None
                got = dim.range_indices(lo, hi, mode)
                check(got == want, "range_indices on a set dimension does not cover exactly the categories in the interval", labels=labels, start=lo,
                      end=hi, mode=str(mode), got=got, expected=want)
    f.close()
    return ("%d sampled descriptors (interval x offset): axes of 0..30 entries x 3 starts, round trip of 12 samples, positions between / before / "
            "on samples x 3 modes, 3 index ranges x 2 modes; 5 tick vectors (single, repeated, negative, tiny): every tick and midpoint x 3 modes, "
            "every probe pair x 2 modes, tick_at / axis; set descriptors without / with 1 / 4 labels" % (len(intervals) * len(offsets)))


def _collect(f):
    """every entity of the file as a live Python object, keyed by its path"""
    objs = {}

    def sec(s, path):
        objs[path] = s
        for p in s.props:
            objs[path + "/prop:" + p.name] = p
        for c in s.sections:
            sec(c, path + "/" + c.name)

    def src(s, path):
        objs[path] = s
        for c in s.sources:
            src(c, path + "/" + c.name)
    for s in f.sections:
        sec(s, "md/" + s.name)
    for b in f.blocks:
        objs["b/" + b.name] = b
        for a in b.data_arrays:
            objs["b/%s/a/%s" % (b.name, a.name)] = a
            for i, dm in enumerate(a.dimensions):
                objs["b/%s/a/%s/dim%d" % (b.name, a.name, i)] = dm
        for d in b.data_frames:
            objs["b/%s/df/%s" % (b.name, d.name)] = d
        for kind, cont in (("t", b.tags), ("m", b.multi_tags)):
            for t in cont:
                objs["b/%s/%s/%s" % (b.name, kind, t.name)] = t
        for g in b.groups:
            objs["b/%s/g/%s" % (b.name, g.name)] = g
        for s in b.sources:
            src(s, "b/%s/s/%s" % (b.name, s.name))
    return objs


def _observe(objs):
    """what each live object shows through the public API"""
    import nixio
    out = {}
    for path, o in objs.items():
        cls = type(o).__name__
        if cls == "Section":
            out[path] = walk_section(o)
        elif cls == "Property":
            out[path] = dict(values=_safe(lambda: o.values), unit=_safe(lambda: o.unit), dtype=_safe(lambda: str(o.data_type)))
        elif cls == "Source":
            out[path] = walk_source(o)
        elif cls == "Block":
            out[path] = dict(walk_entity(o, "block"), arrays=[x.name for x in o.data_arrays], frames=[x.name for x in o.data_frames],
                             tags=[x.name for x in o.tags], mtags=[x.name for x in o.multi_tags], groups=[x.name for x in o.groups],
                             sources=[x.name for x in o.sources])
        elif cls == "DataArray":
            out[path] = walk_array(o)
        elif cls == "DataFrame":
            out[path] = dict(walk_entity(o, "frame"), columns=_safe(lambda: list(o.column_names)), shape=_safe(lambda: tuple(o.df_shape)),
                             n=_safe(lambda: len(o)), rows=_safe(lambda: [list(r) for r in o.read_rows(list(range(len(o))))] if len(o) else []),
                             units=_safe(lambda: list(o.units) if o.units is not None else None))
        elif cls in ("Tag", "MultiTag"):
            out[path] = walk_tag(o, cls == "MultiTag")
        elif cls == "Group":
            out[path] = dict(walk_entity(o, "group"), arrays=[x.id for x in o.data_arrays], tags=[x.id for x in o.tags],
                             mtags=[x.id for x in o.multi_tags], sources=[x.id for x in o.sources])
        elif cls.endswith("Dimension"):
            out[path] = walk_dim(o)
    return json.loads(json.dumps(out, default=str, sort_keys=True))


def b_c02live(tier):
    """every live handle shows the stored state: objects fetched (and fully read) BEFORE a change made through other handles"""
    import nixio
    f = sample_file(newfile()); path = f._h5file.filename
    b = f.blocks[0]
    b.create_data_frame("frame", "t", col_dict={"c0": float, "c1": int}, data=[(1.0, 2), (3.0, 4)])
    steps = [
        ("array label / unit", lambda g: (setattr(g.blocks[0].data_arrays["same"], "label", "L2"), setattr(g.blocks[0].data_arrays["same"], "unit", "uV"))),
        ("array append", lambda g: g.blocks[0].data_arrays["ints"].append(np.array([7, 8], dtype=np.int32))),
        ("array write", lambda g: g.blocks[0].data_arrays["same"].__setitem__((0, 0), 99.0)),
        ("append dimension", lambda g: g.blocks[0].data_arrays["pos"].append_set_dimension(["p", "q"])),
        ("dimension attributes", lambda g: (setattr(g.blocks[0].data_arrays["same"].dimensions[0], "sampling_interval", 0.25),
                                            setattr(g.blocks[0].data_arrays["same"].dimensions[1], "ticks", [1.0, 2.0, 3.0, 5.0]))),
        ("calibration", lambda g: setattr(g.blocks[0].data_arrays["same"], "polynom_coefficients", (0.0, 2.0))),
        ("frame append_column", lambda g: g.blocks[0].data_frames["frame"].append_column([0.5] * len(g.blocks[0].data_frames["frame"]), "c2", float)),
        ("frame append_rows", lambda g: g.blocks[0].data_frames["frame"].append_rows([(9.0, 9, 9.5)])),
        ("frame write_cell", lambda g: g.blocks[0].data_frames["frame"].write_cell(5, position=(0, 1))),
        ("tag position / units", lambda g: (setattr(g.blocks[0].tags["tag"], "position", [0.25, 1.5]), setattr(g.blocks[0].tags["tag"], "units", ["s", "ms"]))),
        ("tag reference added", lambda g: g.blocks[0].tags["tag"].references.append(g.blocks[0].data_arrays["ints"])),
        ("tag reference removed", lambda g: g.blocks[0].tags["tag"].references.__delitem__(g.blocks[0].data_arrays["ints"])),
        ("group emptied and refilled", lambda g: ([g.blocks[0].groups["grp"].data_arrays.__delitem__(x) for x in list(g.blocks[0].groups["grp"].data_arrays)],
                                                  g.blocks[0].groups["grp"].data_arrays.append(g.blocks[0].data_arrays["text"]))),
        ("mtag extents cleared", lambda g: setattr(g.blocks[0].multi_tags["mtag"], "extents", None)),
        ("property values", lambda g: (setattr(g.sections["sess"].props["n"], "values", [4, 5]), g.sections["sess"].props["w"].extend_values([1.5]))),
        ("property created / deleted", lambda g: (g.sections["sess"].create_property("fresh", ["v"]), g.sections["sess"].props.__delitem__("flag"))),
        ("section created", lambda g: g.sections["sess"].create_section("later", "t")),
        ("section attributes", lambda g: (setattr(g.sections["other"], "reference", "r9"), setattr(g.sections["other"], "type", "t9"))),
        ("source created", lambda g: g.blocks[0].sources["src"].create_source("later", "t")),
        ("array created / deleted", lambda g: (g.blocks[0].create_data_array("newa", "t", data=[1.0]), g.blocks[0].data_arrays.__delitem__("ext"))),
        ("tag created", lambda g: g.blocks[0].create_tag("newt", "t", [0.0])),
        ("metadata link changed", lambda g: setattr(g.blocks[0].data_arrays["same"], "metadata", g.sections["other"])),
        ("entity definition", lambda g: (setattr(g.blocks[0], "definition", "d9"), setattr(g.blocks[0].groups["grp"], "definition", "d9"))),
        ("numeric attributes: whole number, then fraction", lambda g: (setattr(g.blocks[0].data_arrays["same"].dimensions[0], "sampling_interval", 2),
                                                                      setattr(g.blocks[0].data_arrays["same"].dimensions[0], "offset", 3),
                                                                      setattr(g.blocks[0].data_arrays["same"], "expansion_origin", 1),
                                                                      setattr(g.blocks[0].data_arrays["same"].dimensions[0], "sampling_interval", 1.5),
                                                                      setattr(g.blocks[0].data_arrays["same"].dimensions[0], "offset", -1.25),
                                                                      setattr(g.blocks[0].data_arrays["same"], "expansion_origin", 0.75))),
    ]
    live = _collect(f); _observe(live)          # every object has been read once (whatever it may remember, it remembers now)
    for name, step in steps:
        try:
            step(f)
        except Exception as e:
            check(False, "a legal change was refused", change=name, error=repr(e)[:200]); continue
        fresh = _collect(f)
        # objects that were deleted by the step are no longer part of the comparison; new ones join with their fresh handle
        live = {k_: live.get(k_, fresh[k_]) for k_ in fresh}
        a_, b_ = _observe(live), _observe(fresh)
        stale = [k_ for k_ in a_ if diff(a_[k_], b_[k_]) is not None]
        for k_ in stale:
            r = diff(a_[k_], b_[k_])
            if name == "group emptied and refilled" and k_.endswith("/g/grp") and r.startswith(".arrays: length 0 vs"):
                # known finding C02-stale-link-list: the emptied link list group was deleted and re-created; the old handle still
                # holds the deleted HDF5 group
                KNOWN.setdefault("C02-stale-link-list", []).append("%s: %s%s" % (name, k_, r)); N[0] += 1
            else:
                check(False, "a handle obtained before the change shows something else than a fresh handle", change=name, object=k_, where=r)
            live[k_] = fresh[k_]          # (one stale handle is reported once, not again after every later step)
        if not stale:
            N[0] += 1
    d0 = f.blocks[0].data_arrays["same"].dimensions[0]
    check((d0.sampling_interval, d0.offset, f.blocks[0].data_arrays["same"].expansion_origin) == (1.5, -1.25, 0.75),
          "numeric attributes first stored as whole numbers do not take fractions", got=[d0.sampling_interval, d0.offset,
                                                                                         f.blocks[0].data_arrays["same"].expansion_origin])
    before = _observe(_collect(f)); f.close()
    g = nixio.File.open(path, nixio.FileMode.ReadOnly); after = _observe(_collect(g)); g.close()
    r = diff(before, after)
    check(r is None, "the reopened file does not show what the live handles showed before closing", where=r)
    return ("one sample file with every entity kind, all objects fetched and fully read first; %d changes made through OTHER handles; after "
            "each, every old object against a fresh one; finally against the reopened file" % len(steps))


def _ids(w):
    out = []
    if isinstance(w, dict):
        if "id" in w and isinstance(w["id"], str):
            out.append(w["id"])
        for v in w.values():
            out.extend(_ids(v))
    elif isinstance(w, list):
        for v in w:
            out.extend(_ids(v))
    return out


def _links(e):
    out = []
    for k in ("refs", "sources", "arrays", "tags", "mtags"):
        v = e.get(k)
        if isinstance(v, list):
            out.extend(x for x in v if isinstance(x, str))
    for k in ("positions", "extents"):
        if isinstance(e.get(k), str) and not e[k].startswith("!"):
            out.append(e[k])
    for ft in e.get("features", []) or []:
        if isinstance(ft.get("data"), str) and not ft["data"].startswith("!"):
            out.append(ft["data"])
    return out


BATTERIES = {"c02": b_c02, "c13": b_c13, "c08": b_c08, "c16": b_c16, "c05": b_c05, "c04": b_c04, "c03": b_c03, "c12": b_c12, "c20": b_c20, "c18": b_c18, "c11": b_c11, "c10": b_c10, "c01": b_c01, "c17": b_c17, "c19": b_c19, "c14": b_c14, "c07": b_c07, "c02live": b_c02live}


def main():
    # every scratch file of this run lives below one directory that is removed at exit
    import atexit
    import shutil
    base = tempfile.mkdtemp(prefix="nixverif_bnd_")
    tempfile.tempdir = base
    os.environ["TMPDIR"] = base                      # (writer child processes of the c17 battery inherit it)
    atexit.register(shutil.rmtree, base, True)
    name, repo = sys.argv[1], sys.argv[2]
    tier = sys.argv[3] if len(sys.argv) > 3 else "quick"
    import nixio
    if not os.path.abspath(nixio.__file__).startswith(os.path.abspath(repo)):
        print(json.dumps(dict(battery=name, error="nixio resolves to %s, not to %s" % (nixio.__file__, repo))))
        sys.exit(3)
    bound = BATTERIES[name](tier)
    print(json.dumps(dict(battery=name, bound=bound, evaluations=N[0], violations=BAD, known=KNOWN), default=str))


if __name__ == "__main__":
    main()
