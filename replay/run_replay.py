"""Native replay of counter-models against the real nixio code (runs under /venv/bin/python, PYTHONPATH=<tree>).

Each harness rebuilds the situation described by the verifier's witness with the public API, runs the real
function and compares with an oracle written from the PROPERTY STATEMENT (brute force / NumPy), independent of the
contracts. Exit 1 + 'CONFIRMED ...' when the real code misbehaves on a concrete input; exit 0 otherwise.
If the exact witness does not reproduce, a small neighbourhood of it is searched (witness values come from a model
in which floats are reals and some operations are abstracted).
"""
import argparse
import itertools
import json
import os
import sys
import tempfile
from fractions import Fraction

import numpy as np



def _scratch_base():
    """every scratch file of this run lives below one directory that is removed at exit"""
    import atexit
    import shutil
    base = tempfile.mkdtemp(prefix="nixverif_tmp_")
    tempfile.tempdir = base
    atexit.register(shutil.rmtree, base, True)


_scratch_base()

def num(x, default=0.0):
    if isinstance(x, dict) and "q" in x:
        return float(Fraction(x["q"]))
    if isinstance(x, (int, float)):
        return float(x)
    try:
        return float(Fraction(str(x)))
    except Exception:
        return default


def newfile():
    import nixio
    d = tempfile.mkdtemp(prefix="replay_")
    return nixio.File.open(os.path.join(d, "t.nix"), nixio.FileMode.Overwrite)


def confirmed(msg, **kw):
    print("CONFIRMED: " + msg)
    print(json.dumps(kw, default=str))
    sys.exit(1)


# --------------------------------------------------------------------------------------------------------
# C07: dimension descriptors - oracle = linear scan over sample coordinates
# --------------------------------------------------------------------------------------------------------
def oracle_index(coords, p, mode, unbounded_step=None):
    """coords: list of sample coordinates (ascending). returns index or None (= IndexError expected)."""
    if mode == "LessOrEqual":
        c = [i for i, x in enumerate(coords) if x <= p]
        return c[-1] if c else None
    if mode == "Less":
        c = [i for i, x in enumerate(coords) if x < p]
        return c[-1] if c else None
    c = [i for i, x in enumerate(coords) if x >= p]
    return c[0] if c else None


def near(a, b):
    return abs(a - b) <= 1e-8 + 1e-5 * abs(b)


def h_c07_sampled(w, unit, clause):
    from nixio.dimensions import IndexMode, SliceMode
    f = newfile()
    b = f.create_block("b", "t")
    offs = [num(w.get("off"), 0.0)]
    ss = [abs(num(w.get("s"), 1.0)) or 1.0]
    pos = [num(w.get("position"), 0.0), num(w.get("start_position"), 0.0), num(w.get("end_position"), 0.0)]
    # neighbourhood: the witness plus a grid (offsets incl. negative/fractional, positions on/between samples)
    offs += [0.0, -5.0, 3.1, 0.5]
    ss += [1.0, 0.5, 0.1, 2.5]
    k = 0
    for off, s in itertools.product(offs, ss):
        k += 1
        da = b.create_data_array("a%d" % k, "t", data=np.arange(4.0))
        dim = da.append_sampled_dimension(s, offset=off if off else None)
        coords = [i * s + off for i in range(0, 400)]
        plist = pos + [off, off + s, off + 2.5 * s, off - s, off - 0.5 * s, off + 1e-12, 0.0, off + 3 * s]
        for p in plist:
            if p > coords[-1] - 2 * s:
                continue
            on_sample = any(near((p - off) / s, round((p - off) / s)) for _ in [0])
            for mname in ("LessOrEqual", "Less", "GreaterOrEqual"):
                want = oracle_index(coords, p, mname)
                try:
                    got = int(dim.index_of(p, getattr(IndexMode, mname)))
                except IndexError:
                    got = None
                if got != want and not on_sample_tolerant(p, off, s, mname, got, coords):
                    confirmed("SampledDimension.index_of disagrees with the order-theoretic answer",
                              offset=off, interval=s, position=p, mode=mname, got=got, expected=want)
            for sm in ("Exclusive", "Inclusive"):
                for q in plist:
                    if q < p or q > coords[-1] - 2 * s:
                        continue
                    inside = [i for i, x in enumerate(coords) if x >= p and (x < q if sm == "Exclusive" else x <= q)]
                    want = (inside[0], inside[-1]) if inside else None
                    got = dim.range_indices(p, q, getattr(SliceMode, sm))
                    got = tuple(int(x) for x in got) if got is not None else None
                    if got != want and not any(near((z - off) / s, round((z - off) / s)) for z in (p, q)):
                        confirmed("SampledDimension.range_indices does not cover exactly the samples in the interval",
                                  offset=off, interval=s, start=p, end=q, mode=sm, got=got, expected=want)
    f.close()


def on_sample_tolerant(p, off, s, mode, got, coords):
    """inside numpy's isclose band around a sample either neighbouring answer is accepted"""
    q = (p - off) / s
    j = round(q)
    if not near(q, j):
        return False
    alt = oracle_index(coords, coords[j] if 0 <= j < len(coords) else p, mode) if j >= 0 else None
    return got == alt


def h_c07_range(w, unit, clause):
    from nixio.dimensions import IndexMode, SliceMode
    f = newfile()
    b = f.create_block("b", "t")
    T = w.get("T") or []
    T = sorted(num(x) for x in T) if isinstance(T, list) else []
    cands = [T] if T else []
    cands += [[1.0, 2.0, 2.0, 3.0], [0.5], [-3.0, -1.0, 0.0, 0.0, 4.5, 9.0], [2.0, 2.0, 2.0]]
    pos = [num(w.get("position"), 0.0), num(w.get("start_position"), 0.0), num(w.get("end_position"), 0.0)]
    for k, ticks in enumerate(cands):
        da = b.create_data_array("a%d" % k, "t", data=np.arange(float(len(ticks))))
        dim = da.append_range_dimension(ticks)
        plist = sorted(set(pos + ticks + [t + 0.25 for t in ticks] + [ticks[0] - 1, ticks[-1] + 1]))
        for p in plist:
            for mname in ("LessOrEqual", "Less", "GreaterOrEqual"):
                want = oracle_index(ticks, p, mname)
                try:
                    got = int(dim.index_of(p, getattr(IndexMode, mname)))
                except IndexError:
                    got = None
                if got != want:
                    confirmed("RangeDimension.index_of disagrees with the order-theoretic answer",
                              ticks=ticks, position=p, mode=mname, got=got, expected=want)
            for q in plist:
                if q < p:
                    continue
                for sm in ("Exclusive", "Inclusive"):
                    inside = [i for i, x in enumerate(ticks) if x >= p and (x < q if sm == "Exclusive" else x <= q)]
                    want = (inside[0], inside[-1]) if inside else None
                    got = dim.range_indices(p, q, getattr(SliceMode, sm))
                    got = tuple(int(x) for x in got) if got is not None else None
                    if got != want:
                        confirmed("RangeDimension.range_indices does not cover exactly the ticks in the interval",
                                  ticks=ticks, start=p, end=q, mode=sm, got=got, expected=want)
        for i in range(-len(ticks), len(ticks)):
            if dim.tick_at(i) != ticks[i]:
                confirmed("tick_at(i) != ticks[i]", ticks=ticks, index=i)
    f.close()


def h_c07_set(w, unit, clause):
    from nixio.dimensions import IndexMode, SliceMode
    f = newfile()
    b = f.create_block("b", "t")
    n0 = w.get("n") if isinstance(w.get("n"), int) else 3
    pos = [num(w.get("position"), 0.0), num(w.get("start_position"), 0.0), num(w.get("end_position"), 0.0)]
    for k, n in enumerate(sorted(set([n0, 0, 1, 3, 5]))):
        if n < 0 or n > 50:
            continue
        da = b.create_data_array("a%d" % k, "t", data=np.arange(float(max(n, 1))))
        dim = da.append_set_dimension(["l%d" % i for i in range(n)] if n else None)
        coords = [float(i) for i in range(n if n else 60)]
        plist = sorted(set(pos + [-1.0, -0.5, 0.0, 0.5, 1.0, 1.5, 2.0, float(n) - 1, float(n), float(n) + 0.5]))
        for p in plist:
            if not n and p > 50:
                continue
            for mname in ("LessOrEqual", "Less", "GreaterOrEqual"):
                want = oracle_index(coords, p, mname)
                try:
                    got = int(dim.index_of(p, getattr(IndexMode, mname)))
                except IndexError:
                    got = None
                if got != want:
                    confirmed("SetDimension.index_of disagrees with the order-theoretic answer",
                              n_labels=n, position=p, mode=mname, got=got, expected=want)
            for q in plist:
                if q < p or (not n and q > 50):
                    continue
                for sm in ("Exclusive", "Inclusive"):
                    inside = [i for i, x in enumerate(coords) if x >= p and (x < q if sm == "Exclusive" else x <= q)]
                    want = (inside[0], inside[-1]) if inside else None
                    got = dim.range_indices(p, q, getattr(SliceMode, sm))
                    got = tuple(int(x) for x in got) if got is not None else None
                    if got != want:
                        confirmed("SetDimension.range_indices does not cover exactly the samples in the interval",
                                  n_labels=n, start=p, end=q, mode=sm, got=got, expected=want)
    f.close()


# --------------------------------------------------------------------------------------------------------
# C06: views - oracle = NumPy on an in-memory copy
# --------------------------------------------------------------------------------------------------------
def to_index(x):
    if isinstance(x, dict) and "slice" in x:
        return slice(*x["slice"])
    if isinstance(x, dict) and "ellipsis" in x:
        return Ellipsis
    if isinstance(x, dict) and "tuple" in x:
        return tuple(to_index(e) for e in x["tuple"])
    if isinstance(x, list):
        return tuple(to_index(e) for e in x)
    return x


def h_c06_view(w, unit, clause):
    import nixio
    f = newfile()
    b = f.create_block("b", "t")
    win = w.get("@window") or []
    win = [tuple(s["slice"][:2]) for s in win if isinstance(s, dict) and "slice" in s and None not in s["slice"][:2]]
    idx = to_index(w.get("sl", w.get("user_slices")))
    shapes = []
    if win and all(0 <= a <= b2 <= 12 for a, b2 in win) and len(win) <= 3:
        shapes.append((tuple(max(b2, 1) + 1 for a, b2 in win), win))
    shapes += [((10,), [(2, 7)]), ((4, 6), [(1, 4), (1, 5)]), ((3, 4, 5), [(0, 3), (1, 3), (2, 5)]), ((6,), [(3, 3)])]
    k = 0
    for shape, window in shapes:
        k += 1
        data = np.arange(float(np.prod(shape))).reshape(shape)
        da = b.create_data_array("a%d" % k, "t", data=data)
        pos = [a for a, _ in window]
        ext = [b2 - a for a, b2 in window]
        v = da.get_slice(pos, ext)
        ref_win = tuple(slice(a, b2) for a, b2 in window)
        rank = len(shape)
        cands = [idx] if idx is not None else []
        atoms = [0, -1, 1, 5, -7, slice(None), slice(1, None), slice(None, 0), slice(2, 0), slice(None, -20),
                 slice(0, 9, 2), slice(-3, None), Ellipsis]
        cands += atoms + [t for t in itertools.product(atoms[:9], repeat=min(rank, 2))]
        cands += [(0,) * (rank + 1), (Ellipsis,) + (0,) * (rank + 1), ()]
        for c in cands:
            try:
                want = np.array(data[ref_win][c])
                want_exc = None
            except IndexError:
                want, want_exc = None, IndexError
            except Exception as e:        # noqa
                continue
            try:
                got = np.array(v[c])
                got_exc = None
            except IndexError:
                got, got_exc = None, IndexError
            except Exception as e:        # noqa
                got, got_exc = None, type(e)
            if want_exc is IndexError and got_exc is None:
                confirmed("view index accepted although NumPy raises IndexError", shape=shape, window=window,
                          index=repr(c), got=got.tolist())
            if want_exc is None and got_exc is None:
                if want.size == 1:
                    want = want.reshape(got.shape) if got.size == 1 else want
                if got.shape != want.shape or not np.array_equal(got, want):
                    if not (want.ndim == 0 and got.shape == (1,) and got[0] == want):
                        confirmed("view[index] differs from NumPy on the in-memory copy", shape=shape, window=window,
                                  index=repr(c), got=got.tolist(), expected=want.tolist())
            if want_exc is None and got_exc is not None and got_exc is not IndexError:
                pass
            # writes: exactly the addressed elements change
            if want_exc is None and got_exc is None:
                ref = data.copy()
                try:
                    ref[ref_win][c] = -1.0
                    v[c] = -1.0
                    now = da[:]
                    da[:] = data
                    if not np.array_equal(now, ref):
                        confirmed("assignment through the view changed other elements than NumPy's",
                                  shape=shape, window=window, index=repr(c), got=now.tolist(), expected=ref.tolist())
                except Exception:
                    da[:] = data
    # windows outside the array must be invalid / refused
    da = b.create_data_array("w", "t", data=np.arange(10.0))
    for p0, e0 in [(-3, 12), (-3, 5), (8, 5), (-1, 1), (3, -2)]:
        try:
            v = da.get_slice([p0], [e0])
        except Exception:
            continue
        if v.valid:
            confirmed("window outside the array accepted as a valid view", start=p0, extent=e0,
                      data_extent=v.data_extent)
    f.close()


# --------------------------------------------------------------------------------------------------------
# C09: units - oracle recomputed from the tables
# --------------------------------------------------------------------------------------------------------
def h_c09_units(w, unit, clause):
    from nixio.util import units
    pfx = units.PREFIXES.strip("()").split("|")
    uns = units.UNITS.strip("()").split("|")
    fac = dict(units.PREFIX_FACTORS)
    fac[""] = 1.0
    for p, u, pw in itertools.product([""] + pfx, uns, ["", "^2", "^-1", "^3", "^-3"]):
        s = p + u + pw
        if not units.is_atomic(s):
            confirmed("table entry not recognised as atomic", unit=s)
        if units.split(s) != (p, u, pw[1:]):
            confirmed("split() does not return the table entry's prefix, unit, power", unit=s, got=units.split(s))
    for u, pw in itertools.product(["V", "s", "mol", "Sv", "Hz"], ["", "^2", "^-1", "^-3"]):
        n = int(pw[1:]) if pw else 1
        for p1, p2 in itertools.product([""] + pfx, repeat=2):
            a, b = p1 + u + pw, p2 + u + pw
            if not units.scalable(a, b):
                confirmed("same base unit and power reported not scalable", a=a, b=b)
            got = units.scaling(a, b)
            want = (Fraction(repr(fac[p1])) / Fraction(repr(fac[p2]))) ** n
            if abs(Fraction(got) / want - 1) > Fraction(1, 10 ** 9):
                confirmed("scaling is not the prefix ratio raised to the power", origin=a, destination=b, got=got,
                          expected=float(want))
        for p1 in ["", "m", "k"]:
            for other in ["^3", "^-2", "^5"]:
                if other == pw:
                    continue
                a, b = p1 + u + pw, p1 + u + other
                if units.scalable(a, b):
                    confirmed("different powers reported scalable", a=a, b=b)
                try:
                    units.scaling(a, b)
                    confirmed("conversion between different powers not refused", a=a, b=b)
                except Exception:
                    pass
    for a, b in [("mV", "mA"), ("s", "Hz"), ("kg", "km")]:
        if units.scalable(a, b):
            confirmed("different base units reported scalable", a=a, b=b)


# --------------------------------------------------------------------------------------------------------
# C11: version gating - oracle = decision table from the property statement
# --------------------------------------------------------------------------------------------------------
def h_c11_header(w, unit, clause):
    import gc
    import h5py
    import nixio
    from nixio.file import HDF_FF_VERSION as LIB
    d = tempfile.mkdtemp(prefix="replay_")
    wit = w.get("v") if isinstance(w.get("v"), list) and len(w.get("v")) == 3 else None
    triples = ([tuple(wit)] if wit else []) + [(LIB[0] + dx, LIB[1] + dy, LIB[2] + dz)
                                              for dx in (-1, 0, 1) for dy in (-1, 0, 1) for dz in (-1, 0, 1)]
    ids = ["valid", "missing", "", "not-a-uuid", "1234"]
    k = 0
    for ver in triples:
        if min(ver) < 0:
            continue
        for idk in ids:
            for fmt in ("nix", "hdf"):
                k += 1
                path = os.path.join(d, "f%d.nix" % k)
                f = nixio.File.open(path, nixio.FileMode.Overwrite)
                f.create_block("b", "t")
                good_id = f.id
                f.close()
                with h5py.File(path, "a") as h:
                    h.attrs["version"] = np.array(ver, dtype=np.int32)
                    h.attrs["format"] = fmt
                    if idk == "missing":
                        del h.attrs["id"]
                    elif idk != "valid":
                        h.attrs["id"] = idk
                id_ok = idk == "valid"
                need_id = tuple(ver) >= (1, 2, 0)
                for mode, name in ((nixio.FileMode.ReadOnly, "r"), (nixio.FileMode.ReadWrite, "a")):
                    if fmt != "nix":
                        want = False
                    elif name == "a":
                        want = tuple(ver) == tuple(LIB) and (id_ok or not need_id)
                    else:
                        want = ver[0] == LIB[0] and ver[1] <= LIB[1] and (id_ok or not need_id)
                    try:
                        g = nixio.File.open(path, mode)
                        g.close()
                        got = True
                    except Exception:
                        got = False
                    gc.collect()
                    if got != want:
                        confirmed("open decision differs from the gating rule", version=ver, id=idk, format=fmt,
                                  mode=name, opened=got, expected=want)


HARNESS = {"c07_sampled": h_c07_sampled, "c07_range": h_c07_range, "c07_set": h_c07_set, "c06_view": h_c06_view,
           "c09_units": h_c09_units, "c11_header": h_c11_header}


def main():
    ap = argparse.ArgumentParser()
    ap.add_argument("--harness", required=True)
    ap.add_argument("--unit", default="")
    ap.add_argument("--clause", default="")
    ap.add_argument("--witness", default="{}")
    ap.add_argument("--repo", default="/repo")
    a = ap.parse_args()
    import nixio
    if not os.path.abspath(nixio.__file__).startswith(os.path.abspath(a.repo)):
        print("replay: nixio resolves to %s, not to %s" % (nixio.__file__, a.repo))
        sys.exit(3)
    h = HARNESS.get(a.harness)
    if h is None:
        print("no harness %s" % a.harness)
        sys.exit(0)
    h(json.loads(a.witness), a.unit, a.clause)
    print("NOT-REPRODUCED: the real code agrees with the native oracle on the witness and its neighbourhood")
    sys.exit(0)


if __name__ == "__main__":
    main()
