"""Native probe batteries (run under /venv/bin/python with PYTHONPATH=<tree under test>).

Used when a failed obligation comes without a usable counter-model (solver `unknown`, or a model over abstract
store terms): the battery of the failed unit's property runs concrete scenarios - written from the PROPERTY
STATEMENT, independent of the contracts - against the real code of the tree under test and reports the first
scenario that misbehaves. A hit upgrades the VIOLATION line from `no-failing-input-found` to a confirmed failing
input; no hit changes nothing (the violation is still reported, the battery never decides a clause).
"""
import itertools
import json
import os
import sys
import tempfile
import uuid

import numpy as np



def _scratch_base():
    """every scratch file of this run lives below one directory that is removed at exit"""
    import atexit
    import shutil
    base = tempfile.mkdtemp(prefix="nixverif_tmp_")
    tempfile.tempdir = base
    atexit.register(shutil.rmtree, base, True)


_scratch_base()

def newfile(**kw):
    import nixio
    d = tempfile.mkdtemp(prefix="probe_")
    return nixio.File.open(os.path.join(d, "t.nix"), nixio.FileMode.Overwrite, **kw)


def confirmed(msg, **kw):
    print("CONFIRMED: " + msg)
    print(json.dumps(kw, default=str))
    sys.exit(1)


# ---------------------------------------------------------------------------------------------------------------
def p_c10(unit, clause):
    """typed value lists: mixed lists refused everywhere, nothing changed / left behind by a refusal"""
    import nixio
    f = newfile()
    sec = f.create_section("s", "t")
    samples = {"int": [1, 2], "bool": [True, False], "float": [1.5, 2.5], "str": ["a", "b"]}
    for (ta, va), (tb, vb) in itertools.permutations(samples.items(), 2):
        mixed = [va[0], vb[0]]
        name = "p_%s_%s" % (ta, tb)
        try:
            sec.create_property(name, mixed)
            confirmed("create_property accepted a mixed list", values=mixed)
        except (TypeError, ValueError):
            pass
        if name in sec.props or len(sec.props) != 0:
            confirmed("a refused create_property left a property behind", values=mixed, props=[p.name for p in sec.props])
    for ta, va in samples.items():
        p = sec.create_property("ok_" + ta, va)
        if tuple(p.values) != tuple(va):
            confirmed("stored values differ from the given list", given=va, stored=p.values)
        for tb, vb in samples.items():
            if tb == ta:
                continue
            for bad in ([va[0], vb[0]], [vb[0]], [va[0], va[1], vb[1]]):
                for how in ("values", "extend", "setitem"):
                    before = tuple(p.values)
                    try:
                        if how == "values":
                            p.values = bad
                        elif how == "extend":
                            p.extend_values(bad)
                        else:
                            sec["ok_" + ta] = bad
                        confirmed("a value of another type was accepted", prop_type=ta, values=bad, via=how)
                    except (TypeError, ValueError):
                        pass
                    if tuple(p.values) != before:
                        confirmed("a refused assignment changed the stored values", prop_type=ta, values=bad, via=how,
                                  before=before, after=p.values)
        p.extend_values(va)
        if tuple(p.values) != tuple(va) + tuple(va):
            confirmed("extend_values is not old ++ new", old=va, new=va, stored=p.values)
    for v in ("", "x", 0, False, 0.0):
        sec["k_%r" % (v,)] = v
        got = sec.props["k_%r" % (v,)].values
        kind = lambda x: "b" if isinstance(x, (bool, np.bool_)) else "i" if isinstance(x, (int, np.integer)) else \
            "f" if isinstance(x, (float, np.floating)) else "s"
        if len(got) != 1 or got[0] != v or kind(got[0]) != kind(v):
            confirmed("a single value assigned dict-style is not stored as that one value", value=v, stored=got)
    f.close()


def p_c01(unit, clause):
    """array data: append = concatenate, refused appends change nothing, index assignment writes only the region"""
    import nixio
    f = newfile()
    b = f.create_block("b", "t")
    k = 0
    for shape in ((4,), (3, 2), (2, 3, 2), (1, 1), (1, 1, 1)):
        base = np.arange(int(np.prod(shape)), dtype=float).reshape(shape)
        k += 1
        da = b.create_data_array("a%d" % k, "t", data=base)
        if da[:].shape != base.shape or not np.array_equal(da[:], base):
            confirmed("whole-array read differs from what was stored", shape=shape, got_shape=da[:].shape)
        for axis in range(len(shape)):
            add_shape = list(shape); add_shape[axis] = 2
            add = np.full(add_shape, 7.0)
            da2 = b.create_data_array("a%d_%d" % (k, axis), "t", data=base)
            da2.append(add, axis=axis)
            want = np.concatenate([base, add], axis=axis)
            if da2.shape != want.shape or not np.array_equal(da2[:], want):
                confirmed("append is not concatenation along the axis", shape=shape, axis=axis, got=da2.shape)
            for other in range(len(shape)):
                if other == axis:
                    continue
                bad_shape = list(add_shape); bad_shape[other] += 1
                before = (da2.shape, np.array(da2[:]))
                try:
                    da2.append(np.zeros(bad_shape), axis=axis)
                    confirmed("append accepted data whose shape differs off the axis", shape=da2.shape, data=bad_shape, axis=axis)
                except (ValueError, TypeError):
                    pass
                if da2.shape != before[0] or not np.array_equal(da2[:], before[1]):
                    confirmed("a refused append changed the array", shape_before=before[0], shape_after=da2.shape,
                              data=bad_shape, axis=axis)
        da3 = b.create_data_array("w%d" % k, "t", data=base)
        da3[0] = -1.0
        want = base.copy(); want[0] = -1.0
        if not np.array_equal(da3[:], want):
            confirmed("`array[0] = x` wrote outside the addressed region", shape=shape)
        sel = tuple(slice(0, 1) for _ in shape)
        if da[sel].shape != base[sel].shape:
            confirmed("a one-element region read lost its rank", index=str(sel), got=da[sel].shape, expected=base[sel].shape)
    f.close()


def p_containers(unit, clause):
    """C03/C04/C05: lookups agree, uuid-like names, deletes, link lists"""
    import nixio
    f = newfile()
    b1 = f.create_block("b1", "t"); b2 = f.create_block("b2", "t")
    names = ["zeta", "alpha", str(uuid.uuid4()), " lead", "trail ", "mid dle"]
    arrs = [b1.create_data_array(n, "t", data=[float(i)]) for i, n in enumerate(names)]
    cont = b1.data_arrays
    if [a.name for a in cont] != names or len(cont) != len(names):
        confirmed("iteration / length do not follow creation order", got=[a.name for a in cont], expected=names)
    for i, n in enumerate(names):
        if cont[i].name != n or cont[i - len(names)].name != n or cont[n].id != arrs[i].id or cont[arrs[i].id].name != n \
                or n not in cont or arrs[i].id not in cont or arrs[i] not in cont:
            confirmed("lookups by index / name / id / membership disagree", name=n, index=i)
    for bad in (len(names), -len(names) - 1):
        try:
            cont[bad]
            confirmed("an out-of-range index was accepted", index=bad)
        except IndexError:
            pass
    try:
        b1.create_data_array("alpha", "t", data=[1.0])
        confirmed("a duplicate name was accepted")
    except nixio.exceptions.DuplicateName:
        pass
    same = b2.create_data_array("alpha", "t", data=[9.0])
    if same in cont:
        confirmed("a namesake from another block is reported as a member")
    g = b1.create_group("g", "t")
    try:
        g.data_arrays.append(same)
        confirmed("a link list accepted an entity of another block")
    except RuntimeError:
        pass
    g.data_arrays.append(arrs[1]); g.data_arrays.append(arrs[0])
    if g.data_arrays[0].id != arrs[1].id:
        confirmed("a linked entity is not the original (different id)")
    g.data_arrays[0].label = "via-link"
    if b1.data_arrays["alpha"].label != "via-link":
        confirmed("a change through a link is not visible on the original")
    del g.data_arrays[arrs[1]]
    if "alpha" not in b1.data_arrays or "g" not in b1.groups or len(g.data_arrays) != 1:
        confirmed("removing a link deleted more than the link", arrays=[a.name for a in b1.data_arrays],
                  groups=[x.name for x in b1.groups])
    g2 = b1.create_group("g2", "t"); g2.data_arrays.append(arrs[0]); g2.data_arrays.append(arrs[3])
    tag = b1.create_tag("t1", "t", [0.0]); tag.references.append(arrs[0])
    del b1.data_arrays["zeta"]
    left = [a.name for a in b1.data_arrays]
    if "zeta" in left or left != [n for n in names if n != "zeta"]:
        confirmed("delete changed the order or kept the entity", left=left)
    if len(g.data_arrays) != 0 or len(g2.data_arrays) != 1 or len(tag.references) != 0:
        confirmed("links to a deleted entity survive", g=len(g.data_arrays), g2=len(g2.data_arrays), tag=len(tag.references))
    # sources / sections: whole subtree, namesakes in different parents
    s = b1.create_source("root", "t"); c1 = s.create_source("kid", "t"); c2 = c1.create_source("kid", "t")
    arrs[4].sources.append(c2); arrs[4].sources.append(c1); arrs[4].sources.append(s); arrs[5].sources.append(c1)
    del b1.sources["root"]
    if len(arrs[4].sources) or len(arrs[5].sources) or len(b1.sources):
        confirmed("deleting a source left links to its descendants", a4=len(arrs[4].sources), a5=len(arrs[5].sources))
    top = f.create_section("top", "t"); a = top.create_section("a", "t"); bsec = top.create_section("b", "t")
    x1 = a.create_section("same", "t"); x2 = bsec.create_section("same", "t"); deep = x2.create_section("deep", "t")
    arrs[1].metadata = x2; arrs[2].metadata = deep; arrs[3].metadata = x1
    if f.sections["top"].sections["b"].sections["same"].parent.name != "b":
        confirmed("Section.parent returns a namesake's parent")
    del f.sections["top"]
    for arr in (arrs[1], arrs[2], arrs[3]):
        if arr.metadata is not None:
            confirmed("a metadata link to a deleted section survives", array=arr.name)
    src2 = b1.create_source("lonely", "t"); meta = f.create_section("m", "t"); src2.metadata = meta
    del src2.metadata
    if "lonely" not in b1.sources or "m" not in f.sections:
        confirmed("clearing a metadata link deleted an entity")
    f.close()


def p_c14(unit, clause):
    """validation: each catalogue entry iff its condition"""
    import nixio
    from nixio import validator as v
    f = newfile()
    b = f.create_block("b", "t")
    k = 0
    for ticks, expect_unsorted in (([1.0, 2.0, 3.0], False), ([1.0, 2.0, 2.0], True), ([1.0, 3.0, 2.0], True),
                                   ([1.0, 2.0, 3.0, 4.0, 3.5], True), ([2.0, 1.0], True), ([1.0], False)):
        k += 1
        da = b.create_data_array("r%d" % k, "t", data=np.zeros(len(ticks)))
        da.append_range_dimension(ticks=[1.0])
        dim = da.dimensions[0]
        dim._h5group.write_data("ticks", ticks)
        errs, _ = v.check_range_dimension(dim, 1)
        has = v.ValidationError.UnsortedTicks.format(1) in errs
        if has != expect_unsorted:
            confirmed("UnsortedTicks is not reported exactly for non-increasing ticks", ticks=ticks, reported=has)
    for tag_units, ref_units, ok in ((["ms"], [["s"]], True), (["mV"], [["s"]], False), ([""], [[""]], True),
                                     (["S"], [["s"]], False), (["ms", ""], [["s", "V"]], False), (["", "mV"], [["", "V"]], True)):
        got = v.tag_units_match_refs_units(tag_units, ref_units)
        if bool(got) != ok:
            confirmed("unit compatibility of a tag with its references is misjudged", tag_units=tag_units, ref_units=ref_units,
                      got=got)
    k = 0
    for si, unit, off, want_e, want_w in ((0.5, "ms", None, [], []), (None, "ms", None, ["NoSamplingInterval"], []),
                                          (-1.0, "ms", None, ["InvalidSamplingInterval"], []),
                                          (0.5, "foo", None, ["InvalidDimensionUnit"], []), (0.5, None, 1.0, [], ["OffsetNoUnit"])):
        k += 1
        da = b.create_data_array("s%d" % k, "t", data=np.zeros(3))
        dim = da.append_sampled_dimension(0.5)
        dim._h5group.set_attr("sampling_interval", si); dim._h5group.set_attr("unit", unit); dim._h5group.set_attr("offset", off)
        errs, warns = v.check_sampled_dimension(dim, 1)
        exp_e = sorted(getattr(v.ValidationError, n).format(1) for n in want_e)
        exp_w = sorted(getattr(v.ValidationWarning, n).format(1) for n in want_w)
        if sorted(errs) != exp_e or sorted(warns) != exp_w:
            confirmed("check_sampled_dimension reports the wrong entries", interval=si, unit=unit, offset=off, errors=errs,
                      warnings=warns)
    f.close()


def p_c19(unit, clause):
    """timestamps: adding a dimension / setting attributes moves updated_at iff auto; created_at never"""
    import nixio
    for auto in (True, False):
        f = newfile(auto_update_timestamps=auto)
        b = f.create_block("b", "t")
        k = 0
        for how in ("set", "set_labels", "range", "range_ticks", "sampled", "label", "unit", "definition"):
            k += 1
            da = b.create_data_array("a%d" % k, "t", data=[[1.0, 2.0], [3.0, 4.0]])
            da.force_updated_at(1000); da.force_created_at(900)
            if how == "set": da.append_set_dimension()
            elif how == "set_labels": da.append_set_dimension(["a", "b"])
            elif how == "range": da.append_range_dimension()
            elif how == "range_ticks": da.append_range_dimension(ticks=[1.0, 2.0])
            elif how == "sampled": da.append_sampled_dimension(0.5)
            elif how == "label": da.label = "x"
            elif how == "unit": da.unit = "mV"
            else: da.definition = "d"
            moved = da.updated_at != 1000
            if moved != auto:
                confirmed("update time does not follow the change exactly when automatic timestamps are on", operation=how,
                          auto=auto, moved=moved)
            if da.created_at != 900:
                confirmed("creation time changed as a side effect", operation=how)
        for t in (0, 1, 86399, 86400, 951782400, 1609459199, 1609459200, 4102444799):
            b.force_created_at(t)
            if b.created_at != t:
                confirmed("forcing a timestamp and reading it back differs", forced=t, read=b.created_at)
        f.close()


def p_c20(unit, clause):
    """copies: name handling, the handle returned denotes the copy, fresh ids for every object when requested"""
    import nixio
    f = newfile()
    b = f.create_block("orig", "t"); da = b.create_data_array("a", "t", data=[1.0])
    sec = f.create_section("s", "t"); sec.create_property("p", [1, 2]); sub = sec.create_section("sub", "t"); sub.create_property("q", ["x"])
    c = f.create_block(name="copy", copy_from=b)
    if c.name != "copy":
        confirmed("the handle returned by a copy denotes the original", returned=c.name)
    try:
        f.create_block(copy_from=b)
        confirmed("copying onto an existing name was accepted")
    except NameError:
        pass
    c2 = f.copy_section(sec, keep_id=False, name="s2")
    ids_src = {sec.id, sub.id, sec.props["p"].id, sub.props["q"].id}
    ids_cp = {c2.id, c2.sections["sub"].id, c2.props["p"].id, c2.sections["sub"].props["q"].id}
    if ids_src & ids_cp:
        confirmed("keep_id=False left an id shared between source and copy", shared=sorted(ids_src & ids_cp))
    f.close()


PROBES = {"C10": p_c10, "C01": p_c01, "C06": p_c01, "C03": p_containers, "C04": p_containers, "C05": p_containers,
          "C13": p_containers, "C14": p_c14, "C19": p_c19, "C20": p_c20}


def main():
    prop, unit, clause, repo = sys.argv[1], sys.argv[2], sys.argv[3], sys.argv[4]
    import nixio
    if not os.path.abspath(nixio.__file__).startswith(os.path.abspath(repo)):
        print("probe: nixio resolves to %s, not to %s" % (nixio.__file__, repo))
        sys.exit(3)
    fn = PROBES.get(prop)
    if fn is None:
        print("NO-PROBE for %s" % prop)
        sys.exit(0)
    fn(unit, clause)
    print("NOT-REPRODUCED: every scenario of the %s battery behaves as the property says" % prop)
    sys.exit(0)


if __name__ == "__main__":
    main()
