#!/usr/bin/env python3
"""Run the registered check of each seeded change against a scratch worktree of /repo with the change applied.

usage: tools_sweep.py [--wt NAME] [--jobs N] [--also PROP ...] <seeded-id ...|all|claimed>
Records, per seeded id, the exit code and the VIOLATION lines in seeded/RESULTS.json (merged with what is there).
The worktree (/tmp/wt/<NAME>) is created from /repo's HEAD and removed afterwards. Nothing in /repo is touched.
"""
import argparse
import json
import os
import subprocess
import sys
import time

ROOT = os.path.dirname(os.path.abspath(__file__))


def sh(*a, **k):
    return subprocess.run(a, capture_output=True, text=True, **k)


def main():
    ap = argparse.ArgumentParser()
    ap.add_argument("ids", nargs="+")
    ap.add_argument("--wt", default="sweep")
    ap.add_argument("--jobs", default="16")
    ap.add_argument("--also", nargs="*", default=[], help="additional property checks to run on every change")
    args = ap.parse_args()
    man = json.load(open(os.path.join(ROOT, "MANIFEST.json")))
    claimed = {c["property_id"] for c in man["checks"]}
    ids = args.ids
    if ids == ["all"] or ids == ["claimed"]:
        allids = sorted(d for d in os.listdir(os.path.join(ROOT, "seeded")) if os.path.isdir(os.path.join(ROOT, "seeded", d)))
        ids = [d for d in allids if args.ids == ["all"] or d.split("-")[0] in claimed]
    wt = "/tmp/wt/" + args.wt
    os.makedirs("/tmp/wt", exist_ok=True)
    sh("git", "-C", "/repo", "worktree", "remove", "--force", wt)
    r = sh("git", "-C", "/repo", "worktree", "add", "-q", "--detach", wt, "HEAD")
    if r.returncode:
        print(r.stderr)
        return 9
    respath = os.path.join(ROOT, "seeded", "RESULTS.json")
    try:
        for sid in ids:
            prop = sid.split("-")[0]
            patch = os.path.join(ROOT, "seeded", sid, "patch.diff")
            sh("git", "-C", wt, "checkout", "-q", "--", ".")
            r = sh("git", "-C", wt, "apply", "-C1", patch)
            if r.returncode:
                print(sid, "PATCH DOES NOT APPLY", r.stderr[:200])
                continue
            out = {}
            for pr in [prop] + [a for a in args.also if a != prop]:
                if pr not in claimed:
                    out[pr] = dict(rc=None, note="property not claimed (no check)")
                    continue
                t0 = time.time()
                r = sh(os.path.join(ROOT, "check"), pr, "--tier", "quick", "--repo", wt, "--jobs", args.jobs, cwd=ROOT)
                lines = [l for l in r.stdout.splitlines() if l.startswith(("VIOLATION", "UNDECIDED", "CHECKER-ERROR", "KNOWN-FINDING"))]
                out[pr] = dict(rc=r.returncode, lines=[l[:400] for l in lines][:12], wall=round(time.time() - t0, 1),
                               summary=r.stdout.strip().splitlines()[-1] if r.stdout.strip() else r.stderr[-300:])
                print(sid, pr, "rc=%s" % r.returncode, "%.0fs" % (time.time() - t0), flush=True)
                for l in lines[:6]:
                    print("    ", l[:300], flush=True)
            res = json.load(open(respath)) if os.path.exists(respath) else {}
            res[sid] = dict(head=sh("git", "-C", "/repo", "rev-parse", "--short", "HEAD").stdout.strip(),
                            verif=sh("git", "-C", ROOT, "rev-parse", "--short", "HEAD").stdout.strip(), checks=out,
                            detected=any(v.get("rc") == 1 for v in out.values()))
            json.dump(res, open(respath, "w"), indent=1, sort_keys=True)
    finally:
        sh("git", "-C", wt, "checkout", "-q", "--", ".")
        sh("git", "-C", "/repo", "worktree", "remove", "--force", wt)
    return 0


if __name__ == "__main__":
    sys.exit(main())
