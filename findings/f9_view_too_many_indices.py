"""C06 finding F9: an index tuple with more entries than the view has dimensions was silently truncated
(NumPy raises IndexError). Exit 1 + CONFIRMED if present."""
import os, sys, tempfile
import numpy as np
import nixio

d = tempfile.mkdtemp()
f = nixio.File.open(os.path.join(d, "t.nix"), nixio.FileMode.Overwrite)
b = f.create_block("b", "t")
data = np.arange(24.0).reshape(4, 6)
da = b.create_data_array("a", "t", data=data)
v = da.get_slice([1, 1], [3, 4])
bad = []
for idx in [(0, 0, 0), (1, slice(None), 2), (Ellipsis, 0, 0, 0)]:
    try:
        ref = data[1:4, 1:5][idx]
        ref = "numpy gives %r" % (ref,)
    except IndexError:
        ref = IndexError
    try:
        got = np.array(v[idx]).tolist()
    except IndexError:
        got = IndexError
    if ref is IndexError and got is not IndexError:
        bad.append((idx, got))
f.close()
if bad:
    print("CONFIRMED: over-long index accepted (NumPy: IndexError):", bad)
    sys.exit(1)
print("OK")
