"""C07 finding F15: SetDimension.index_of(p, Less) for 0 < p <= 1e-8 returned -1 (not a sample index)
instead of raising IndexError / returning 0. Exit 1 + CONFIRMED if present."""
import os, sys, tempfile
import numpy as np
import nixio
from nixio.dimensions import IndexMode

d = tempfile.mkdtemp()
f = nixio.File.open(os.path.join(d, "t.nix"), nixio.FileMode.Overwrite)
b = f.create_block("b", "t")
da = b.create_data_array("a", "t", data=np.arange(5.0))
dim = da.append_set_dimension(["a", "b", "c", "d", "e"])
bad = []
for p in (1e-12, 1e-9):
    try:
        r = dim.index_of(p, IndexMode.Less)
        if r < 0:
            bad.append((p, r))
    except IndexError:
        pass
f.close()
if bad:
    print("CONFIRMED: index_of(p, Less) returned a negative index:", bad)
    sys.exit(1)
print("OK")
