import nixio, tempfile, os
d = tempfile.mkdtemp(); f = nixio.File.open(os.path.join(d, "t.nix"), nixio.FileMode.Overwrite)
b1 = f.create_block("b1", "t"); b2 = f.create_block("b2", "t")
t = b1.create_tag("t", "t", [0.0]); foreign = b2.create_data_array("a", "t", data=[1.0]); own = b1.create_data_array("a", "t", data=[1.0])
try:
    t.create_feature(foreign, nixio.LinkType.Untagged); print("accepted?!"); rc = 1
except RuntimeError:
    rc = 0
print("features after the refused create_feature:", len(t.features)); rc |= (len(t.features) != 0)
t.create_feature(own, nixio.LinkType.Untagged); print("then a valid one:", len(t.features)); rc |= (len(t.features) != 1)
f.close(); raise SystemExit(rc)
