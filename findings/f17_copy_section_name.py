import nixio, tempfile, os
d = tempfile.mkdtemp(); f = nixio.File.open(os.path.join(d, "t.nix"), nixio.FileMode.Overwrite)
sec = f.create_section("src", "t"); sec.create_property("p", [1, 2]); sub = sec.create_section("sub", "t")
bad = 0
c = f.copy_section(sec, keep_id=False, name="cp")
print("returned:", c.name, "(expected 'cp'); fresh id:", c.id != sec.id); bad |= (c.name != "cp" or c.id == sec.id)
try:
    f.copy_section(sec, name="cp"); print("existing destination name accepted"); bad = 1
except NameError:
    print("existing destination name refused")
print("root groups:", sorted(f._h5file.keys())); bad |= ("sections" in f._h5file)
c2 = f.copy_section(sec, children=False, name="flat")
print("non-recursive copy:", c2.name, [p.name for p in c2.props], len(c2.sections)); bad |= (c2.name != "flat" or [p.name for p in c2.props] != ["p"])
f.close(); raise SystemExit(int(bad))
# same for Section.copy_section
import nixio, tempfile, os
d = tempfile.mkdtemp(); f = nixio.File.open(os.path.join(d, "t2.nix"), nixio.FileMode.Overwrite)
src = f.create_section("src", "t"); src.create_property("p", [1]); dest = f.create_section("dest", "t")
c = dest.copy_section(src, children=False, name="flat")
ok = c.name == "flat" and [p.name for p in c.props] == ["p"]
print("Section.copy_section non-recursive under a new name:", ok)
f.close(); raise SystemExit(0 if ok else 1)
