import nixio, tempfile, os
d = tempfile.mkdtemp(); f = nixio.File.open(os.path.join(d, "t.nix"), nixio.FileMode.Overwrite)
b = f.create_block("orig", "t"); da = b.create_data_array("a", "t", data=[1.0])
c = f.create_block(name="copy", copy_from=b)           # same file, ids kept (default)
print("returned block name:", c.name, "(expected 'copy')")
bad = c.name != "copy"
da2 = b.create_data_array(name="a_copy", copy_from=da)
print("returned array name:", da2.name, "(expected 'a_copy')")
bad |= da2.name != "a_copy"
f.close(); raise SystemExit(int(bad))
