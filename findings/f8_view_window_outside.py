"""C06 finding F8: a view window with a negative start (or stop < start) was accepted as valid and yielded
other elements than the requested region. Exit 1 + CONFIRMED if present."""
import os, sys, tempfile
import numpy as np
import nixio

d = tempfile.mkdtemp()
f = nixio.File.open(os.path.join(d, "t.nix"), nixio.FileMode.Overwrite)
b = f.create_block("b", "t")
da = b.create_data_array("a", "t", data=np.arange(10.0))
bad = []
for pos, ext in [(-3, 12), (-3, 5), (-1, 1), (-20, 25)]:
    v = da.get_slice([pos], [ext])      # window [pos, pos+ext) starts before the array
    if v.valid:
        try:
            got = np.array(v[:]).tolist()
        except Exception as e:          # noqa
            got = "raises %s: %s" % (type(e).__name__, e)
        bad.append((pos, ext, v.data_extent, got))
f.close()
if bad:
    print("CONFIRMED: windows outside the array accepted as valid:", bad)
    sys.exit(1)
print("OK")
