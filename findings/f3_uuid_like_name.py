import nixio, tempfile, os, uuid
d = tempfile.mkdtemp(); f = nixio.File.open(os.path.join(d, "t.nix"), nixio.FileMode.Overwrite)
b = f.create_block("b", "t")
nm = str(uuid.uuid4())
da = b.create_data_array(nm, "t", data=[1.0, 2.0])
print("id != name:", da.id != nm)
bad = 0
try:
    print("by name:", b.data_arrays[nm].name == nm)
except KeyError as e:
    print("LOOKUP BY NAME FAILED", e); bad = 1
print("name in container:", nm in b.data_arrays)
bad |= (nm not in b.data_arrays)
try:
    del b.data_arrays[nm]; print("deleted; len", len(b.data_arrays))
except KeyError as e:
    print("DELETE BY NAME FAILED", e); bad = 1
f.close()
raise SystemExit(bad)
