"""C09 known finding F2c: units.sanitizer is not idempotent (recorded, not repaired)."""
import sys
from nixio.util import units
bad = [(s, units.sanitizer(s), units.sanitizer(units.sanitizer(s))) for s in ["mμ", "mmu", "m u", "mµV"]
       if units.sanitizer(units.sanitizer(s)) != units.sanitizer(s)]
if bad:
    print("CONFIRMED (known finding):", bad)
    sys.exit(1)
print("OK")
