"""C16/C20 finding F11: np.string_ no longer exists in NumPy 2: no data frame could be created and copies with
fresh ids (keep_copy_id=False) crashed after the copy had been made. Exit 1 + CONFIRMED if present."""
import os, sys, tempfile
import numpy as np
import nixio

d = tempfile.mkdtemp()
f = nixio.File.open(os.path.join(d, "t.nix"), nixio.FileMode.Overwrite)
b = f.create_block("b", "t")
bad = []
try:
    b.create_data_frame("df", "t", col_dict={"a": int, "n": str}, data=[(1, "x"), (2, "y")])
except AttributeError as e:
    bad.append(("create_data_frame", str(e)))
da = b.create_data_array("a", "t", data=np.arange(3.0))
try:
    b2 = f.create_block("b2", "t")
    c = b2.create_data_array(copy_from=da, keep_copy_id=False)
    if c.id == da.id:
        bad.append(("copy keep_copy_id=False", "id not regenerated"))
except AttributeError as e:
    bad.append(("copy keep_copy_id=False", str(e), "copy left behind: %s" % ("a" in b2.data_arrays)))
f.close()
if bad:
    print("CONFIRMED:", bad)
    sys.exit(1)
print("OK")
