"""C20 / C04: deleting a copy that was made with kept ids (the default) also deleted the original - the sweep went by id."""
import nixio, tempfile, os
d = tempfile.mkdtemp(); f = nixio.File.open(os.path.join(d, "t.nix"), nixio.FileMode.Overwrite)
b1 = f.create_block("b1", "t"); a = b1.create_data_array("a", "t", data=[1, 2, 3])
f.create_block(name="b2", copy_from=b1)                 # same file, ids kept (default)
del f.blocks["b2"]
print("blocks after deleting the copy:", [b.name for b in f.blocks], "(expected ['b1'])")
bad = [b.name for b in f.blocks] != ["b1"]
b3 = f.create_block("b3", "t"); x = b3.create_data_array("x", "t", data=[1]); b3.create_data_array(name="x2", copy_from=x)
del b3.data_arrays["x2"]
print("arrays after deleting the copied array:", [y.name for y in b3.data_arrays], "(expected ['x'])")
bad |= [y.name for y in b3.data_arrays] != ["x"]
f.close(); raise SystemExit(int(bad))
