import nixio, tempfile, os, numpy as np
d = tempfile.mkdtemp(); f = nixio.File.open(os.path.join(d, "t.nix"), nixio.FileMode.Overwrite)
b = f.create_block("b", "t")
df = b.create_data_frame("df", "t", col_dict={"a": int, "b": float}, data=[(1, 1.0), (2, 2.0)])
try:
    df.write_column([7, 8], index=0)
    print("ok", df.read_columns(index=[0]))
except ValueError as e:
    print("REFUSED:", e)
df.write_column([5.0, 6.0], index=1); print(df.read_columns(index=[1]))
f.close()
