"""C09 finding F2b: split() of a prefixed mol / Sv / Wb without power took a shorter unit alternative
(split('mSv') == ('m', 'S', '')), so e.g. scalable('mSv', 'Sv') was False. Exit 1 + CONFIRMED if present."""
import sys
from nixio.util import units
bad = []
for p in ["m", "k", "u", "da"]:
    for u in ["mol", "Sv", "Wb"]:
        got = units.split(p + u)
        if got != (p, u, ""):
            bad.append((p + u, got))
if not units.scalable("mSv", "Sv"):
    bad.append(("scalable('mSv','Sv')", False))
if bad:
    print("CONFIRMED:", bad)
    sys.exit(1)
print("OK")
