"""C12 / C02: after a refused creation on an emptied container, live handles and fresh handles must agree (they did not: the roll-back removed the container group)."""
import nixio, tempfile, os, numpy as np
d = tempfile.mkdtemp(); f = nixio.File.open(os.path.join(d, "t.nix"), nixio.FileMode.Overwrite)
b = f.create_block("b", "t"); a = b.create_data_array("a", "t", data=[1.0, 2.0]); a.append_set_dimension(["x", "y"])
bad = False
print("dims", len(a.dimensions)); a.delete_dimensions(); print("dims after delete", len(a.dimensions))
try: a.append_range_dimension(ticks=[3.0, 1.0])
except Exception as e: print("refused", type(e).__name__)
a.append_set_dimension(["x", "y"]); n_same = len(a.dimensions); n_fresh = len(b.data_arrays["a"].dimensions)
print("same handle:", n_same, "fresh handle:", n_fresh); bad |= n_same != n_fresh
cont = b.data_arrays; del cont["a"]; print("arrays", len(cont))
try: b.create_data_array("z", "t", data=[1.0], unit=5)
except Exception as e: print("refused", type(e).__name__)
b.create_data_array("ok", "t", data=[1.0]); print("same container:", len(cont), "fresh:", len(f.blocks["b"].data_arrays)); bad |= len(cont) != len(f.blocks["b"].data_arrays)
tg = b.tags; b.create_tag("t1", "t", [0.0]); del tg["t1"]
try: b.create_tag("t2", "t", ["a"])
except Exception as e: print("refused", type(e).__name__)
b.create_tag("t3", "t", [1.0]); print("same container:", len(tg), "fresh:", len(f.blocks["b"].tags)); bad |= len(tg) != len(f.blocks["b"].tags)
f.close(); raise SystemExit(int(bad))
