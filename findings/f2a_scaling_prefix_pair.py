"""C09 finding F2a: scaling() between two *different* prefixes returned 1.0 (the prefix/prefix branch tested
'not org_prefix and not dest_prefix'). Exit 1 + CONFIRMED if present."""
import sys
from nixio.util import units
bad = []
for a, b, want in [("mV", "kV", 1e-6), ("kHz", "mHz", 1e6), ("ms", "us", 1e3), ("mV^2", "uV^2", 1e6)]:
    got = units.scaling(a, b)
    if abs(got / want - 1) > 1e-9:
        bad.append((a, b, got, want))
if bad:
    print("CONFIRMED: wrong prefix-to-prefix factors (origin, destination, got, expected):", bad)
    sys.exit(1)
print("OK")
