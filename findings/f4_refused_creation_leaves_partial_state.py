import nixio, tempfile, os, numpy as np, sys
sys.path.insert(0, "/verif/replay")
import bounded as B
d = tempfile.mkdtemp(); f = nixio.File.open(os.path.join(d, "t.nix"), nixio.FileMode.Overwrite)
b = f.create_block("b", "t"); a = b.create_data_array("a", "t", data=np.zeros((2, 3))); sec = f.create_section("s", "t")
cases = [("create_data_array unit=5", lambda: b.create_data_array("x1", "t", data=[1.0], unit=5)),
         ("create_data_array label=5", lambda: b.create_data_array("x2", "t", data=[1.0], label=5)),
         ("create_data_array dtype/data mismatch", lambda: b.create_data_array("x3", "t", dtype=np.int32, data=["a"])),
         ("create_data_array bad dtype", lambda: b.create_data_array("x4", "t", dtype="nonsense", shape=(2,))),
         ("create_tag non-numeric position", lambda: b.create_tag("x5", "t", ["a"])),
         ("append non-convertible", lambda: a.append(np.array([["a", "b", "c"]]))),
         ("append_range_dimension unsorted ticks", lambda: a.append_range_dimension(ticks=[3.0, 1.0])),
         ("append_range_dimension bad unit type", lambda: a.append_range_dimension(ticks=[1.0, 2.0], unit=5)),
         ("append_sampled_dimension bad interval", lambda: a.append_sampled_dimension("x")),
         ("append_sampled_dimension bad unit", lambda: a.append_sampled_dimension(1.0, unit=5)),
         ("append_set_dimension bad labels", lambda: a.append_set_dimension(labels=5)),
         ("create_section empty type", lambda: f.create_section("x6", "")),
         ("create_property bad unit?", lambda: sec.create_property("p", [1]).__setattr__("unit", 5)),
         ]
rc = 0
for name, call in cases:
    before = B.walk_file(f)
    try:
        call(); print("%-45s ACCEPTED" % name); continue
    except Exception as e:
        err = type(e).__name__
    r = B.diff(before, B.walk_file(f))
    print("%-45s refused (%s): %s" % (name, err, "file unchanged" if r is None else "FILE CHANGED: " + r))
    rc |= (r is not None)
f.close(); raise SystemExit(rc)
