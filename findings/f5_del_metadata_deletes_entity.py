import nixio, tempfile, os
d = tempfile.mkdtemp(); f = nixio.File.open(os.path.join(d, "t.nix"), nixio.FileMode.Overwrite)
sec = f.create_section("meta", "t")
b = f.create_block("b", "t"); src = b.create_source("s", "t"); grp = b.create_group("g", "t")
bad = 0
for ent, cont, nm in ((src, b.sources, "s"), (grp, b.groups, "g")):
    ent.metadata = sec
    del ent.metadata                      # clearing the link must not delete the entity
    ok = nm in cont and len(cont) == 1 and "meta" in f.sections
    print(type(ent).__name__, "still there after `del .metadata`:", ok); bad |= (not ok)
f.close(); raise SystemExit(int(bad))
