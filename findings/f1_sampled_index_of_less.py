"""C07 finding F1: SampledDimension.index_of(position, Less) tested the *position* against 0 instead of the
scaled position: with an offset it raised although earlier samples exist, or returned -1.
Exit 1 + CONFIRMED if present."""
import os, sys, tempfile
import numpy as np
import nixio
from nixio.dimensions import IndexMode, SliceMode

d = tempfile.mkdtemp()
f = nixio.File.open(os.path.join(d, "t.nix"), nixio.FileMode.Overwrite)
b = f.create_block("b", "t")
da = b.create_data_array("a", "t", data=np.arange(20.0))
bad = []
dim = da.append_sampled_dimension(1.0, offset=-5.0)       # samples at -5, -4, ..., 14
try:
    r = dim.index_of(0.0, IndexMode.Less)                 # last sample strictly before 0 is index 4 (-1.0)
    if r != 4:
        bad.append(("offset -5, index_of(0, Less)", r, "expected 4"))
except IndexError as e:
    bad.append(("offset -5, index_of(0, Less)", "IndexError", "expected 4"))
if dim.range_indices(-2.0, 0.0, SliceMode.Exclusive) != (3, 4):
    bad.append(("offset -5, range_indices(-2, 0, Exclusive)", dim.range_indices(-2.0, 0.0, SliceMode.Exclusive), "expected (3, 4)"))
da2 = b.create_data_array("a2", "t", data=np.arange(20.0))
dim2 = da2.append_sampled_dimension(1.0, offset=3.0)      # samples at 3, 4, ...
try:
    r = dim2.index_of(3.0, IndexMode.Less)                # no sample strictly before 3.0
    bad.append(("offset 3, index_of(3, Less)", r, "expected IndexError"))
except IndexError:
    pass
f.close()
if bad:
    print("CONFIRMED:", bad)
    sys.exit(1)
print("OK")
