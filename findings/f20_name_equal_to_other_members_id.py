"""C03 / C20: a block created without a name is named after its id; two kept-id copies of it in another file (one under a
new name) made lookup by NAME return the other member, and the second copy handed back a handle to the first."""
import nixio, tempfile, os
d = tempfile.mkdtemp()
src = nixio.File.open(os.path.join(d, "s.nix"), nixio.FileMode.Overwrite); dst = nixio.File.open(os.path.join(d, "d.nix"), nixio.FileMode.Overwrite)
anon = src.create_block("", "t"); nm = anon.name
dst.create_block(name="backup", copy_from=anon); c2 = dst.create_block(copy_from=anon)
print("second copy returned:", c2.name, "(expected %s)" % nm)
print("lookup by name returned:", dst.blocks[nm].name, "(expected %s)" % nm)
bad = c2.name != nm or dst.blocks[nm].name != nm
src.close(); dst.close(); raise SystemExit(int(bad))
