"""C16: rows can still be appended after a column was appended (they could not: append_column re-created the table unchunked)."""
import nixio, tempfile, os
d = tempfile.mkdtemp(); f = nixio.File.open(os.path.join(d, "t.nix"), nixio.FileMode.Overwrite)
b = f.create_block("b", "t"); df = b.create_data_frame("frame", "t", col_dict={"c0": float, "c1": int}, data=[(1.0, 2), (3.0, 4)])
df.append_rows([(5.0, 6)]); print("rows:", len(df))
df.append_column([0.5, 0.6, 0.7], "c2", float); print("columns:", df.column_names)
bad = False
try:
    df.append_rows([(9.0, 9, 9.5)]); print("rows after:", len(df))
except Exception as e:
    print("append_rows after append_column REFUSED:", repr(e)); bad = True
f.close(); raise SystemExit(int(bad))
