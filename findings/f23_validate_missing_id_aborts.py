"""C14 (known finding, not repaired): an entity without entity_id makes validate() abort instead of reporting 'no ID set'."""
import nixio, tempfile, os
d = tempfile.mkdtemp(); f = nixio.File.open(os.path.join(d, "t.nix"), nixio.FileMode.Overwrite)
b = f.create_block("b", "t"); s = b.create_source("src", "t")
del s._h5group.group.attrs["entity_id"]
try:
    res = f.validate()
    errs = {getattr(k, "name", "file"): v for k, v in res["errors"].items()}
    print("reported:", errs); bad = errs.get("src") != ["no ID set"]
except Exception as e:
    print("validate() aborted:", repr(e)); bad = True
f.close(); raise SystemExit(int(bad))
