"""C20: a sub-section can be copied whichever way its handle was obtained (it was refused for fetched handles and for parents without properties)."""
import nixio, tempfile, os
d = tempfile.mkdtemp(); f = nixio.File.open(os.path.join(d, "t.nix"), nixio.FileMode.Overwrite)
top = f.create_section("top", "t"); sub = top.create_section("sub", "t"); sub.create_property("n", [1]); dest = f.create_section("dest", "t")
top2 = f.create_section("top2", "t"); top2.create_property("p", [1]); sub2 = top2.create_section("sub2", "t")
bad = False
for label, obj in (("created handle, parent without properties", sub), ("fetched handle", f.sections["top"].sections["sub"]),
                   ("created handle, parent with properties", sub2), ("fetched handle, parent with properties", f.sections["top2"].sections["sub2"])):
    for where, target in (("file", f), ("section", dest)):
        try:
            c = target.copy_section(obj, name="cp_%d" % (len(f.sections) + len(dest.sections)))
            print(label, "->", where, "ok", c.name)
        except Exception as e:
            print(label, "->", where, "REFUSED", repr(e)[:100]); bad = True
f.close(); raise SystemExit(int(bad))
