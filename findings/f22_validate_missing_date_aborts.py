"""C14: an entity without a stored creation time made validate() abort with TypeError instead of reporting 'date is not set'."""
import nixio, tempfile, os
d = tempfile.mkdtemp(); f = nixio.File.open(os.path.join(d, "t.nix"), nixio.FileMode.Overwrite)
b = f.create_block("b", "t"); g = b.create_group("grp", "t")
del g._h5group.group.attrs["created_at"]
try:
    res = f.validate()
    errs = {getattr(k, "name", "file"): v for k, v in res["errors"].items()}
    print("reported:", errs); bad = errs != {"grp": ["date is not set"]}
except Exception as e:
    print("validate() aborted:", repr(e)); bad = True
f.close(); raise SystemExit(int(bad))
