"""C02 (known finding, not repaired): a live handle whose link list was emptied and refilled through another handle shows it empty."""
import nixio, tempfile, os
d = tempfile.mkdtemp(); path = os.path.join(d, "t.nix"); f = nixio.File.open(path, nixio.FileMode.Overwrite)
b = f.create_block("b", "t"); a1 = b.create_data_array("a1", "t", data=[1.0]); a2 = b.create_data_array("a2", "t", data=[2.0])
g = b.create_group("g", "t"); g.data_arrays.append(a1)
old = b.groups["g"]; print("old handle sees:", [x.name for x in old.data_arrays])
other = b.groups["g"]; del other.data_arrays[a1]; other.data_arrays.append(a2)
seen_old = [x.name for x in old.data_arrays]; seen_fresh = [x.name for x in b.groups["g"].data_arrays]
print("old handle:", seen_old, " fresh handle:", seen_fresh)
f.close(); f = nixio.File.open(path, nixio.FileMode.ReadOnly); print("after reopen:", [x.name for x in f.blocks["b"].groups["g"].data_arrays]); f.close()
raise SystemExit(int(seen_old != seen_fresh))
