import nixio, tempfile, os, time
d = tempfile.mkdtemp(); f = nixio.File.open(os.path.join(d, "t.nix"), nixio.FileMode.Overwrite)
b = f.create_block("b", "t")
bad = 0
for how in ("set", "using_self"):
    da = b.create_data_array("a_" + how, "t", data=[[1.0, 2.0], [3.0, 4.0]])
    da.force_updated_at(1000)
    if how == "set": da.append_set_dimension()
    else: da.append_range_dimension_using_self([-1, 0])
    moved = da.updated_at != 1000
    print(how, "-> array update time follows the change:", moved); bad |= (not moved)
f.close(); raise SystemExit(int(bad))
