import nixio, tempfile, os
d = tempfile.mkdtemp(); f = nixio.File.open(os.path.join(d, "t.nix"), nixio.FileMode.Overwrite)
b1 = f.create_block("b1", "t"); b2 = f.create_block("b2", "t")
a1 = b1.create_data_array("same", "t", data=[1.0]); a2 = b2.create_data_array("same", "t", data=[2.0])
g1 = b1.create_group("g", "t")
bad = 0
print("foreign array 'in' block 1 container:", a2 in b1.data_arrays)
bad |= (a2 in b1.data_arrays)
try:
    g1.data_arrays.append(a2)      # array of ANOTHER block
    print("ACCEPTED foreign array; group now links id", [x.id for x in g1.data_arrays], "a1", a1.id, "a2", a2.id); bad = 1
except RuntimeError as e:
    print("refused:", e)
# parent of a section with a namesake elsewhere (F10)
s1 = f.create_section("s1", "t"); s2 = f.create_section("s2", "t")
c1 = s1.create_section("child", "t"); c2 = s2.create_section("child", "t")
h = f.sections["s2"].sections["child"]     # fresh handle, no cached parent
print("parent of s2/child:", h.parent.name)
bad |= (h.parent.name != "s2")
f.close()
raise SystemExit(bad)
