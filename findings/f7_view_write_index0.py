"""C06 finding F7: assigning through a view with a falsy index (0, (), ...) overwrote the whole window.
Exit 1 + CONFIRMED if the defect is present."""
import os, sys, tempfile
import numpy as np
import nixio

d = tempfile.mkdtemp()
f = nixio.File.open(os.path.join(d, "t.nix"), nixio.FileMode.Overwrite)
b = f.create_block("b", "t")
da = b.create_data_array("a", "t", data=np.arange(10.0))
v = da.get_slice([2], [5])
ref = np.arange(10.0)
ref[2:7][0] = 100.0
v[0] = 100.0
got = da[:]
f.close()
if not np.array_equal(got, ref):
    print("CONFIRMED: view[0] = 100 gave", got.tolist(), "expected", ref.tolist())
    sys.exit(1)
print("OK")
