import nixio, tempfile, os
d = tempfile.mkdtemp(); f = nixio.File.open(os.path.join(d, "t.nix"), nixio.FileMode.Overwrite)
b = f.create_block("b", "t")
da = b.create_data_array("a", "t", data=[[1.0, 2.0], [3.0, 4.0]])
other = b.create_data_array("o", "t", data=[[1.0, 2.0, 3.0], [3.0, 4.0, 5.0]])
rd = da.append_range_dimension(ticks=[0.5, 1.5])
bad = 0
try:
    rd.link_data_array(other, [0, 0])          # invalid index (no -1): must be refused ...
    print("accepted?!"); bad = 1
except ValueError:
    pass
t = rd.ticks                                     # ... and leave the dimension as it was
print("ticks after refused link_data_array:", t)
bad |= (t is None or list(t) != [0.5, 1.5])
f.close(); raise SystemExit(int(bad))
