"""C20: Section.copy_section(children=False) copied the sub-sections anyway (deep HDF5 copy) and was then refused with
NameError when re-adding the properties; also create_property(copy_from=, keep_copy_id=False) crashed after copying."""
import nixio, tempfile, os
d = tempfile.mkdtemp(); f = nixio.File.open(os.path.join(d, "t.nix"), nixio.FileMode.Overwrite)
sec = f.create_section("sess", "t"); sec.create_property("n", [1]); sec.create_section("sub", "t"); dest = f.create_section("other", "t")
bad = False
try:
    c = dest.copy_section(sec, children=False, name="flat")
    print("flat copy:", [p.name for p in c.props], len(c.sections), "(expected ['n'] 0)")
    bad |= [p.name for p in c.props] != ["n"] or len(c.sections) != 0
except Exception as e:
    print("flat copy refused:", repr(e)); bad = True
try:
    p = dest.create_property(copy_from=sec.props["n"], keep_copy_id=False, name="fresh")
    print("property copy with a fresh id:", p.name, p.id != sec.props["n"].id)
    bad |= p.id == sec.props["n"].id
except Exception as e:
    print("property copy with a fresh id crashed:", repr(e)); bad = True
f.close(); raise SystemExit(int(bad))
