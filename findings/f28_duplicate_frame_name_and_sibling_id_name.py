"""C03: a second data frame under an existing name is refused; a legal name equal to a sibling section id is accepted (both were wrong)."""
import nixio, tempfile, os, uuid
d = tempfile.mkdtemp(); f = nixio.File.open(os.path.join(d, "t.nix"), nixio.FileMode.Overwrite)
b = f.create_block("b", "t"); bad = False
b.create_data_frame("df", "t", col_dict={"a": int}, data=[(1,)])
try:
    b.create_data_frame("df", "t", col_dict={"z": float}, data=[(2.0,)]); print("second frame under the same name ACCEPTED"); bad = True
except nixio.exceptions.DuplicateName:
    print("duplicate frame name refused")
s1 = f.create_section("s1", "t")
try:
    s2 = f.create_section(s1.id, "t"); print("a name equal to another section's id accepted:", s2.name == s1.id)
except Exception as e:
    print("a legal name (another section's id) REFUSED:", repr(e)); bad = True
f.close(); raise SystemExit(int(bad))
